"""pyvc.calls - call resolution: callee contracts, inlining, accessors, verification of one target."""
from __future__ import annotations

import ast

import z3

from . import loader, contract as C
from .engine import State, Outcome, Ctx, Vars, exc_subclass
from .expr import PathEnd
from .stmt import Iter
from .values import (Sym, SV, SList, SSet, SOpt, FuncRef, ModuleRef, ClassRef, Opaque, Unsupported, TInt, TBool, TStr,
                     TNet, TNone, TObj, TList, TSet, TOpt, TTuple, TBV, Net, fresh, fresh_name, type_constraints,
                     type_of, to_term, wrap, sort_of, is_concrete, list_from_concrete)

MAX_INLINE_DEPTH = 6


class RaisedIn:
    """info slot of a pending raise that happened inside an inlined callee: the state of that path"""

    def __init__(self, state, info):
        self.state, self.info = state, info


class CallMixin:
    # ------------------------------------------------------------------ call expression
    def ev_Call(self, node, st):
        if isinstance(node.func, ast.Attribute) and node.func.attr == "pop" and not node.args and not node.keywords:
            recv = self.ev(node.func.value, st)
            if isinstance(recv, (list, SList)) and not (isinstance(recv, list) and not recv):
                # L.pop(): value of the last element, L rebound to the shorter list
                L = recv if isinstance(recv, SList) else self.as_slist(recv)
                self.pending.append((L.n <= 0, "IndexError", None))
                self.assign_target(node.func.value, SList(L.ety, L.n - 1, L.a), st)
                return wrap(L.ety, L.a[L.n - 1])
        fn = self.ev(node.func, st)
        args = []
        for a in node.args:
            if isinstance(a, ast.Starred):
                v = self.ev(a.value, st)
                if not isinstance(v, (list, tuple)):
                    raise Unsupported("*args of a symbolic sequence")
                args.extend(v)
            else:
                args.append(self.ev(a, st))
        kwargs = {}
        for k in node.keywords:
            v = self.ev(k.value, st)
            if k.arg is None:
                if isinstance(v, KwArgs):
                    kwargs.update(v.d)
                elif isinstance(v, dict):
                    kwargs.update(v)
                else:
                    raise Unsupported("** of a symbolic mapping")
            else:
                kwargs[k.arg] = v
        return self.call_value(fn, args, kwargs, st, node)

    def call_value(self, fn, args, kwargs, st, node=None):
        if isinstance(fn, ClassRef):
            return self.construct(fn, args, kwargs, st, node)
        if not isinstance(fn, FuncRef):
            raise Unsupported(f"call of {fn!r}")
        q = fn.qualname
        if q.startswith("builtins."):
            return self.call_builtin(q[9:], args, kwargs, st, node)
        if q.startswith("method."):
            return self.call_method(fn.bound_self, q[7:], args, kwargs, st, node)
        if q.startswith(loader.PKG + "."):
            if fn.bound_self is not None:
                args = [fn.bound_self] + args
            return self.call_repo(q, args, kwargs, st, node, raw=fn.raw)
        return self.call_external(q, args, kwargs, st, node)

    # ------------------------------------------------------------------ repository functions
    def call_repo(self, q, args, kwargs, st, node, raw=False):
        kwargs = {k: v for k, v in kwargs.items() if k != "__rest__"}
        try:
            modname, fdef, cls = loader.find_function(q)
        except loader.LoadError as ex:
            raise Unsupported(str(ex))
        decos = [] if raw else loader.function_decorators(fdef)
        wrappers = [d for d in decos if d not in ("staticmethod", "classmethod", "property", "abstractmethod")
                    and not d.endswith(".setter") and d != "lru_cache" and d != "total_ordering"]
        if "lru_cache" in decos and not raw:
            con_public = C.get(q)
            if con_public is None:
                raise Unsupported(f"{q} is memoised (lru_cache) and has no public contract")
        if wrappers:
            con_public = C.get(q)
            if con_public is not None and not con_public.inline:
                return self.apply_contract(con_public, fdef, args, kwargs, st, node)
            if wrappers == ["h.check_start_step_sequence"]:
                # decorated method: execute the wrapper's real body with `method` bound to the raw function
                wq = "cisco_acl.helpers.check_start_step_sequence._wrapper"
                return self.inline(wq, args, kwargs, st, node, extra_env={"method": FuncRef(q, raw=True)})
            raise Unsupported(f"decorator {wrappers} on {q}")
        con = self.pick_contract(q + ".__wrapped__" if raw else q, fdef, args, kwargs)
        if con is not None and not con.inline:
            return self.apply_contract(con, fdef, args, kwargs, st, node)
        if con is not None and con.inline or self.auto_inline(fdef):
            return self.inline(q, args, kwargs, st, node)
        raise Unsupported(f"call of {q} which has no contract and is not inlinable")

    def pick_contract(self, key, fdef, args, kwargs):
        """contract for a call: the plain key, or the first variant `key#name` whose parameters all bind"""
        con = C.get(key)
        if con is not None:
            return con
        names = [x.arg for x in fdef.args.posonlyargs + fdef.args.args][:len(args)] + list(kwargs)
        for k, cand in C.REGISTRY.items():
            if k.startswith(key + "#"):
                need = [p for p in cand.params if p not in cand.defaults]
                sig = [x.arg for x in fdef.args.posonlyargs + fdef.args.args]
                if all(p in names or (p in sig and sig.index(p) < len(args)) for p in need) and \
                        all(kw in cand.params or kw in sig for kw in kwargs):
                    return cand
        return None

    def auto_inline(self, fdef):
        """small loop-free helpers (accessors, predicates) may be executed in place"""
        n = sum(1 for _ in ast.walk(fdef))
        has_loop = any(isinstance(x, (ast.For, ast.While)) for x in ast.walk(fdef))
        return n <= 400 and not has_loop

    def bind_params(self, fdef, args, kwargs, defaults_env_state, con=None):
        """Python argument binding -> env dict (supports defaults evaluated as constants and **kwargs)"""
        a = fdef.args
        names = [x.arg for x in a.posonlyargs + a.args]
        env = {}
        if len(args) > len(names) and a.vararg is None:
            raise Unsupported(f"too many positional arguments for {fdef.name}")
        for n_, v in zip(names, args):
            env[n_] = v
        defaults = dict(zip(names[len(names) - len(a.defaults):], a.defaults))
        kw = dict(kwargs)
        for n_ in names[len(args):]:
            if n_ in kw:
                env[n_] = kw.pop(n_)
            elif n_ in defaults:
                env[n_] = ast.literal_eval(defaults[n_])
            else:
                raise Unsupported(f"missing argument {n_} for {fdef.name}")
        for x, d in zip(a.kwonlyargs, a.kw_defaults):
            if x.arg in kw:
                env[x.arg] = kw.pop(x.arg)
            elif d is not None:
                env[x.arg] = ast.literal_eval(d)
        if a.kwarg is not None:
            env[a.kwarg.arg] = KwArgs(kw)
        elif kw:
            raise Unsupported(f"unexpected keyword arguments {list(kw)} for {fdef.name}")
        return env

    def inline(self, q, args, kwargs, st, node, extra_env=None):
        if self.call_depth >= MAX_INLINE_DEPTH:
            raise Unsupported(f"inline depth exceeded at {q}")
        modname, fdef, cls = loader.find_function(q)
        env = self.bind_params(fdef, args, kwargs, st)
        if extra_env:
            env.update(extra_env)
        if cls is not None and "self" in env and isinstance(env["self"], SV):
            pass
        saved = (self.modname, self.loop_ids, self.inline_loops, self.cls)
        self.modname, self.cls = modname, cls
        self.loop_ids = self.loop_ordinals(fdef)
        icon = C.get(q)
        self.inline_loops = icon.loops if icon is not None else {}
        self.call_depth += 1
        saved_pending = self.pending
        callee_st = State(env, st.pc, st.heap, st.log, st.ghost)
        try:
            outs = self.exec_block(fdef.body, callee_st)
        finally:
            self.call_depth -= 1
            self.modname, self.loop_ids, self.inline_loops, self.cls = saved
            self.pending = saved_pending
        # merge: raise outcomes become pending raises of the caller; return outcomes are merged by ite
        rets = []
        for o in outs:
            extra = o.state.pc[len(st.pc):]
            cond = z3.And(*extra) if extra else z3.BoolVal(True)
            if o.kind == "raise":
                # the raising path keeps its own path condition and heap (the caller's state moves on to the returning paths)
                self.pending.append((cond, o.value, RaisedIn(State(dict(st.env), o.state.pc, o.state.heap, o.state.log, o.state.ghost), o.info)))
            elif o.kind in ("return", "normal"):
                rets.append((cond, o.value if o.kind == "return" else None, o.state))
            else:
                raise Unsupported(f"{o.kind} escaped from {q}")
        if not rets:
            st.pc = st.pc + (z3.BoolVal(False),)
            raise PathEnd()
        if len(rets) == 1:
            cond, val, rs = rets[0]
            st.pc, st.heap, st.log, st.ghost = rs.pc, rs.heap, rs.log, rs.ghost
            return val
        # several returning paths: path conditions are kept as a disjunction of guarded facts
        val = rets[-1][1]
        heap = dict(rets[-1][2].heap)
        disj = []
        for cond, v, rs in rets:
            disj.append(cond)
        for cond, v, rs in reversed(rets[:-1]):
            val = self.ite(cond, v, val)
            for hk in set(heap) | set(rs.heap):
                a = rs.heap.get(hk, st.heap.get(hk))
                b = heap.get(hk, st.heap.get(hk))
                if a is None or b is None:
                    a = a if a is not None else self.heap_array(st, hk.split("#")[0], hk.split("#")[1] if "#" in hk else None)
                    b = b if b is not None else self.heap_array(st, hk.split("#")[0], hk.split("#")[1] if "#" in hk else None)
                if a is not b:
                    heap[hk] = z3.If(cond, a, b)
            if rs.log != rets[-1][2].log:
                raise Unsupported("inlined callee logs on some paths only")
        st.pc = st.pc + (z3.Or(*disj),)
        st.heap = heap
        st.log = rets[-1][2].log
        return val

    # ------------------------------------------------------------------ contracts at call sites
    def apply_contract(self, con, fdef, args, kwargs, st, node):
        env = self.bind_params(fdef, args, kwargs, st, con)
        rest = env.get(fdef.args.kwarg.arg) if fdef.args.kwarg is not None else None
        vals = {}
        for pname, pty in con.params.items():
            if pname in env:
                vals[pname] = self.coerce(env[pname], pty)
            elif isinstance(rest, KwArgs) and pname in rest.d:
                vals[pname] = self.coerce(rest.d[pname], pty)
            elif pname in con.defaults:
                vals[pname] = con.defaults[pname]
            elif pname in con.ghost.get("ghost_args", {}):
                pass      # bound below from the actual arguments
            else:
                raise Unsupported(f"contract parameter {pname} of {con.target} not bound at call site")
        for pname, fn in con.ghost.get("ghost_args", {}).items():
            if pname not in vals:
                vals[pname] = self.coerce(fn(Ctx(self, st, st), **vals), con.params[pname])
        old = st.copy()
        cx = Ctx(self, st, old)
        for label, fn in con.requires:
            self.emit(f"pre@{con.target.split('.', 1)[1]}", f"{label}@L{getattr(node, 'lineno', 0)}", st, fn(cx, **vals))
        self.havoc_heap(st, [k for k in con.modifies if k != "*"])
        for k in con.modifies:
            if k != "*":
                self.check_frame(st, k)
        cx_post = Ctx(self, st, old)
        result = fresh(con.returns, "ret_" + con.target.split(".")[-1]) if con.returns is not None else None
        if result is not None and "pure_result" in con.ghost:
            # the result is a term over ghost functions of the arguments (no fresh symbol: usable under binders)
            result = con.ghost["pure_result"](cx_post, **vals)
        elif result is not None:
            st.pc = st.pc + tuple(type_constraints(result))
        for r in con.raises:
            if r.when is None:
                b = z3.Bool(fresh_name("mayraise"))
                self.pending.append((b, r.exc, None))
                continue
            w = self.as_bool(r.when(Ctx(self, old, old), **vals))
            if r.exact:
                self.pending.append((w, r.exc, None))
                st.pc = st.pc + (z3.Not(w),)
            else:
                b = z3.Bool(fresh_name("mayraise"))
                self.pending.append((z3.And(w, b), r.exc, None))
                st.pc = st.pc + (z3.Not(z3.And(w, b)),)
        for label, fn in con.ensures:
            st.pc = st.pc + (self.as_bool(fn(cx_post, result, **vals)),)
        self.assumed_contracts.add(con.target)
        return result

    def coerce(self, v, ty):
        if isinstance(ty, TList) and isinstance(v, (list, tuple)):
            return self.as_slist(list(v), ty.elem)
        if isinstance(ty, TOpt) and not isinstance(v, SOpt):
            if v is None:
                return SOpt(ty.inner, z3.BoolVal(True), fresh(ty.inner, "none"))
            return SOpt(ty.inner, z3.BoolVal(False), v)
        return v

    # ------------------------------------------------------------------ property accessors
    def call_accessor(self, obj, cls, attr, acc, args, st):
        overr = loader.overriders(cls, attr)
        dcls, mem = loader.lookup_member(cls, attr)
        others = [c for c in overr if c != dcls and c != cls]
        if others:
            def body_dump(c):
                f = loader.class_members(c)[attr].get(acc)
                if f is None:
                    return None
                body = [b for b in f.body if not (isinstance(b, ast.Expr) and isinstance(b.value, ast.Constant))]
                return "|".join(ast.dump(b) for b in body)
            ref = body_dump(dcls)
            if all(body_dump(c) == ref for c in others):
                others = []
        if others:
            # dynamic dispatch on a property overridden below the static type: only allowed when a contract on the
            # static type's accessor covers all of them
            q = f"{loader.all_classes()[dcls][0]}.{dcls}.{attr}.{acc}"
            con = C.get(q)
            if con is None or not con.ghost.get("covers_overrides"):
                raise Unsupported(f"property {attr} is overridden in {others}; static type {cls}")
        q = f"{loader.all_classes()[dcls][0]}.{dcls}.{attr}.{acc}"
        return self.call_repo(q, [obj] + list(args), {}, st, None)

    # ------------------------------------------------------------------ constructors
    def construct(self, cref, args, kwargs, st, node):
        name = cref.name
        if name in ("ValueError", "TypeError", "NetmaskValueError", "IndexError", "KeyError"):
            return Opaque("exc-instance", [name])
        h = getattr(self, "construct_" + name, None)
        if h is not None:
            return h(args, kwargs, st, node)
        con = C.get(f"new.{name}")
        if con is not None:
            modname, cdef = loader.all_classes()[name]
            mem = loader.lookup_member(name, "__init__")
            return self.apply_contract(con, mem[1]["fn"], [None] + args, kwargs, st, node)
        raise Unsupported(f"construction of {name}")

    # ------------------------------------------------------------------ verify one target
    def verify_target(self, con):
        """generate all obligations of one contract target; a contract that does not fit the current code any more (renamed parameter or
        local, removed field, construct outside the subset) makes the target unsupported - undecided, never an alarm and never a crash"""
        n0 = len(self.obligations)
        try:
            return self._verify_target(con)
        except (Unsupported, AttributeError, KeyError, TypeError, IndexError) as ex:
            del self.obligations[n0:]
            why = str(ex) if isinstance(ex, Unsupported) else f"MOVED: a contract clause does not fit the current code ({type(ex).__name__}: {ex})"
            self.unsupported.append((con.target, why))
            return False

    def _verify_target(self, con):
        modname, fdef, cls = loader.find_function(con.target.split("#")[0].replace(".__wrapped__", ""))
        self.current = (con, modname, fdef, cls)
        self.modname, self.cls = modname, cls
        self.loop_ids = self.loop_ordinals(fdef)
        self.inline_loops = {}
        self.loop_var_types = con.ghost.get("loop_var_types", {})
        self.stmt_asserts = con.ghost.get("asserts", {})
        self.str_shape = con.ghost.get("str_shape")
        self.net_cover = bool(con.ghost.get("net_cover"))
        self.fresh_append = bool(con.ghost.get("fresh_append")) or self.net_cover
        from .engine import Vars as _V
        _V.types = self.loop_var_types
        self.call_depth = 0
        self.pending = []
        self.paths = 0
        if not hasattr(self, "assumed_contracts"):
            self.assumed_contracts = set()     # accumulated over all targets of a run (reported as assumptions)
        self.guard_stack = []
        if not hasattr(self, "engine_lemmas"):
            self.engine_lemmas = set()
        st = State()
        env = {}
        self.current_probes = {}
        for pname, pty in con.params.items():
            v = fresh(pty, "p_" + pname)
            env[pname] = v
            st.pc = st.pc + tuple(type_constraints(v))
            self.add_probe(pname, v)
        # parameters of the real signature that the contract fixes to constants
        for pname, cv in con.defaults.items():
            env.setdefault(pname, cv)
        a = fdef.args
        for x in a.posonlyargs + a.args + a.kwonlyargs:
            if x.arg not in env:
                raise Unsupported(f"parameter {x.arg} of {con.target} is not described by the contract")
        if a.kwarg is not None and a.kwarg.arg not in env:
            env[a.kwarg.arg] = KwArgs({k: env[k] for k in con.ghost.get("kwargs", [])})
        st.env = env
        for pname, pty in con.params.items():
            if isinstance(pty, TObj) and pty.cls in loader.all_classes():
                for c_ in loader.mro(pty.cls):
                    for f_, fty in C.SCHEMAS.get(c_, {}).items():
                        try:
                            self.add_probe(f"{pname}.{f_}", self.heap_read(st, env[pname], f_))
                        except Unsupported:
                            pass
        for k, v in con.ghost.get("env", {}).items():
            st.env[k] = v
        cx0 = Ctx(self, st, st)
        vals = {p: env[p] for p in con.params}
        for label, fn in con.requires:
            f = self.as_bool(fn(cx0, **vals))
            # one hypothesis per top-level conjunct (finer relevance filtering in the solver portfolio)
            st.pc = st.pc + (tuple(f.children()) if z3.is_and(f) and f.num_args() > 1 else (f,))
        for ax in con.ghost.get("axioms", []):
            st.pc = st.pc + (ax() if callable(ax) else ax,)     # definitions of ghost functions (closed formulas)
        for fn in con.ghost.get("defs", []):
            # definitions of contract-local ghost predicates over the parameters (conservative: the symbol occurs in no
            # precondition or postcondition, so nothing is demanded or assumed about it at call sites)
            st.pc = st.pc + (self.as_bool(fn(cx0, **vals)),)
        self.entry_state = st.copy()
        # vacuity: the precondition must be satisfiable
        self.emit("cover", "pre", st, z3.BoolVal(False), expect="sat", note="precondition satisfiable")
        n_before = len(self.obligations)
        try:
            outs = self.exec_block(fdef.body, st.copy())
        except (Unsupported, AttributeError, KeyError) as ex:
            if not isinstance(ex, Unsupported):
                ex = Unsupported(f"MOVED: a contract clause does not fit the current code ({type(ex).__name__}: {ex})")
            del self.obligations[n_before - 1:]
            self.unsupported.append((con.target, str(ex)))
            return False
        reached = {"return": 0, "raise": 0}
        declared = {r.exc: r for r in con.raises}
        for o in outs:
            cx = Ctx(self, o.state, self.entry_state)
            if o.kind in ("return", "normal"):
                reached["return"] += 1
                result = o.value if o.kind == "return" else None
                if con.returns is not None:
                    result = self.coerce(result, con.returns)
                for label, fn in con.ensures:
                    try:
                        goal = fn(cx, result, **vals)
                    except Unsupported as ex:
                        self.unsupported.append((con.target, f"ensures[{label}]: {ex}"))
                        continue
                    hfns = con.ensure_hints.get(label, ())
                    if hfns:
                        hs_ = []
                        for h in hfns:
                            r_ = h(cx, result, Vars(o.state.env), **vals)
                            hs_.extend(r_ if isinstance(r_, (list, tuple)) else [r_])
                        ob = self.emit_with_hints("post", label, o.state, goal, hs_)
                    else:
                        ob = self.emit("post", label, o.state, goal)
                    self.add_result_probe(ob, result)
                for r in con.raises:
                    if r.exact and r.when is not None:
                        self.emit("raises.must", r.label, o.state, z3.Not(self.as_bool(r.when(Ctx(self, self.entry_state, self.entry_state), **vals))),
                                  note=f"returns normally although {r.exc} is required")
            elif o.kind == "raise":
                reached["raise"] += 1
                r = None
                for name, rr in declared.items():
                    if exc_subclass(o.value, name):
                        r = rr
                        break
                if r is None:
                    self.emit("raises.unexpected", o.value, o.state, z3.BoolVal(False), note=f"undeclared exception {o.value}")
                elif r.when is not None:
                    self.emit("raises.only", r.label, o.state, r.when(Ctx(self, self.entry_state, self.entry_state), **vals))
                for label, fn in con.raise_ensures:
                    self.emit("raises.post", label, o.state, fn(cx, o.value, **vals))
            else:
                self.unsupported.append((con.target, f"{o.kind} escaped the function body"))
        if con.ensures and reached["return"] == 0:
            self.emit("cover", "return", self.entry_state, z3.BoolVal(True), expect="sat", note="no returning path reached")
        return True

    def add_probe(self, name, v):
        if isinstance(v, SV):
            self.current_probes[name] = v.t
        elif isinstance(v, SList):
            self.current_probes[name + ".len"] = v.n
            for i in range(6):
                self.current_probes[f"{name}[{i}]"] = v.a[i]
        elif isinstance(v, SOpt):
            self.current_probes[name + ".isnone"] = v.isnone
            self.add_probe(name + ".val", v.val)
        elif isinstance(v, tuple):
            for i, x in enumerate(v):
                self.add_probe(f"{name}.{i}", x)

    def add_result_probe(self, ob, result):
        saved = self.current_probes
        self.current_probes = ob.probes
        try:
            self.add_probe("result", result)
        finally:
            self.current_probes = saved


class KwArgs:
    """**kwargs of the function under verification: known keys -> values (others absent)"""

    def __init__(self, d):
        self.d = dict(d)

    def __repr__(self):
        return f"KwArgs({list(self.d)})"
