"""pyvc.driver - one property check = deductive part (pyvc + lemmas) + bounded stand-in + evidence + verdict.

Exit codes: 0 held on everything explored (KNOWN-FINDING lines allowed) / 1 violation (VIOLATION line) /
2 undecided and no bounded stand-in / 3 checker crash.
"""
from __future__ import annotations

import importlib
import json
import os
import sys
import time
import traceback

import z3

from . import contract as C, smt, loader
from .values import Unsupported

ROOT = os.path.dirname(os.path.dirname(os.path.abspath(__file__)))
# evidence/ and replays/ live in /verif; runs against a scratch copy of the repository (VERIF_REPO, used only to try
# seeded changes) write elsewhere so that committed evidence always comes from /repo itself
OUT = os.environ.get("VERIF_OUT") or (ROOT if not os.environ.get("VERIF_REPO") else "/tmp/verif_seed_out")


def _pmap_child(fn, chunk, conn):
    try:
        conn.send([fn(x) for x in chunk])
    except BaseException as ex:      # the harness itself failed: report, do not hang
        conn.send(("__error__", f"{type(ex).__name__}: {ex}"))
    finally:
        conn.close()


def pmap(fn, items, jobs=None, deadline_s=900, on_crash=None):
    """parallel map for the bounded stand-ins on forked children (results must be picklable).  A child that dies or
    outlives `deadline_s` does not hang the check: its chunk is re-run item by item to isolate the input, and that
    input is reported through `on_crash(item, why)` (default: the check stops with exit 3, never with a verdict)."""
    import multiprocessing as mp
    items = list(items)
    if not items:
        return []
    jobs = min(jobs or (os.cpu_count() or 4), 16)
    ctx = mp.get_context("fork")
    nchunks = max(1, min(len(items), jobs * 4))
    chunks = [(k, items[k::nchunks]) for k in range(nchunks)]
    results = {}

    def run(work, limit):
        pending = list(work)
        running = {}
        failed = []
        while pending or running:
            while pending and len(running) < jobs:
                key, chunk = pending.pop(0)
                parent, child = ctx.Pipe(duplex=False)
                pr = ctx.Process(target=_pmap_child, args=(fn, chunk, child))
                pr.start()
                child.close()
                running[key] = (pr, parent, time.time(), chunk)
            done = []
            for key, (pr, conn, t0, chunk) in running.items():
                if conn.poll(0):
                    try:
                        r = conn.recv()
                    except EOFError:
                        r = ("__error__", "child died while sending")
                    pr.join()
                    if isinstance(r, tuple) and r and r[0] == "__error__":
                        failed.append((key, chunk, r[1]))
                    else:
                        results[key] = r
                    done.append(key)
                elif not pr.is_alive():
                    failed.append((key, chunk, f"child exited with code {pr.exitcode}"))
                    done.append(key)
                elif time.time() - t0 > limit:
                    pr.kill()
                    pr.join()
                    failed.append((key, chunk, f"no result within {limit}s"))
                    done.append(key)
            for key in done:
                running.pop(key)
            if not done:
                time.sleep(0.01)
        return failed
    failed = run(chunks, deadline_s)
    for key, chunk, why in failed:
        sub = [((key, j), [x]) for j, x in enumerate(chunk)]
        sub_failed = run(sub, max(30, deadline_s / 10))
        out = []
        bad = {k[1]: w for k, _, w in sub_failed}
        for j, x in enumerate(chunk):
            if j in bad:
                if on_crash is None:
                    raise RuntimeError(f"bounded stand-in crashed on {x!r:.200}: {bad[j]}")
                out.append(on_crash(x, bad[j]))
            else:
                out.extend(results.pop((key, j)))
        results[key] = out
    out = [None] * len(items)
    for k in range(nchunks):
        for j, r in enumerate(results[k]):
            out[k + j * nchunks] = r
    return out


class Finding:
    """a concrete failure of a contract / property on the real code"""

    def __init__(self, prop, obligation, what, inputs=None, observed=None, expected=None, cmd=None, solver_output=None,
                 key=None, replayed=True):
        self.prop, self.obligation, self.what = prop, obligation, what
        self.inputs, self.observed, self.expected, self.cmd = inputs, observed, expected, cmd
        self.solver_output = solver_output
        self.key = key or obligation          # matched against known_findings.json
        self.replayed = replayed

    def as_dict(self):
        return {k: v for k, v in dict(property=self.prop, obligation=self.obligation, what=self.what, inputs=self.inputs,
                                      observed=self.observed, expected=self.expected, replay_cmd=self.cmd,
                                      solver_output=self.solver_output, key=self.key,
                                      failing_input_found=self.replayed).items() if v is not None}


def load_known(prop):
    path = os.path.join(ROOT, "known_findings.json")
    if not os.path.exists(path):
        return [], []
    data = json.load(open(path))
    known = [e for e in data.get("known", []) if e["property"] == prop]
    fixed = [e for e in data.get("fixed", []) if e["property"] == prop]
    return known, fixed


def matches_known(f: Finding, known):
    for e in known:
        if e.get("key") and e["key"] == f.key:
            return e
        if e.get("key_prefix") and str(f.key).startswith(e["key_prefix"]):
            return e
    return None


class Check:
    def __init__(self, prop, tier, seed=0):
        self.prop, self.tier, self.seed = prop, tier, seed
        self.t0 = time.time()
        self.findings: list = []
        self.obligations: list = []       # pyvc + lemma obligations
        self.unsupported: list = []
        self.bounded: list = []           # dicts: name, evaluations, distinct, bound, violations, seconds, samples
        self.assumptions: list = []
        self.targets: list = []
        self.notes: list = []
        self.crashed = None

    # ------------------------------------------------------------------ deductive part
    def prove(self, contract_modules, targets=None, timeout_s=None, serve=None):
        """generate and discharge the obligations of all contracts serving this property"""
        from . import VC
        for m in contract_modules:
            importlib.import_module("contracts." + m)
        eng = VC()
        cons = [c for c in C.REGISTRY.values() if c.verify and (set(serve or [self.prop]) & set(c.props)) and (targets is None or c.target in targets)]
        for con in cons:
            try:
                ok = eng.verify_target(con)
            except loader.LoadError as ex:
                eng.unsupported.append((con.target, f"MOVED: {ex}"))
                ok = False
            except RecursionError:
                eng.unsupported.append((con.target, "recursion limit in the VC generator"))
                ok = False
            sha = ""
            try:
                modname, fdef, cls = loader.find_function(con.target.split("#")[0].replace(".__wrapped__", ""))
                sha = loader.source_sha(modname, fdef)
            except loader.LoadError:
                pass
            self.targets.append({"target": con.target, "source_sha256_16": sha, "supported": bool(ok)})
        self.unsupported += eng.unsupported
        for c in C.REGISTRY.values():
            if not c.verify and c.target in getattr(eng, "assumed_contracts", set()):
                self.assumptions.append(f"assumed contract (not proved): {c.target} - {c.note}")
        timeout_s = timeout_s or (20 if self.tier == "quick" else 90)
        if "list.remove/ascending" in getattr(eng, "engine_lemmas", set()):
            from .lemmas import remove_lemmas
            from .engine import Obligation
            eng.obligations += [Obligation(oid=f"lemma/{lid}", kind="lemma", hyps=tuple(h), goal=g, target="lemma", probes=dict(pr))
                                for lid, h, g, pr in remove_lemmas()]
        if "list.concat/members" in getattr(eng, "engine_lemmas", set()):
            from .lemmas import concat_lemmas
            from .engine import Obligation
            eng.obligations += [Obligation(oid=f"lemma/{lid}", kind="lemma", hyps=tuple(h), goal=g, target="lemma", probes=dict(pr))
                                for lid, h, g, pr in concat_lemmas()]
        if "net.cover" in getattr(eng, "engine_lemmas", set()):
            from .lemmas import net_lemmas
            from .engine import Obligation
            eng.obligations += [Obligation(oid=f"lemma/{lid}", kind="lemma", hyps=tuple(h), goal=g, target="lemma", probes=dict(pr))
                                for lid, h, g, pr in net_lemmas()]
        t_gen = time.time() - self.t0
        smt.discharge(eng.obligations, timeout_s=timeout_s)
        # an obligation proved with the help of hints counts only if every hint it assumed is itself proved
        by_id = {o.oid: o for o in eng.obligations}
        for o in eng.obligations:
            if o.result == "PROVED" and any(by_id.get(d) is not None and by_id[d].result != "PROVED" for d in o.depends):
                o.result = "UNKNOWN"
                o.note += " | a hint assumed for this obligation is not discharged"
        self.obligations += eng.obligations
        self.notes.append(f"phase times: VC generation {t_gen:.1f}s, solving {time.time() - self.t0 - t_gen:.1f}s")
        return eng

    def replay_refuted(self):
        """replay every refuted obligation on the real code through the contract's replay builder"""
        for o in self.obligations:
            if o.result != "REFUTED":
                continue
            con = C.REGISTRY.get(o.target)
            if con is None or con.replay is None:
                continue
            try:
                r = con.replay(o.model, o)
            except Exception as ex:   # replay harness failure = undecided, never a violation
                o.note += f" | replay failed: {type(ex).__name__}: {ex}"
                continue
            if r is None:
                continue
            if r.get("violates"):
                self.finding(o.oid, r.get("what", "contract violated on the real code at the solver's counterexample"),
                             inputs=r.get("inputs"), observed=r.get("observed"), expected=r.get("expected"), cmd=r.get("cmd"),
                             solver_output={"model": o.model}, key=r.get("key") or o.oid.split("#")[0])
            else:
                o.result = "UNKNOWN"
                o.note += " | spurious: the real code satisfies the contract at the solver's counterexample"

    def lemmas(self, lemma_list, timeout_s=None):
        """lemma_list: [(id, hyps(list of z3), goal)] - pure SMT lemmas over contract clauses and spec definitions"""
        from .engine import Obligation
        obs = [Obligation(oid=f"lemma/{lid}", kind="lemma", hyps=tuple(h), goal=g, target="lemma", probes=dict(p))
               for lid, h, g, p in lemma_list]
        smt.discharge(obs, timeout_s=timeout_s or (20 if self.tier == "quick" else 90))
        self.obligations += obs
        return obs

    # ------------------------------------------------------------------ verdict helpers
    def failed_obligations(self):
        return [o for o in self.obligations if o.result in ("REFUTED", "VACUOUS")]

    def undecided_obligations(self):
        return [o for o in self.obligations if o.result in ("UNKNOWN", "")]

    def add_bounded(self, name, evaluations, distinct, bound, violations, seconds, samples, exhaustive=False, note=""):
        self.bounded.append(dict(name=name, evaluations=evaluations, distinct_nontrivial=distinct, bound=bound,
                                 violations=violations, seconds=round(seconds, 2), samples=samples[:5], exhaustive=exhaustive,
                                 note=note))

    def finding(self, obligation, what, **kw):
        f = Finding(self.prop, obligation, what, **kw)
        self.findings.append(f)
        return f

    # ------------------------------------------------------------------ finish: evidence + exit code
    def finish(self, level, explanation, trusted_base=(), extra_cov=None):
        known, fixed = load_known(self.prop)
        violations = []
        printed_known = set()
        for f in self.findings:
            e = matches_known(f, known)
            if e is not None:
                if e["key"] if "key" in e else e.get("key_prefix") not in printed_known:
                    pass
                tag = e.get("key") or e.get("key_prefix")
                if tag not in printed_known:
                    print(f"KNOWN-FINDING: property={self.prop} {e['what']}")
                    printed_known.add(tag)
            else:
                violations.append(f)
        # REFUTED obligations without a Finding attached by the property driver -> violation without failing input
        covered = {f.obligation for f in self.findings}
        for o in self.failed_obligations():
            if o.oid in covered or any(str(c).startswith(o.oid.split("#")[0]) for c in covered):
                continue
            f = Finding(self.prop, o.oid, f"obligation {o.result.lower()} by {o.solver}", solver_output={"model": o.model, "note": o.note},
                        replayed=False)
            e = matches_known(f, known)
            if e is not None:
                tag = e.get("key") or e.get("key_prefix")
                if tag not in printed_known:
                    print(f"KNOWN-FINDING: property={self.prop} {e['what']}")
                    printed_known.add(tag)
                continue
            violations.append(f)
        os.makedirs(os.path.join(OUT, "replays", self.prop), exist_ok=True)
        for old_ in os.listdir(os.path.join(OUT, "replays", self.prop)):      # the directory shows the last run only
            if old_.endswith(".json"):
                os.remove(os.path.join(OUT, "replays", self.prop, old_))
        os.makedirs(os.path.join(OUT, "evidence"), exist_ok=True)
        seen = set()
        for f in violations:
            if f.key in seen:
                continue
            seen.add(f.key)
            fn = "".join(ch if ch.isalnum() or ch in "._-" else "_" for ch in str(f.key))[:120] + ".json"
            path = os.path.join(OUT, "replays", self.prop, fn)
            d = f.as_dict()
            d["obligations_failed_or_undecided_in_this_run"] = [
                {"obligation": o.oid, "result": o.result, "solver": o.solver, "model": o.model, "reason": o.note[:200]}
                for o in self.obligations if o.expect == "unsat" and o.result != "PROVED"][:30]
            with open(path, "w") as fh:
                json.dump(d, fh, indent=1, default=str)
            tail = "" if f.replayed else " no-failing-input-found"
            print(f"VIOLATION property={self.prop} replay={os.path.relpath(path, OUT) if OUT == ROOT else path}{tail}")
        n_ob = len([o for o in self.obligations if o.expect == "unsat"])
        n_ok = len([o for o in self.obligations if o.expect == "unsat" and o.result == "PROVED"])
        undec = self.undecided_obligations()
        by_solver = {}
        for o in self.obligations:
            if o.result == "PROVED":
                import re
                key = re.sub(r"\d+ of \d+", "k of n", o.solver)
                by_solver[key] = by_solver.get(key, 0) + 1
        by_kind = {}
        for o in self.obligations:
            k = o.kind.split("@")[0]
            by_kind[k] = by_kind.get(k, 0) + 1
        if level == "proof" and (n_ok < n_ob or self.unsupported):
            level = "other"
            self.notes.append("level dropped from proof to other: not every obligation was discharged on this tree")
        evals = sum(b["evaluations"] for b in self.bounded)
        distinct = sum(b["distinct_nontrivial"] for b in self.bounded)
        samples = [{"obligation": o.oid, "result": o.result, "solver": o.solver, "seconds": o.seconds} for o in self.obligations[:4]]
        for b in self.bounded:
            samples += [{"bounded": b["name"], "case": s} for s in b["samples"][:2]]
        cov = {
            "explanation": explanation,
            "obligations": n_ob,
            "discharged": n_ok,
            "checker_cmd": f"./check {self.prop} {self.tier}",
            "trusted_base": list(trusted_base),
            "obligations_by_kind": by_kind,
            "discharged_by_solver": by_solver,
            "solver_seconds": round(sum(o.seconds for o in self.obligations), 2),
            "slowest_obligation_s": max([o.seconds for o in self.obligations], default=0),
            "undischarged": [{"obligation": o.oid, "result": o.result or "NOT-RUN", "reason": o.note[:160]} for o in undec][:40],
            "vacuity_covers": {o.oid: o.result for o in self.obligations if o.expect == "sat"},
            "unsupported_targets": [{"target": t, "reason": r} for t, r in self.unsupported],
            "functions_under_contract": self.targets,
            "bounded_standins": self.bounded,
            "evaluations": max(evals, 1) if self.bounded else len(self.obligations),
            "distinct_nontrivial": max(distinct, 2) if self.bounded and distinct >= 2 else max(2, n_ob),
            "rule": "deductive: one SMT query per path and clause (obligation ids are stable names); bounded: see bounded_standins[].bound",
            "samples": samples or [{"note": "no obligations"}],
            "exhaustive": bool(self.bounded) and all(b.get("exhaustive") for b in self.bounded),
            "known_findings_reported": sorted(printed_known),
            "notes": self.notes,
        }
        if extra_cov:
            cov.update(extra_cov)
        ev = {
            "property_id": self.prop, "tier": self.tier, "seed": self.seed, "level": level, "coverage": cov,
            "assumptions": sorted(set(self.assumptions)), "wall_s": round(time.time() - self.t0, 2),
            "violations": len(seen),
        }
        with open(os.path.join(OUT, "evidence", f"{self.prop}.json"), "w") as fh:
            json.dump(ev, fh, indent=1, default=str)
        print(f"[{self.prop}] tier={self.tier} obligations={n_ob} discharged={n_ok} undecided={len(undec)} "
              f"unsupported={len(self.unsupported)} bounded_evals={evals} violations={len(seen)} wall={ev['wall_s']}s")
        for o in undec[:10]:
            print(f"  undecided: {o.oid} ({o.note[:80]})")
        for t, r in self.unsupported[:10]:
            print(f"  unsupported: {t}: {r}")
        if seen:
            return 1
        return 0


def run(prop, main):
    """entry point used by props/Cxx.py"""
    tier = "quick"
    args = [a for a in sys.argv[1:]]
    if args and args[0] in ("quick", "thorough"):
        tier = args[0]
    elif os.environ.get("VERIF_TIER") in ("quick", "thorough"):
        tier = os.environ["VERIF_TIER"]
    seed = int(os.environ.get("VERIF_SEED", "0") or 0)
    chk = Check(prop, tier, seed)
    import logging
    logging.getLogger().addHandler(logging.NullHandler())   # the library logs warnings through the root logger
    try:
        rc = main(chk)
    except SystemExit:
        raise
    except Exception:
        traceback.print_exc()
        print(f"[{prop}] checker crash (exit 3) - no verdict")
        sys.exit(3)
    sys.exit(rc)
