"""pyvc.contract - sidecar contracts on repository functions.

A contract is attached to a qualified name of the real function.  Clause bodies are Python callables written
against the spec library ``pyvc.spec`` (S), which is polymorphic: the same clause builds SMT terms when given
symbolic values and evaluates to Python bool/int on concrete values (used by replay and the bounded monitors).
"""
from __future__ import annotations

from dataclasses import dataclass, field
from typing import Callable, Optional

REGISTRY: dict = {}
SCHEMAS: dict = {}      # class name -> {field: Ty}
PROPERTY_OF: dict = {}  # target -> set of property ids served


@dataclass
class Loop:
    inv: Callable                      # inv(cx, k, v) -> bool term
    decreases: Optional[Callable] = None   # for while loops: measure(cx, v) -> int term (>=0, strictly decreasing)
    label: str = ""
    hints: tuple = ()                  # intermediate assertions for the step obligation: h(cx, k, v) (proved, then assumed)
    modifies: Optional[list] = None    # heap keys the loop body may write (None: the frame of the whole function); checked at every write


@dataclass
class Raise:
    exc: str
    when: Optional[Callable]           # when(cx, **params) -> bool term; None = may raise at any time
    exact: bool = True                 # True: raises iff when;  False: raises only if when
    label: str = ""


@dataclass
class Contract:
    target: str
    params: dict                       # name -> Ty (in signature order; 'self' included for methods)
    returns: object = None             # Ty or None
    requires: list = field(default_factory=list)    # [(label, fn(cx, **params))]
    ensures: list = field(default_factory=list)     # [(label, fn(cx, result, **params))]
    raises: list = field(default_factory=list)      # [Raise]
    loops: dict = field(default_factory=dict)       # ordinal -> Loop
    modifies: list = field(default_factory=list)    # heap keys "Class.field" the function may write
    props: tuple = ()                  # property ids this contract serves
    verify: bool = True                # False: assumed contract on a dependency / glue (listed as assumption)
    inline: bool = False               # callee is executed symbolically at call sites instead of by contract
    ghost: dict = field(default_factory=dict)       # free-form (e.g. replay builder)
    replay: Optional[Callable] = None  # replay(model dict) -> dict(inputs=..., observed=..., violates=bool)
    note: str = ""
    defaults: dict = field(default_factory=dict)    # param name -> default concrete value
    ensure_hints: dict = field(default_factory=dict)  # ensures label -> (hint fns)
    raise_ensures: list = field(default_factory=list)  # [(label, fn(cx, exc_name, **params))] checked on every raising path

    def require(self, label, fn):
        self.requires.append((label, fn))
        return self

    def ensure(self, label, fn, hints=()):
        """hints: intermediate assertions h(cx, result, v, **params), each proved from the path condition and the
        earlier hints and then assumed for the clause (like `assert` in Dafny/Verus)"""
        self.ensures.append((label, fn))
        if hints:
            self.ensure_hints[label] = tuple(hints)
        return self

    def ensure_on_raise(self, label, fn):
        self.raise_ensures.append((label, fn))
        return self

    def may_raise(self, exc, when=None, exact=True, label=""):
        self.raises.append(Raise(exc, when, exact, label or exc))
        return self

    def loop(self, ordinal, inv, decreases=None, label="", hints=(), modifies=None):
        self.loops[ordinal] = Loop(inv, decreases, label or f"loop{ordinal}", tuple(hints), modifies)
        return self


def contract(target, params, returns=None, **kw) -> Contract:
    c = Contract(target=target, params=dict(params), returns=returns, **kw)
    REGISTRY[target] = c
    return c


def schema(cls, **fields):
    SCHEMAS.setdefault(cls, {}).update(fields)


def get(target) -> Optional[Contract]:
    return REGISTRY.get(target)
