"""pyvc.builtins_ - models of Python built-ins and of the few library calls the kernels use (mixin of the engine).

Every rule here is an *assumption* about CPython / the standard library (DESIGN.md section 3); the rules are audited
against CPython by pyvc.audit on every run.
"""
from __future__ import annotations

import ast

import z3

from . import loader, contract as C
from .stmt import Iter
from .calls import KwArgs
from .values import (SDict, Sym, SV, SList, SSet, SOpt, FuncRef, ModuleRef, ClassRef, Opaque, Unsupported, TInt, TBool, TStr,
                     TNet, TNone, TObj, TList, TSet, TOpt, TTuple, TBV, Net, fresh, fresh_name, type_constraints,
                     type_of, to_term, wrap, sort_of, is_concrete, list_from_concrete, BVW, BIT, BitStr, BitChar,
                     netmask_of, POW2, TBIT, IP_OK, IP_PARSE, WS_LEN, WS_ARR)

ISDIGIT = z3.Function("py_isdigit", z3.StringSort(), z3.BoolSort())


class SuperRef:
    """super() inside a method of class `cls` on object `obj`"""

    def __init__(self, obj, cls):
        self.obj, self.cls = obj, cls


class BuiltinMixin:
    MUTATORS = {"append", "extend", "insert", "pop", "remove", "reverse", "sort", "add", "update", "clear",
                "setdefault", "discard"}

    # ------------------------------------------------------------------ builtin functions
    def call_builtin(self, name, args, kwargs, st, node):
        m = getattr(self, "bi_" + name, None)
        if m is None:
            raise Unsupported(f"builtin {name}")
        return m(args, kwargs, st, node)

    def bi_all(self, args, kwargs, st, node):
        return self._any_all(args[0], True, st)

    def bi_any(self, args, kwargs, st, node):
        return self._any_all(args[0], False, st)

    def _any_all(self, v, universal, st):
        if v.__class__.__name__ == "GenExp":
            r = self.quantify_genexp(v, universal)
            return r if isinstance(r, bool) else wrap(TBool, r)
        if isinstance(v, (list, tuple)):
            ts = [self.truthy(x) for x in v]
            if all(isinstance(t, bool) for t in ts):
                return all(ts) if universal else any(ts)
            ts = [z3.BoolVal(t) if isinstance(t, bool) else t for t in ts]
            return wrap(TBool, z3.And(*ts) if universal else z3.Or(*ts))
        raise Unsupported(f"any/all of {v!r}")

    def bi_len(self, args, kwargs, st, node):
        v = args[0]
        if isinstance(v, (list, tuple, dict, str, frozenset)):
            return len(v)
        if isinstance(v, SList):
            return wrap(TInt, v.n)
        if isinstance(v, SV) and v.ty is TStr:
            return wrap(TInt, z3.Length(v.t))
        if isinstance(v, SSet):
            card = z3.Function("set_card", sort_of(v.ty), z3.IntSort())
            st.pc = st.pc + (card(v.chi) >= 0,)
            return SV(TInt, card(v.chi))
        raise Unsupported(f"len({v!r})")

    def bi_int(self, args, kwargs, st, node):
        v = args[0]
        if isinstance(v, BitChar):
            return SV(TInt, z3.If(BIT(v.w, v.pos), 1, 0))
        if isinstance(v, bool):
            return int(v)
        if isinstance(v, int):
            return v
        if isinstance(v, str):
            try:
                return int(v)
            except ValueError:
                self.raise_now(st, "ValueError")
                return 0
        if isinstance(v, SV) and v.ty is TInt:
            return v
        if isinstance(v, SV) and v.ty is TBV:
            return v
        if isinstance(v, SV) and v.ty is TBool:
            return SV(TInt, z3.If(v.t, 1, 0))
        if isinstance(v, SV) and v.ty is TStr:
            # int(s): ValueError unless s is a (possibly signed/space-padded) decimal; modelled for digit strings only
            ok = self.str_isdigit(v.t)
            self.pending.append((z3.Not(ok), "ValueError", None))
            if getattr(self, "str_shape", None):
                from .values import STRINT
                return SV(TInt, STRINT(v.t))
            return SV(TInt, z3.StrToInt(v.t))
        raise Unsupported(f"int({v!r})")

    def str_isdigit(self, t):
        if getattr(self, "str_shape", None):
            from .values import ISDIGIT
            return ISDIGIT(t)
        return z3.StrToInt(t) >= 0

    def bi_str(self, args, kwargs, st, node):
        if not args:
            return ""
        v = args[0]
        if isinstance(v, SV) and v.ty is TBV:
            return Opaque("str(address)")   # dotted-quad text: only used in messages by the verified targets
        if isinstance(v, str):
            return v
        if isinstance(v, (bool, int)) or v is None:
            return str(v)
        if isinstance(v, SV) and v.ty is TStr:
            return v
        if isinstance(v, SV) and v.ty is TInt:
            if getattr(self, "str_shape", None) == "range":
                from .values import NUMSTR
                return SV(TStr, NUMSTR(v.t))
            return SV(TStr, z3.If(v.t >= 0, z3.IntToStr(v.t), z3.Concat(z3.StringVal("-"), z3.IntToStr(-v.t))))
        if isinstance(v, SV) and v.ty is TNet:
            from .values import NETSTR
            return SV(TStr, NETSTR(v.t))      # text of a network: NETPARSE(NETSTR(n)) == n is the only assumed law
        if isinstance(v, SOpt):
            raise Unsupported("str(optional)")
        raise Unsupported(f"str({v!r})")

    def bi_bool(self, args, kwargs, st, node):
        if not args:
            return False
        t = self.truthy(args[0])
        return t if isinstance(t, bool) else wrap(TBool, t)

    def bi_list(self, args, kwargs, st, node):
        if not args:
            return []
        v = args[0]
        if isinstance(v, (list, tuple)):
            return list(v)
        if isinstance(v, frozenset):
            return sorted(v, key=repr)
        if isinstance(v, SList):
            return v
        if isinstance(v, Iter):
            kind = v.view
            if kind[0] == "concrete":
                return list(kind[1])
            _, n, elem = kind
            j = z3.Int(fresh_name("li"))
            e0 = elem(j)
            if isinstance(e0, tuple):
                raise Unsupported("list() of tuple iterator")
            ety = type_of(e0)
            return SList(ety, z3.If(n > 0, n, 0), z3.Lambda([j], to_term(e0)))
        if isinstance(v, SSet):
            view = self.iter_view(v, st)
            _, n, elem = view
            j = z3.Int(fresh_name("li"))
            return SList(v.ety, n, z3.Lambda([j], to_term(elem(j))))
        if isinstance(v, dict):
            return list(v.keys())
        raise Unsupported(f"list({v!r})")

    def bi_tuple(self, args, kwargs, st, node):
        v = self.bi_list(args, kwargs, st, node)
        return tuple(v) if isinstance(v, list) else v

    def bi_dict(self, args, kwargs, st, node):
        if args:
            if isinstance(args[0], dict):
                d = dict(args[0])
                d.update(kwargs)
                return d
            raise Unsupported("dict(iterable)")
        return dict(kwargs)

    def bi_set(self, args, kwargs, st, node):
        if not args:
            return frozenset()
        v = args[0]
        if isinstance(v, dict) and is_concrete(list(v.keys())):
            return frozenset(v.keys())
        if isinstance(v, (list, tuple, frozenset)) and is_concrete(v):
            return frozenset(v)
        if isinstance(v, (list, tuple)):
            if v and all(isinstance(e, SV) for e in v):
                # finite explicit set: keep the element terms (issubset / membership expand over them)
                ety = v[0].ty
                x = z3.Const(fresh_name("sx"), sort_of(ety))
                return SSet(ety, z3.Lambda([x], z3.Or(*[x == e.t for e in v])), elems=[e.t for e in v])
            v = self.as_slist(list(v))
        if isinstance(v, SList):
            x = z3.Const(fresh_name("sx"), sort_of(v.ety))
            i = z3.Int(fresh_name("si"))
            return SSet(v.ety, z3.Lambda([x], z3.Exists([i], z3.And(0 <= i, i < v.n, v.a[i] == x))))
        if isinstance(v, SSet):
            return v
        raise Unsupported(f"set({v!r})")

    def bi_range(self, args, kwargs, st, node):
        if all(isinstance(a, int) for a in args) and (len(args) < 2 or args[-1] - args[0] <= 64 or True) and \
                all(isinstance(a, int) for a in args):
            r = range(*args)
            if len(r) <= 64:
                return list(r)
        if len(args) == 1:
            lo, hi = z3.IntVal(0), to_term(args[0])
        elif len(args) == 2:
            lo, hi = to_term(args[0]), to_term(args[1])
        else:
            raise Unsupported("range with step")
        n = z3.If(hi > lo, hi - lo, 0)
        it = Iter(("indexed", n, lambda k: wrap(TInt, lo + k)))
        it.is_range = True
        return it

    def bi_enumerate(self, args, kwargs, st, node):
        start = kwargs.get("start", args[1] if len(args) > 1 else 0)
        view = self.iter_view(args[0], st)
        if view[0] == "concrete" and is_concrete(start):
            return list((start + i, x) for i, x in enumerate(view[1]))
        if view[0] == "concrete":
            raise Unsupported("enumerate of concrete list with symbolic start")
        _, n, elem = view
        return Iter(("indexed", n, lambda k: (wrap(TInt, to_term(start) + k), elem(k))))

    def bi_zip(self, args, kwargs, st, node):
        views = [self.iter_view(a, st) for a in args]
        if all(v[0] == "concrete" for v in views):
            return list(zip(*[v[1] for v in views]))
        views = [v if v[0] == "indexed" else self.iter_view(self.as_slist(v[1]), st) for v in views]
        n = views[0][1]
        for v in views[1:]:
            n = z3.If(v[1] < n, v[1], n)
        return Iter(("indexed", n, lambda k: tuple(v[2](k) for v in views)))

    def bi_reversed(self, args, kwargs, st, node):
        view = self.iter_view(args[0], st)
        if view[0] == "concrete":
            return list(reversed(view[1]))
        _, n, elem = view
        return Iter(("indexed", n, lambda k: elem(n - 1 - k)))

    def bi_sorted(self, args, kwargs, st, node):
        v = args[0]
        if kwargs:
            raise Unsupported("sorted with key/reverse")
        if isinstance(v, (list, tuple, frozenset)) and is_concrete(v):
            return sorted(v)
        if isinstance(v, (list, tuple)):
            v = self.as_slist(list(v))
        if isinstance(v, SSet):
            v = self.bi_list([v], {}, st, node)
        if isinstance(v, SDict):
            # sorted(d): the keys, each once (order not modelled): a fresh list whose elements are keys, with an index witness for every key
            r = fresh(TList(v.kty), "keys")
            i_ = z3.Int(fresh_name("i"))
            k_ = z3.Const(fresh_name("k"), sort_of(v.kty))
            idx = z3.Function(fresh_name("keyidx"), sort_of(v.kty), z3.IntSort())
            st.pc = st.pc + (r.n >= 0,
                             z3.ForAll([i_], z3.Implies(z3.And(0 <= i_, i_ < r.n), z3.And(v.dom[r.a[i_]], idx(r.a[i_]) == i_))),
                             z3.ForAll([k_], z3.Implies(v.dom[k_], z3.And(0 <= idx(k_), idx(k_) < r.n, r.a[idx(k_)] == k_))))
            return r
        if isinstance(v, SList):
            if isinstance(v.ety, TObj):
                return self.sorted_perm(v, st, order=False)
            if v.ety not in (TInt, TStr):
                raise Unsupported("sorted of non-scalar list")
            return self.sorted_perm(v, st)
        raise Unsupported(f"sorted({v!r})")

    def sorted_perm(self, v, st, order=True):
        """sorted(L): fresh list R, ascending, permutation of L (witnessed by a bijection on indices);
        order=False (objects compared by their own __lt__): permutation only"""
        r = fresh(TList(v.ety), "sorted")
        p = z3.Function(fresh_name("perm"), z3.IntSort(), z3.IntSort())
        q = z3.Function(fresh_name("perminv"), z3.IntSort(), z3.IntSort())
        i, j = z3.Int(fresh_name("i")), z3.Int(fresh_name("j"))
        if not order:
            st.pc = st.pc + (
                r.n == v.n,
                z3.ForAll([i], z3.Implies(z3.And(0 <= i, i < r.n), z3.And(0 <= p(i), p(i) < v.n, q(p(i)) == i, r.a[i] == v.a[p(i)])),
                          patterns=[r.a[i], p(i)]),
                z3.ForAll([i], z3.Implies(z3.And(0 <= i, i < v.n), z3.And(0 <= q(i), q(i) < r.n, p(q(i)) == i, r.a[q(i)] == v.a[i])),
                          patterns=[v.a[i], q(i)]),
            )
            self.last_perm = (p, q)
            return r
        st.pc = st.pc + (
            r.n == v.n,
            # sorting an already ascending list changes nothing (assumed property of sorted/list.sort, audited)
            z3.Implies(z3.ForAll([i, j], z3.Implies(z3.And(0 <= i, i < j, j < v.n), v.a[i] <= v.a[j])),
                       z3.ForAll([i], z3.Implies(z3.And(0 <= i, i < v.n), r.a[i] == v.a[i]))),
            z3.ForAll([i, j], z3.Implies(z3.And(0 <= i, i < j, j < r.n), r.a[i] <= r.a[j])),
            z3.ForAll([i], z3.Implies(z3.And(0 <= i, i < r.n), z3.And(0 <= p(i), p(i) < v.n, q(p(i)) == i, r.a[i] == v.a[p(i)]))),
            z3.ForAll([i], z3.Implies(z3.And(0 <= i, i < v.n), z3.And(0 <= q(i), q(i) < r.n, p(q(i)) == i, r.a[q(i)] == v.a[i]))),
        )
        return r

    def bi_isinstance(self, args, kwargs, st, node):
        v, c = args
        classes = list(c) if isinstance(c, tuple) else [c]
        names = []
        for k in classes:
            if isinstance(k, ClassRef):
                names.append(k.name)
            elif isinstance(k, FuncRef) and k.qualname.startswith("builtins."):
                names.append(k.qualname[9:])
            else:
                raise Unsupported(f"isinstance against {k!r}")
        if isinstance(v, SV) and isinstance(v.ty, TObj):
            rs = []
            for n_ in names:
                if n_ in loader.all_classes():
                    if n_ in loader.mro(v.ty.cls):
                        return True
                    rs.append(self.isinstance_term(st, v, n_))
            return wrap(TBool, z3.Or(*rs)) if rs else False
        if isinstance(v, SOpt):
            inner = self.bi_isinstance([v.val, c], kwargs, st, node)
            if inner is False:
                return False
            it = to_term(inner)
            return wrap(TBool, z3.And(z3.Not(v.isnone), it))
        pyty = {TInt: "int", TBool: "bool", TStr: "str", TBV: "int"}
        if v is None:
            return False
        if isinstance(v, (list, SList)):
            return "list" in names
        if isinstance(v, tuple):
            return "tuple" in names
        if isinstance(v, (frozenset, SSet)):
            return "set" in names
        if isinstance(v, dict):
            return "dict" in names
        if isinstance(v, SV) and v.ty is TNet:
            return "IPv4Network" in names
        t = type_of(v)
        if t in pyty:
            return pyty[t] in names or (t is TBool and "int" in names)
        raise Unsupported(f"isinstance({v!r}, {names})")

    def bi_super(self, args, kwargs, st, node):
        if args or self.cls is None or "self" not in st.env:
            raise Unsupported("super() in this form")
        return SuperRef(st.env["self"], self.cls)

    def bi_min(self, args, kwargs, st, node):
        if len(args) == 2:
            a, b = to_term(args[0]), to_term(args[1])
            return wrap(TInt, z3.If(a <= b, a, b))
        raise Unsupported("min")

    def bi_max(self, args, kwargs, st, node):
        if len(args) == 2:
            a, b = to_term(args[0]), to_term(args[1])
            return wrap(TInt, z3.If(a >= b, a, b))
        raise Unsupported("max")

    def bi_type(self, args, kwargs, st, node):
        return FuncRef("builtins.type", bound_self=args[0])

    def bi_hasattr(self, args, kwargs, st, node):
        obj, name = args
        if isinstance(obj, SV) and isinstance(obj.ty, TObj) and isinstance(name, str):
            cls = obj.ty.cls
            return loader.lookup_member(cls, name) is not None or self.field_type(cls, name) is not None
        raise Unsupported("hasattr")

    def bi_getattr(self, args, kwargs, st, node):
        obj, name = args[0], args[1]
        if isinstance(name, str):
            return self.get_attr(obj, name, st)
        raise Unsupported("getattr with computed name")

    def bi_format(self, args, kwargs, st, node):
        v, spec_ = args[0], args[1] if len(args) > 1 else ""
        if isinstance(v, SV) and v.ty is TBV and isinstance(spec_, str) and spec_.startswith("0") and spec_.endswith("b") \
                and spec_[1:-1].isdigit():
            width = int(spec_[1:-1])
            # the text has exactly `width` characters iff v < 2**width
            self.emit("safe.format", f"L{getattr(node, 'lineno', 0)}", st, z3.ULT(v.t, z3.BitVecVal(1 << width, BVW)))
            return BitStr(v.t, width)
        if isinstance(v, int) and isinstance(spec_, str):
            return format(v, spec_)
        raise Unsupported("format() in this form")

    # ------------------------------------------------------------------ methods of built-in types
    def objdict_method(self, recv, name, args, kwargs, st, node):
        """obj.__dict__.copy() / .clear() / .update(snapshot) / .get("field")"""
        from .values import ObjDict, Snapshot
        obj = recv.obj
        if name == "copy":
            # make sure every schema field of the object has a heap map, then remember all of them
            for c_ in loader.mro(obj.ty.cls):
                for f_ in C.SCHEMAS.get(c_, {}):
                    key, ty = self.heap_key(obj.ty.cls, f_)
                    for k in self.heap_keys_parts(key):
                        self.heap_array(st, key, k.split("#")[1] if "#" in k else None)
            return Snapshot(obj, st.heap)
        if name == "clear":
            return None
        if name == "update" and args and isinstance(args[0], Snapshot) and args[0].obj.t.eq(obj.t):
            snap = args[0]
            for k, arr in snap.heap.items():
                if k == "__class__":
                    continue
                key = k.split("#")[0]
                cur = self.heap_array(st, key, k.split("#")[1] if "#" in k else None)
                if not cur.eq(arr):
                    self.check_frame(st, key)
                    st.heap[k] = z3.Store(cur, obj.t, arr[obj.t])
            return None
        if name == "get" and args and isinstance(args[0], str):
            if self.field_type(obj.ty.cls, args[0]) is not None:
                return self.heap_read(st, obj, args[0])
            return args[1] if len(args) > 1 else None
        raise Unsupported(f"__dict__.{name}")

    def call_method(self, recv, name, args, kwargs, st, node):
        if recv.__class__.__name__ == "ObjDict":
            return self.objdict_method(recv, name, args, kwargs, st, node)
        if isinstance(recv, KwArgs):
            if name == "get":
                key = args[0]
                default = args[1] if len(args) > 1 else None
                return recv.d.get(key, default)
            raise Unsupported(f"kwargs.{name}")
        if isinstance(recv, SDict):
            if name == "items" and recv.keys is not None:
                ks = recv.keys
                return Iter(("indexed", ks.n, lambda k: (wrap(recv.kty, ks.a[k]), wrap(recv.vty, recv.map[ks.a[k]]))))
            if name == "get":
                k = to_term(args[0])
                default = args[1] if len(args) > 1 else None
                if default is None:
                    return SOpt(recv.vty, z3.Not(recv.dom[k]), wrap(recv.vty, recv.map[k]))
                return wrap(recv.vty, z3.If(recv.dom[k], recv.map[k], to_term(default)))
            if name == "copy":
                return recv
            raise Unsupported(f"dict.{name} on a symbolic dict")
        if isinstance(recv, dict):
            return self.dict_method(recv, name, args, kwargs, st, node)
        if isinstance(recv, (str,)) or (isinstance(recv, SV) and recv.ty is TStr):
            return self.str_method(recv, name, args, kwargs, st, node)
        if isinstance(recv, (list, tuple, SList)):
            return self.list_method(recv, name, args, kwargs, st, node)
        if isinstance(recv, (frozenset, SSet)):
            return self.set_method(recv, name, args, kwargs, st, node)
        if isinstance(recv, SV) and recv.ty is TNet:
            return self.net_method(recv, name, args, kwargs, st, node)
        if isinstance(recv, SV) and recv.ty is TInt and name == "__hash__":
            return recv
        raise Unsupported(f"method {name} on {recv!r}")

    def dict_method(self, d, name, args, kwargs, st, node):
        if name == "get":
            key = args[0]
            default = args[1] if len(args) > 1 else None
            if is_concrete(key):
                return d.get(key, default)
            return self.dict_lookup(d, key, st, default=default)
        if name == "items":
            return list(d.items())
        if name == "keys":
            return list(d.keys())
        if name == "values":
            return list(d.values())
        if name == "copy":
            return dict(d)
        raise Unsupported(f"dict.{name}")

    def str_method(self, s, name, args, kwargs, st, node):
        if isinstance(s, str) and all(is_concrete(a) for a in args) and name in (
                "startswith", "endswith", "isdigit", "split", "strip", "lower", "upper", "replace", "find", "join",
                "lstrip", "rstrip", "splitlines", "__hash__"):
            if name == "__hash__":
                raise Unsupported("hash of string")
            return getattr(s, name)(*args)
        t = to_term(s)
        if name == "startswith":
            p = args[0]
            if isinstance(p, tuple):
                return wrap(TBool, z3.Or(*[z3.PrefixOf(to_term(x), t) for x in p]))
            return wrap(TBool, z3.PrefixOf(to_term(p), t))
        if name == "endswith":
            return wrap(TBool, z3.SuffixOf(to_term(args[0]), t))
        if name == "isdigit":
            return wrap(TBool, self.str_isdigit(t))
        if name == "find":
            return wrap(TInt, z3.IndexOf(t, to_term(args[0]), 0))
        if name == "join":
            parts = args[0]
            if isinstance(parts, (list, tuple)):
                out = []
                for i, p in enumerate(parts):
                    if i:
                        out.append(s)
                    out.append(p)
                return self.concat_strs(out) if out else ""
            if isinstance(parts, SList) and parts.ety is TStr and isinstance(s, str) and s == " ":
                # " ".join(tokens): named by a ghost function of the token list; assumed str algebra (audited): the
                # whitespace split of the joined text gives the tokens back (tokens are non-empty and whitespace free)
                r = z3.String(fresh_name("joined"))     # some text whose whitespace tokens are exactly the list
                i = z3.Int(fresh_name("jn"))
                st.pc = st.pc + (WS_LEN(r) == parts.n, z3.ForAll([i], z3.Implies(z3.And(0 <= i, i < parts.n), WS_ARR(r)[i] == parts.a[i])))
                return SV(TStr, r)
            if isinstance(parts, SList) and parts.ety is TStr and isinstance(s, str) and s == ",":
                # ",".join(tokens): some text whose comma separated tokens are exactly the list (tokens contain no comma)
                from .values import CSV_LEN, CSV_ARR
                r = z3.String(fresh_name("csv"))
                i = z3.Int(fresh_name("jn"))
                st.pc = st.pc + (CSV_LEN(r) == parts.n, z3.ForAll([i], z3.Implies(z3.And(0 <= i, i < parts.n), CSV_ARR(r)[i] == parts.a[i])))
                return SV(TStr, r)
            raise Unsupported("join of symbolic list")
        if name == "split":
            if not args and not kwargs:
                # whitespace split: named by ghost functions of the text (tokens are non-empty, whitespace free)
                self.assume_here(st, z3.And(WS_LEN(t) >= 0, WS_LEN(z3.StringVal("")) == 0))
                return SList(TStr, WS_LEN(t), WS_ARR(t))
            return self.str_split(s, args, kwargs, st)
        if name == "__hash__":
            return SV(TInt, z3.Function("py_hash_str", z3.StringSort(), z3.IntSort())(t))
        if name == "strip" and not args and not kwargs:
            # a token of a whitespace split carries no blanks (the WS_* model): strip() returns it unchanged; other texts: an uninterpreted function
            if z3.is_app(t) and t.decl().kind() == z3.Z3_OP_SELECT and z3.is_app(t.arg(0)) and t.arg(0).decl().name() == WS_ARR.name():
                return SV(TStr, t)
            return SV(TStr, z3.Function("py_str_strip", z3.StringSort(), z3.StringSort())(t))
        raise Unsupported(f"str.{name}")

    def str_split(self, s, args, kwargs, st):
        t = to_term(s)
        if len(args) == 1 and args[0] == "," and not kwargs:
            # comma split: named by ghost functions of the text (tokens contain no comma; empty tokens are possible);
            # the same functions name the result of ",".join(tokens)
            from .values import CSV_LEN, CSV_ARR
            self.assume_here(st, CSV_LEN(t) >= 1)
            return SList(TStr, CSV_LEN(t), CSV_ARR(t))
        if len(args) == 2 and args[1] == 1 and isinstance(args[0], str) and len(args[0]) == 1:
            # s.split(sep, 1): [s] if sep not in s else [before first sep, after it]
            sep = z3.StringVal(args[0])
            i = z3.IndexOf(t, sep, 0)
            has = i >= 0
            first = z3.If(has, z3.SubString(t, 0, i), t)
            rest = z3.SubString(t, i + 1, z3.Length(t) - i - 1)
            arr = z3.Store(z3.Store(z3.K(z3.IntSort(), z3.StringVal("")), 0, first), 1, rest)
            return SList(TStr, z3.If(has, 2, 1), arr)
        raise Unsupported("str.split in this form")

    def list_method(self, L, name, args, kwargs, st, node):
        if name == "copy":
            return list(L) if isinstance(L, list) else L
        if name == "index" and isinstance(L, (list, tuple)) and is_concrete(L) and is_concrete(args[0]):
            if args[0] not in L:
                self.raise_now(st, "ValueError")
                return 0
            return L.index(args[0])
        if name == "count" and isinstance(L, (list, tuple)) and is_concrete(L) and is_concrete(args[0]):
            return L.count(args[0])
        raise Unsupported(f"list.{name} as an expression")

    def set_method(self, S_, name, args, kwargs, st, node):
        if name in ("intersection", "union", "difference", "issubset", "isdisjoint"):
            a = self.as_sset(S_)
            b = self.as_sset(args[0], a.ety)
            x = z3.Const(fresh_name("sx"), sort_of(a.ety))
            if name == "intersection":
                return SSet(a.ety, z3.Lambda([x], z3.And(a.chi[x], b.chi[x])))
            if name == "union":
                return SSet(a.ety, z3.Lambda([x], z3.Or(a.chi[x], b.chi[x])))
            if name == "difference":
                return SSet(a.ety, z3.Lambda([x], z3.And(a.chi[x], z3.Not(b.chi[x]))))
            if name == "isdisjoint":
                return wrap(TBool, z3.ForAll([x], z3.Not(z3.And(a.chi[x], b.chi[x]))))
            if a.elems is not None:
                return wrap(TBool, z3.And(*[z3.simplify(b.chi[e]) for e in a.elems]))
            return wrap(TBool, z3.ForAll([x], z3.Implies(a.chi[x], b.chi[x])))
        if name == "copy":
            return S_
        raise Unsupported(f"set.{name}")

    def as_sset(self, v, ety=None):
        if isinstance(v, SSet):
            return v
        if isinstance(v, frozenset):
            ety = ety or (type_of(next(iter(v))) if v else TInt)
            x = z3.Const(fresh_name("sx"), sort_of(ety))
            return SSet(ety, z3.Lambda([x], z3.Or(*[x == to_term(e) for e in v]) if v else z3.BoolVal(False)))
        if isinstance(v, (list, tuple, SList)):
            return self.bi_set([v], {}, None, None)
        raise Unsupported(f"as_sset({v!r})")

    # ------------------------------------------------------------------ in-place mutation -> new value
    def mutate(self, recv, name, args, kwargs, st, node):
        if isinstance(recv, dict):
            if name == "update":
                d = dict(recv)
                if args:
                    if not isinstance(args[0], dict):
                        raise Unsupported("dict.update(symbolic)")
                    d.update(args[0])
                d.update(kwargs)
                return d
            if name == "setdefault":
                raise Unsupported("dict.setdefault")
            raise Unsupported(f"dict.{name}")
        if isinstance(recv, (frozenset, SSet)):
            if name == "add":
                if isinstance(recv, frozenset) and is_concrete(args[0]):
                    return recv | {args[0]}
                a = self.as_sset(recv, type_of(args[0]))
                x = z3.Const(fresh_name("sx"), sort_of(a.ety))
                return SSet(a.ety, z3.Lambda([x], z3.Or(a.chi[x], x == to_term(args[0]))))
            if name == "update":
                if isinstance(recv, frozenset) and isinstance(args[0], frozenset):
                    return recv | args[0]
                b0 = args[0]
                ety = recv.ety if isinstance(recv, SSet) else (b0.ety if isinstance(b0, (SSet, SList)) else None)
                a = self.as_sset(recv, ety)
                b = self.as_sset(b0, a.ety)
                x = z3.Const(fresh_name("sx"), sort_of(a.ety))
                return SSet(a.ety, z3.Lambda([x], z3.Or(a.chi[x], b.chi[x])))
            raise Unsupported(f"set.{name}")
        if name == "append" and args and isinstance(args[0], SOpt):
            # an optional value appended where the path condition excludes None (e.g. after an isinstance test): append the value itself
            chk_ = z3.Solver()
            chk_.set("timeout", 2000)
            chk_.add(*st.pc)
            chk_.add(args[0].isnone)
            if chk_.check() != z3.unsat:
                raise Unsupported("append of an optional value that may be None")
            args = [args[0].val] + list(args[1:])
        if isinstance(recv, list) and all(not isinstance(a, Sym) or True for a in args):
            if name == "append":
                return recv + [args[0]]
            if name == "extend" and isinstance(args[0], (list, tuple)):
                return recv + list(args[0])
            if name == "insert" and isinstance(args[0], int):
                l2 = list(recv)
                l2.insert(args[0], args[1])
                return l2
            if name == "reverse":
                return list(reversed(recv))
            if name == "clear":
                return []
        if isinstance(recv, (list, SList)):
            hint = None
            if not isinstance(recv, SList) and not recv and args:
                hint = type_of(args[0]) if name == "append" else (args[0].ety if isinstance(args[0], SList) else None)
            L = self.as_slist(recv, hint) if not isinstance(recv, SList) else recv
            j = z3.Int(fresh_name("m"))
            if name == "append":
                if (getattr(self, "net_cover", False) and (L.ety is TNet or isinstance(L.ety, TObj))) or \
                        (getattr(self, "fresh_append", False) and not getattr(self, "net_cover", False)):
                    # fresh list with a ground fact for the new last element and copy axioms triggered from either side
                    R = fresh(TList(L.ety), "app")
                    st.pc = st.pc + (R.n == L.n + 1, R.a[L.n] == to_term(args[0]),
                                     z3.ForAll([j], z3.Implies(z3.And(0 <= j, j < L.n), R.a[j] == L.a[j]), patterns=[L.a[j]]),
                                     z3.ForAll([j], z3.Implies(z3.And(0 <= j, j < L.n), R.a[j] == L.a[j]), patterns=[R.a[j]]))
                    return R
                return SList(L.ety, L.n + 1, z3.Store(L.a, L.n, to_term(args[0])))
            if name == "extend" and isinstance(recv, list) and not recv and isinstance(args[0], SList):
                return args[0]
            if name == "extend":
                R = self.list_concat(L, args[0])
                B = self.as_slist(args[0], L.ety)
                # membership distributes over concatenation (engine lemma, witness forms in pyvc.lemmas.concat_lemmas)
                x = z3.Const(fresh_name("cc_x"), sort_of(L.ety))
                from .spec import mem_term
                st.pc = st.pc + (z3.ForAll([x], mem_term(R, x) == z3.Or(mem_term(L, x), mem_term(B, x))),)
                self.engine_lemmas.add("list.concat/members")
                return R
            if name == "reverse":
                return SList(L.ety, L.n, z3.Lambda([j], L.a[L.n - 1 - j]))
            if name == "insert" and isinstance(args[0], int) and args[0] == 0:
                if L.ety is TNet or isinstance(L.ety, TObj):
                    # fresh list with shift axioms in both directions (triggers on the known side: e-matching finds k+1 / k-1)
                    R = fresh(TList(L.ety), "ins0")
                    st.pc = st.pc + (R.n == L.n + 1, R.a[0] == to_term(args[1]),
                                     z3.ForAll([j], z3.Implies(z3.And(0 <= j, j < L.n), R.a[j + 1] == L.a[j]), patterns=[L.a[j]]),
                                     z3.ForAll([j], z3.Implies(z3.And(1 <= j, j <= L.n), R.a[j] == L.a[j - 1]), patterns=[R.a[j]]))
                    return R
                return SList(L.ety, L.n + 1, z3.Lambda([j], z3.If(j == 0, to_term(args[1]), L.a[j - 1])))
            if name == "sort" and not kwargs:
                return self.sorted_perm(L, st)
            if name == "remove":
                # remove the first occurrence; ValueError when absent
                x = to_term(args[0])
                q = z3.Int(fresh_name("rm_q"))
                from .spec import mem_term as _mt
                present = _mt(L, x)
                self.pending.append((z3.Not(present), "ValueError", None))
                idx = z3.Int(fresh_name("rm_i"))
                st.pc = st.pc + (z3.Implies(present, z3.And(0 <= idx, idx < L.n, L.a[idx] == x,
                                                            z3.ForAll([q], z3.Implies(z3.And(0 <= q, q < idx), L.a[q] != x)))),)
                R = SList(L.ety, L.n - 1, z3.Lambda([j], z3.If(j < idx, L.a[j], L.a[j + 1])))
                if L.ety is TInt:
                    # consequences for strictly ascending lists; proved once as engine lemmas (pyvc.lemmas.REMOVE_*)
                    from .spec import mem_term, asc_term
                    pp = z3.Int(fresh_name("rm_p"))
                    guard = z3.And(present, asc_term(L))
                    st.pc = st.pc + (z3.Implies(guard, asc_term(R)),
                                     z3.ForAll([pp], z3.Implies(guard, mem_term(R, pp) == z3.And(mem_term(L, pp), pp != x))))
                    self.engine_lemmas.add("list.remove/ascending")
                return R
            raise Unsupported(f"list.{name} on symbolic list")
        raise Unsupported(f"mutation {name} on {recv!r}")

    # ------------------------------------------------------------------ IPv4Network model
    def net_attr(self, net, attr, st):
        if attr == "prefixlen":
            return SV(TInt, Net.plen(net.t))
        if attr in ("subnet_of", "supernet", "subnets"):
            return FuncRef(f"method.{attr}", bound_self=net)
        raise Unsupported(f"IPv4Network.{attr}")

    def net_method(self, net, name, args, kwargs, st, node):
        from .spec import NET_SUB
        from .values import NET_IN, NET_SUPER, NET_SUB0, NET_SUB1
        a = z3.BitVec("a!net", BVW)
        if name == "subnet_of":
            o = to_term(args[0])
            if getattr(self, "net_cover", False):
                # a subnet has no address outside its supernet (pyvc.lemmas.net_lemmas: N.sub)
                st.pc = st.pc + (z3.ForAll([a], z3.Implies(z3.And(NET_SUB(net.t, o), NET_IN(a, net.t)), NET_IN(a, o))),)
                self.engine_lemmas.add("net.cover")
            return wrap(TBool, NET_SUB(net.t, o))
        if name == "supernet" and not args and not kwargs:
            s_ = NET_SUPER(net.t)
            # N.super: every address of n is in n.supernet()
            st.pc = st.pc + (z3.ForAll([a], z3.Implies(NET_IN(a, net.t), NET_IN(a, s_))),)
            self.engine_lemmas.add("net.cover")
            return SV(TNet, s_)
        if name == "subnets" and not args and not kwargs:
            # N.split: a network shorter than /32 is the union of its two halves; a /32 yields itself
            h0, h1 = NET_SUB0(net.t), NET_SUB1(net.t)
            short = Net.plen(net.t) < 32
            st.pc = st.pc + (z3.ForAll([a], z3.Implies(short, NET_IN(a, net.t) == z3.Or(NET_IN(a, h0), NET_IN(a, h1)))),
                             z3.Implies(z3.Not(short), z3.And(h0 == net.t, h1 == net.t)))
            self.engine_lemmas.add("net.cover")
            return [SV(TNet, h0), SV(TNet, h1)]
        raise Unsupported(f"IPv4Network.{name}")

    # ------------------------------------------------------------------ itertools / ipaddress models (assumed, audited)
    def ext_itertools_product(self, args, kwargs, st, node):
        if len(args) == 1 and tuple(args[0]) == (0, 1) and "repeat" in kwargs:
            k = to_term(kwargs["repeat"])
            t_, p_ = z3.Int("t!tb"), z3.Int("p!tb")
            st.pc = st.pc + (POW2(k) >= 1, z3.ForAll([t_, p_], z3.Or(TBIT(t_, p_) == 0, TBIT(t_, p_) == 1)))
            j = z3.Int(fresh_name("pj"))
            return Iter(("indexed", POW2(k), lambda t: SList(TInt, k, z3.Lambda([j], TBIT(t, k - 1 - j)))))
        raise Unsupported("itertools.product in this form")

    def construct_IPv4Address(self, args, kwargs, st, node):
        v = args[0]
        if isinstance(v, SV) and v.ty is TStr:
            self.pending.append((z3.Not(IP_OK(v.t)), "AddressValueError", None))
            val = IP_PARSE(v.t)
            self.assume_here(st, z3.ULE(val, 0xFFFFFFFF))
            return SV(TBV, val)
        if isinstance(v, SV) and v.ty is TBV:
            self.pending.append((z3.UGT(v.t, 0xFFFFFFFF), "AddressValueError", None))
            return v
        raise Unsupported("IPv4Address of this argument")

    def construct_IPv4Network(self, args, kwargs, st, node):
        v = args[0]
        if isinstance(v, tuple) and len(v) == 2 and isinstance(v[0], SV) and v[0].ty is TBV:
            addr, plen = v[0].t, to_term(v[1])
            self.pending.append((z3.Or(plen < 0, plen > 32), "NetmaskValueError", None))
            self.pending.append((z3.And(plen >= 0, plen <= 32, z3.UGT(addr, 0xFFFFFFFF)), "AddressValueError", None))
            self.pending.append((z3.And(plen >= 0, plen <= 32, z3.ULE(addr, 0xFFFFFFFF), (addr & ~netmask_of(plen)) != 0), "ValueError", None))
            return SV(TNet, Net.mk_net(addr, plen))
        raise Unsupported("IPv4Network of this argument")

    # ------------------------------------------------------------------ external library calls
    def call_external(self, q, args, kwargs, st, node):
        if q in ("logging.warning", "logging.debug", "logging.info", "logging.error"):
            st.log = st.log + ((q.split(".")[1], args[0] if args else None),)
            if q == "logging.warning" and args and "Log" in C.SCHEMAS:
                # ghost heap: the set of texts mentioned by some warning grows by everything the message text contains
                from . import spec as S_
                msg = args[0]
                texts = [p_ for p_ in (msg.parts if isinstance(msg, Opaque) else [msg]) if isinstance(p_, str) or (isinstance(p_, SV) and p_.ty is TStr)]
                if texts:
                    lobj = S_.log_object()
                    arr = self.heap_array(st, "Log.warned")
                    s_ = z3.String(fresh_name("ls"))
                    new = z3.Lambda([s_], z3.Or(z3.Select(z3.Select(arr, lobj.t), s_), *[z3.Contains(to_term(p_), s_) for p_ in texts]))
                    self.check_frame(st, "Log.warned")
                    st.heap["Log.warned"] = z3.Store(arr, lobj.t, new)
            return None
        h = getattr(self, "ext_" + q.replace(".", "_"), None)
        if h is not None:
            return h(args, kwargs, st, node)
        con = C.get(q)
        if con is not None:
            fake = ast.parse("def f(" + ", ".join(con.params) + "): pass").body[0]
            return self.apply_contract(con, fake, args, kwargs, st, node)
        raise Unsupported(f"external call {q}")
