"""pyvc - a small verification-condition generator for the Python subset used by cisco_acl's kernels."""
from .engine import Engine
from .expr import ExprMixin, CompMixin
from .stmt import StmtMixin
from .calls import CallMixin
from .builtins_ import BuiltinMixin


class VC(ExprMixin, CompMixin, StmtMixin, CallMixin, BuiltinMixin, Engine):
    pass
