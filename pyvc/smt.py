"""pyvc.smt - discharge obligations on a fork pool: z3 first, cvc5 for z3's unknowns."""
from __future__ import annotations

import multiprocessing as mp
import os
import subprocess
import tempfile
import time

import z3

_OBS = []          # inherited by forked workers
_CFG = {}


def _model_value(m, t):
    try:
        v = m.eval(t, model_completion=True)
        if z3.is_int_value(v):
            return v.as_long()
        if z3.is_true(v):
            return True
        if z3.is_false(v):
            return False
        if z3.is_string_value(v):
            return v.as_string()
        if z3.is_bv_value(v):
            return v.as_long()
        return str(v)
    except Exception as ex:   # pragma: no cover
        return f"<{ex}>"


def _cvc5(smt2: str, timeout_s: float):
    exe = "/usr/bin/cvc5"
    if not os.path.exists(exe):
        return "unknown", "cvc5 binary absent"
    with tempfile.NamedTemporaryFile("w", suffix=".smt2", delete=False) as fh:
        fh.write("(set-logic ALL)\n" + smt2)
        path = fh.name
    try:
        r = subprocess.run([exe, "--strings-exp", f"--tlimit={int(timeout_s * 1000)}", path],
                           capture_output=True, text=True, timeout=timeout_s + 5)
        out = (r.stdout or "").strip().splitlines()
        res = out[0] if out else "unknown"
        if res not in ("sat", "unsat"):
            res = "unknown"
        return res, (r.stderr or "")[:200]
    except Exception as ex:
        return "unknown", str(ex)[:200]
    finally:
        os.unlink(path)


def _ground_int_terms(exprs, limit=400):
    """ground (variable-free) Int-sorted subterms, smallest first"""
    seen, out = set(), []

    def walk(e, depth_bound):
        if e.get_id() in seen:
            return
        seen.add(e.get_id())
        if z3.is_quantifier(e):
            walk(e.body(), True)
            return
        for c in e.children():
            walk(c, depth_bound)
        if z3.is_int(e) and not _has_var(e) and len(out) < limit:
            out.append(e)
    for e in exprs:
        walk(e, False)
    return out


def _has_var(e):
    if z3.is_var(e):
        return True
    return any(_has_var(c) for c in e.children())


def _size(e):
    return 1 + sum(_size(c) for c in e.children())


def instantiate_hints(hyps, neg_goal, rounds=2, wide=True):
    """Sound strengthening of a query that came back unknown: skolemise the negated goal and add instances of the
    one-variable universally quantified hypotheses at terms built from the skolem constants (t, t-1, t+1, t-c, c-t-1, ...);
    a second round also uses the uninterpreted-function terms that the first round produced (witness chains)."""
    # skolemise only the leading universal quantifiers of the goal (inner quantified sub-formulas stay intact, so that
    # instances of hypotheses that mention the same sub-formulas match them syntactically)
    goal = neg_goal.arg(0) if z3.is_not(neg_goal) else None
    own = []
    if goal is not None:
        while z3.is_quantifier(goal) and goal.is_forall():
            vs = [z3.Const(f"sk!{goal.var_name(i)}!{goal.get_id()}", goal.var_sort(i)) for i in range(goal.num_vars())]
            own += [v for v in vs if v.sort() == z3.IntSort()]
            goal = z3.substitute_vars(goal.body(), *reversed(vs))
        sk_fmls = [z3.Not(goal)]
    else:
        sk_fmls = [neg_goal]
    flat = []

    def flatten(h):
        if z3.is_and(h):
            for c in h.children():
                flatten(c)
        else:
            flat.append(h)
    for h in list(hyps) + sk_fmls:
        flatten(h)
    quants = [h for h in flat
              if z3.is_quantifier(h) and h.is_forall() and h.num_vars() == 1 and h.var_sort(0) == z3.IntSort()]
    consts = own[:4] or [t for t in _ground_int_terms(sk_fmls) if z3.is_const(t) and t.decl().kind() == z3.Z3_OP_UNINTERPRETED][:4]
    base = [t for t in _ground_int_terms(list(hyps) + sk_fmls) if _size(t) <= 4][:25]
    extra = []
    seen = set()
    seeds = list(consts)
    for rnd in range(rounds):
        cands = []
        for c in seeds:
            cands += [c, c - 1, c + 1]
            for b_ in base:
                if not z3.eq(b_, c):
                    cands += [c - b_, c - b_ - 1, c - b_ + 1, c + b_]
                    if wide:
                        cands += [b_ - c, b_ - c - 1]
        cands = cands[:220 if wide else 160]
        new = []
        for h in quants:
            for t in cands:
                inst = z3.substitute_vars(h.body(), t)
                if inst.get_id() not in seen:
                    seen.add(inst.get_id())
                    new.append(inst)
        extra += new
        if rnd + 1 < rounds:
            # terms f(...) over the skolem constants that appeared in the new instances
            seeds = []
            for t in _ground_int_terms(new, limit=2000):
                if z3.is_app(t) and t.num_args() >= 1 and t.decl().kind() == z3.Z3_OP_UNINTERPRETED and _size(t) <= 4 \
                        and any(any(z3.eq(c, x) for c in consts) for x in _subterms(t)):
                    seeds.append(t)
            seeds = seeds[:6]
            if not seeds:
                break
    # one-variable universal hypotheses over other sorts (texts, addresses, networks): instances at the closed terms of
    # that sort which occur in the skolemised goal
    others = [h for h in flat if z3.is_quantifier(h) and h.is_forall() and h.num_vars() == 1 and h.var_sort(0) != z3.IntSort()]
    if others:
        by_sort = {}
        for t in _closed_terms(sk_fmls):
            by_sort.setdefault(t.sort().name() + str(t.sort()), []).append(t)
        for h in others:
            key = h.var_sort(0).name() + str(h.var_sort(0))
            for t in by_sort.get(key, [])[:10]:
                inst = z3.substitute_vars(h.body(), t)
                if inst.get_id() not in seen:
                    seen.add(inst.get_id())
                    extra.append(inst)
    return sk_fmls, extra


def _closed_terms(fmls, limit=400):
    """closed (no bound variable), non-Boolean, non-Int application subterms of small size, each once"""
    out, seen, todo = [], set(), list(fmls)
    while todo and len(out) < limit:
        x = todo.pop()
        xi = x.get_id()
        if xi in seen:
            continue
        seen.add(xi)
        if z3.is_quantifier(x):
            todo.append(x.body())
            continue
        if z3.is_app(x):
            if x.sort() != z3.BoolSort() and x.sort() != z3.IntSort() and not _free_var(x) and _size(x) <= 6 \
                    and x.sort().kind() != z3.Z3_ARRAY_SORT:
                out.append(x)
            todo.extend(x.children())
    return out


def _subterms(e):
    yield e
    for c in e.children():
        yield from _subterms(c)


def _free_var(e, depth=0):
    if z3.is_var(e):
        return z3.get_var_index(e) >= depth
    if z3.is_quantifier(e):
        return _free_var(e.body(), depth + e.num_vars())
    return any(_free_var(c, depth) for c in e.children())


def abstract_closed_quantifiers(fmls):
    """name every closed quantified sub-formula that occurs *inside* another formula by a Boolean constant (b == Q is added
    once), so that identical sub-formulas in hypotheses, instances and goal are the same propositional atom"""
    names = {}
    defs = []
    cache = {}

    def walk(e, top):
        key = (e.get_id(), top)
        if key in cache:
            return cache[key]
        if z3.is_quantifier(e):
            if not top and not _free_var(e):
                if e.get_id() not in names:
                    b = z3.Bool(f"qa!{len(names)}")
                    names[e.get_id()] = b
                    defs.append(b == e)
                r = names[e.get_id()]
            else:
                r = e
            cache[key] = r
            return r
        if not z3.is_app(e) or e.num_args() == 0:
            cache[key] = e
            return e
        kids = [walk(c, False) for c in e.children()]
        r = e if all(k.get_id() == c.get_id() for k, c in zip(kids, e.children())) else e.decl()(*kids)
        cache[key] = r
        return r
    out = [walk(f, True) for f in fmls]
    return out + defs


def _check(hyps, extra, timeout_s, opts=None):
    """one solver run; z3's own timeout is backed by a watchdog thread that interrupts the context (the sequence solver is
    known to ignore `timeout`; without this one hanging stage would eat the whole budget of the portfolio)"""
    import threading
    s = z3.Solver()
    s.set("timeout", int(timeout_s * 1000))
    for k, v in (opts or {}).items():
        s.set(k, v)
    s.add(*hyps)
    s.add(*extra)
    timer = threading.Timer(timeout_s + 1.0, s.ctx.interrupt)
    timer.daemon = True
    timer.start()
    try:
        r = s.check()
    except z3.Z3Exception:
        r = z3.unknown
    finally:
        timer.cancel()
    return s, r


NOMBQI = {"smt.mbqi": False}


def _has_quantifier(t):
    seen, todo = set(), [t]
    while todo:
        x = todo.pop()
        if x.get_id() in seen:
            continue
        seen.add(x.get_id())
        if z3.is_quantifier(x):
            return True
        todo.extend(x.children())
    return False


def _alpha_eq(a, b):
    """structural equality of two terms up to the names of bound variables (z3 bodies use de Bruijn indices)"""
    if z3.is_quantifier(a) or z3.is_quantifier(b):
        if not (z3.is_quantifier(a) and z3.is_quantifier(b)):
            return False
        if a.is_forall() != b.is_forall() or a.is_lambda() != b.is_lambda() or a.num_vars() != b.num_vars():
            return False
        if any(a.var_sort(k) != b.var_sort(k) for k in range(a.num_vars())):
            return False
        return _alpha_eq(a.body(), b.body())
    if z3.is_var(a) or z3.is_var(b):
        return z3.is_var(a) and z3.is_var(b) and z3.get_var_index(a) == z3.get_var_index(b) and a.sort() == b.sort()
    if not (z3.is_app(a) and z3.is_app(b)):
        return False
    if a.num_args() != b.num_args() or not z3.eq(a.decl(), b.decl()):
        return False
    if a.num_args() == 0:
        return z3.eq(a, b)
    return all(_alpha_eq(x, y) for x, y in zip(a.children(), b.children()))


def _symbols(t, cache):
    """names of the uninterpreted symbols of a term"""
    k = t.get_id()
    if k in cache:
        return cache[k]
    out, seen, todo = set(), set(), [t]
    while todo:
        x = todo.pop()
        xi = x.get_id()
        if xi in seen:
            continue
        seen.add(xi)
        if z3.is_quantifier(x):
            todo.append(x.body())
            continue
        if z3.is_app(x):
            d = x.decl()
            if d.kind() == z3.Z3_OP_UNINTERPRETED:
                out.add(d.name())
            todo.extend(x.children())
    cache[k] = out
    return out


def relevant_hyps(hyps, goal, k):
    """the k hypotheses that share the rarest symbols with the goal (score: sum of 1/frequency over shared symbols),
    closed once under the symbols they bring in, plus all quantifier-free ones that share a symbol"""
    cache = {}
    hs = [h for h in hyps if z3.is_expr(h)]
    syms = [_symbols(h, cache) for h in hs]
    freq = {}
    for ss in syms:
        for x in ss:
            freq[x] = freq.get(x, 0) + 1
    g = set(_symbols(goal, cache))

    def score(ss, base):
        return sum(1.0 / freq[x] for x in ss & base)
    order = sorted(range(len(hs)), key=lambda j: -score(syms[j], g))
    pick = [j for j in order[:k] if score(syms[j], g) > 0]
    base2 = set(g)
    for j in pick:
        base2 |= syms[j]
    rest = [j for j in order if j not in pick and score(syms[j], base2) > 0]
    pick += rest[:k]
    pick_set = set(pick)
    return [hs[j] for j in range(len(hs)) if j in pick_set]


def _solve(i):
    """portfolio: several cheap configurations with a short budget each (measured: every obligation of this project that is
    provable at all is proved in < 1 s by at least one of them), then the long runs; `unsat` from any configuration counts
    (added instances of hypotheses are sound), `sat` only from the plain query"""
    ob = _OBS[i]
    timeout_s = _CFG.get("timeout_s", 10)
    t0 = time.time()
    res, solver, model, reason = "UNKNOWN", "z3", {}, ""
    if ob.expect == "sat":
        extra = [] if z3.is_false(ob.goal) else [ob.goal]
        s, r = _check(ob.hyps, extra, min(timeout_s, 3))
        res = "VACUOUS" if r == z3.unsat else ("PROVED" if r == z3.sat else "COVER-UNKNOWN")
        why = "" if r != z3.unknown else s.reason_unknown()
        if r == z3.unknown:
            # satisfiability with quantified axioms is out of reach: repeat without the quantified hypotheses (assumed laws
            # with obvious models); recorded in the solver column
            s2, r2 = _check([h for h in ob.hyps if not _has_quantifier(h)], extra, min(timeout_s, 3))
            if r2 == z3.sat:
                res, solver, why = "PROVED", "z3 (quantified axioms left out of the vacuity check)", ""
        return i, res, solver, time.time() - t0, model, why
    if any(z3.eq(ob.goal, h) for h in ob.hyps):
        return i, "PROVED", "syntactic (goal is a hypothesis)", time.time() - t0, model, reason
    try:
        # the same after simplification (select-over-store, double negation ..) and up to the names of bound variables: a callee's
        # postcondition restated as the caller's own is proved here, without waking up the string solver
        gs = z3.simplify(ob.goal)
        if any(_alpha_eq(gs, z3.simplify(h)) for h in ob.hyps if z3.is_expr(h)):
            return i, "PROVED", "syntactic (goal is a hypothesis up to simplification and bound names)", time.time() - t0, model, reason
    except z3.Z3Exception:
        pass
    neg = z3.Not(ob.goal)
    short = min(timeout_s, 4)
    nh0 = getattr(ob, "n_hints", 0)
    if nh0:
        # a clause that comes with proved hints: the hints alone usually carry the proof (milliseconds)
        try:
            hs0 = list(ob.hyps[-nh0:])
            s0, r0 = _check(hs0, [neg], 1)
            if r0 == z3.unsat:
                return i, "PROVED", f"z3(hints + 0 of {len(ob.hyps) - nh0} hypotheses)", time.time() - t0, model, reason
            sk0, extra0 = instantiate_hints(hs0, neg, rounds=1, wide=False)
            s0, r0 = _check(abstract_closed_quantifiers(hs0 + list(sk0) + extra0), [], 1, NOMBQI)
            if r0 == z3.unsat:
                return i, "PROVED", f"z3+hints(hints + 0 of {len(ob.hyps) - nh0} hypotheses)", time.time() - t0, model, reason
        except Exception as ex:  # pragma: no cover
            reason += f" | hints-first: {ex}"
    first = min(short, 3)      # almost everything provable by the plain query is proved within a second; the filtered stages come next
    s, r = _check(ob.hyps, [neg], first)
    if r == z3.unknown:
        reason = s.reason_unknown()
        s1, r1 = _check(ob.hyps, [neg], first, NOMBQI)
        if r1 == z3.unsat:
            return i, "PROVED", "z3(e-matching)", time.time() - t0, model, reason
        # relevance filter: fewer hypotheses is sound; irrelevant quantified hypotheses are what drowns the solver
        try:
            nh = getattr(ob, "n_hints", 0)
            if nh:
                # the contract's own hints are the intended proof: try them alone, then with the most relevant other hypotheses
                hs_ = list(ob.hyps[-nh:])
                for more in (0, 4, 8, 12):
                    sel = hs_ + (relevant_hyps(ob.hyps[:-nh], ob.goal, more) if more else [])
                    # (z3's verdict on these quantified queries depends on internal term order: a second random seed is a cheap retry)
                    for opts in (None, NOMBQI, {"smt.mbqi": False, "smt.random_seed": 7, "sat.random_seed": 7}):
                        s3, r3 = _check(sel, [neg], min(short, 2), opts)
                        if r3 == z3.unsat:
                            return i, "PROVED", f"z3(hints + {len(sel) - nh} of {len(ob.hyps) - nh} hypotheses)", time.time() - t0, model, reason
                    sk, extra = instantiate_hints(sel, neg, rounds=1, wide=False)
                    s3, r3 = _check(abstract_closed_quantifiers(list(sel) + list(sk) + extra), [], min(short, 2), NOMBQI)
                    if r3 == z3.unsat:
                        return i, "PROVED", f"z3+hints(hints + {len(sel) - nh} of {len(ob.hyps) - nh} hypotheses)", time.time() - t0, model, reason
            for k_ in (4, 8, 16):
                sel = relevant_hyps(ob.hyps, ob.goal, k_)
                if len(sel) > 0.7 * len(ob.hyps):
                    break
                for opts in (None, NOMBQI):
                    s3, r3 = _check(sel, [neg], min(short, 3), opts)
                    if r3 == z3.unsat:
                        return i, "PROVED", f"z3(relevant hypotheses: {len(sel)} of {len(ob.hyps)})", time.time() - t0, model, reason
            # the same subsets with the goal skolemised and the one-variable hypotheses instantiated at the skolem terms
            for k_ in (6, 12):
                sel = relevant_hyps(ob.hyps, ob.goal, k_)
                if len(sel) > 0.7 * len(ob.hyps):
                    break
                sk, extra = instantiate_hints(sel, neg, rounds=1, wide=False)
                for opts in (NOMBQI, None):
                    s3, r3 = _check(abstract_closed_quantifiers(list(sel) + list(sk) + extra), [], min(short, 3), opts)
                    if r3 == z3.unsat:
                        return i, "PROVED", f"z3+hints(relevant hypotheses: {len(sel)} of {len(ob.hyps)})", time.time() - t0, model, reason
        except Exception as ex:  # pragma: no cover
            reason += f" | relevance: {ex}"
        hints = {}
        for tag, rounds, wide, opts in (("z3+hints(e-matching)", 1, False, NOMBQI), ("z3+hints", 1, False, None),
                                        ("z3+hints2(e-matching)", 2, True, NOMBQI), ("z3+hints2", 2, True, None)):
            try:
                if (rounds, wide) not in hints:
                    hints[(rounds, wide)] = instantiate_hints(ob.hyps, neg, rounds=rounds, wide=wide)
                sk, extra = hints[(rounds, wide)]
                s2, r2 = _check(abstract_closed_quantifiers(list(ob.hyps) + list(sk) + extra), [], short, opts)
                if r2 == z3.unsat:
                    return i, "PROVED", tag, time.time() - t0, model, reason
            except Exception as ex:  # pragma: no cover
                reason += f" | hints: {ex}"
        # long runs
        if timeout_s > short:
            s, r = _check(ob.hyps, [neg], timeout_s)
            if r == z3.unknown:
                s1, r1 = _check(ob.hyps, [neg], timeout_s, NOMBQI)
                if r1 == z3.unsat:
                    return i, "PROVED", "z3(e-matching)", time.time() - t0, model, reason
    if r == z3.unsat:
        res = "PROVED"
    elif r == z3.sat:
        m = s.model()
        model = {k: _model_value(m, t) for k, t in ob.probes.items()}
        res = "REFUTED"
    else:
        reason = s.reason_unknown()
        if _CFG.get("cvc5", True):
            try:
                r2, err = _cvc5(s.to_smt2(), timeout_s)
            except Exception as ex:  # pragma: no cover
                r2, err = "unknown", str(ex)
            if r2 == "unsat":
                res, solver = "PROVED", "cvc5"
            elif r2 == "sat":
                res, solver = "REFUTED", "cvc5"
            else:
                reason += " | cvc5: " + err
    return i, res, solver, time.time() - t0, model, reason


def _fresh_context_proof(ob, timeout_s):
    """the plain query in a context of its own (terms translated, so their numbering - which z3's instantiation order follows - does not depend on how many
    other obligations the parent process built before): `unsat` is a proof like any other; anything else is ignored"""
    ctx = z3.Context()
    fmls = [h.translate(ctx) for h in ob.hyps if z3.is_expr(h)] + [z3.Not(ob.goal).translate(ctx)]
    for opts in (None, NOMBQI):
        s = z3.Solver(ctx=ctx)
        s.set("timeout", int(timeout_s * 1000))
        for k, v in (opts or {}).items():
            s.set(k, v)
        s.add(*fmls)
        import threading
        timer = threading.Timer(timeout_s + 1.0, ctx.interrupt)
        timer.daemon = True
        timer.start()
        try:
            r = s.check()
        except z3.Z3Exception:
            r = z3.unknown
        finally:
            timer.cancel()
        if r == z3.unsat:
            return True
    return False


def _child(i, conn):
    try:
        if _CFG.get("attempt") == 2:
            t0 = time.time()
            ob = _OBS[i]
            if ob.expect != "sat" and _fresh_context_proof(ob, min(_CFG.get("timeout_s", 10), 15)):
                conn.send((i, "PROVED", "z3(retry in a fresh context)", time.time() - t0, {}, ""))
                return
            z3.set_param("smt.random_seed", 11)      # the retry explores another search order
            z3.set_param("sat.random_seed", 11)
        conn.send(_solve(i))
    except Exception as ex:   # pragma: no cover
        conn.send((i, "UNKNOWN", "z3", 0.0, {}, f"solver process failed: {type(ex).__name__}: {ex}"))
    finally:
        conn.close()


def discharge(obligations, timeout_s=10, jobs=None, use_cvc5=True):
    """solve all obligations, one forked process each (at most `jobs` at a time); a process that outlives the hard
    deadline (z3's string solver does not always honour its timeout) is killed and its obligation stays UNKNOWN"""
    global _OBS, _CFG
    _OBS = list(obligations)
    _CFG = {"timeout_s": timeout_s, "cvc5": use_cvc5}
    jobs = jobs or min(16, os.cpu_count() or 4)
    if not _OBS:
        return
    ctx = mp.get_context("fork")
    hard = 6 * 4 + 3 * timeout_s + 20          # all stages of _solve plus slack
    pending = list(range(len(_OBS)))
    _run_pool(ctx, pending, jobs, hard)
    # second attempt for the few obligations that ran out of time: z3's search is not deterministic across processes, and a verdict
    # must not flip because the machine was busy (a retry can only turn UNKNOWN into a verdict, never the other way round)
    again = [i for i, ob in enumerate(_OBS) if ob.result == "UNKNOWN" and "died" not in (ob.note or "")]
    if 0 < len(again) <= 6:
        for i in again:
            _OBS[i].note = (_OBS[i].note + " | " if _OBS[i].note else "") + "retried"
        _CFG["attempt"] = 2
        _run_pool(ctx, again, jobs, hard)
        _CFG["attempt"] = 1


def _run_pool(ctx, pending, jobs, hard):
    pending = list(pending)
    running = {}                                # index -> (process, conn, started)

    def finish(i, res, solver, secs, model, reason):
        ob = _OBS[i]
        ob.result, ob.solver, ob.seconds, ob.model = res, solver, round(secs, 3), model
        if reason:
            ob.note = (ob.note + " | " if ob.note else "") + reason

    while pending or running:
        while pending and len(running) < jobs:
            i = pending.pop(0)
            parent, child = ctx.Pipe(duplex=False)
            pr = ctx.Process(target=_child, args=(i, child))
            pr.start()
            child.close()
            running[i] = (pr, parent, time.time())
        done = []
        for i, (pr, conn, t0) in running.items():
            if conn.poll(0):
                try:
                    finish(*conn.recv())
                except EOFError:
                    finish(i, "UNKNOWN", "z3", time.time() - t0, {}, "solver process died")
                pr.join()
                done.append(i)
            elif not pr.is_alive():
                finish(i, "UNKNOWN", "z3", time.time() - t0, {}, "solver process died")
                done.append(i)
            elif time.time() - t0 > hard:
                pr.kill()
                pr.join()
                finish(i, "UNKNOWN", "z3", time.time() - t0, {}, f"solver ignored its timeout; killed after {hard:.0f}s")
                done.append(i)
        for i in done:
            running.pop(i)
        if not done:
            time.sleep(0.01)
