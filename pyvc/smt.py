"""pyvc.smt - discharge obligations on a fork pool: z3 first, cvc5 for z3's unknowns."""
from __future__ import annotations

import multiprocessing as mp
import os
import subprocess
import tempfile
import time

import z3

_OBS = []          # inherited by forked workers
_CFG = {}


def _model_value(m, t):
    try:
        v = m.eval(t, model_completion=True)
        if z3.is_int_value(v):
            return v.as_long()
        if z3.is_true(v):
            return True
        if z3.is_false(v):
            return False
        if z3.is_string_value(v):
            return v.as_string()
        if z3.is_bv_value(v):
            return v.as_long()
        return str(v)
    except Exception as ex:   # pragma: no cover
        return f"<{ex}>"


def _cvc5(smt2: str, timeout_s: float):
    exe = "/usr/bin/cvc5"
    if not os.path.exists(exe):
        return "unknown", "cvc5 binary absent"
    with tempfile.NamedTemporaryFile("w", suffix=".smt2", delete=False) as fh:
        fh.write("(set-logic ALL)\n" + smt2)
        path = fh.name
    try:
        r = subprocess.run([exe, "--strings-exp", f"--tlimit={int(timeout_s * 1000)}", path],
                           capture_output=True, text=True, timeout=timeout_s + 5)
        out = (r.stdout or "").strip().splitlines()
        res = out[0] if out else "unknown"
        if res not in ("sat", "unsat"):
            res = "unknown"
        return res, (r.stderr or "")[:200]
    except Exception as ex:
        return "unknown", str(ex)[:200]
    finally:
        os.unlink(path)


def _ground_int_terms(exprs, limit=400):
    """ground (variable-free) Int-sorted subterms, smallest first"""
    seen, out = set(), []

    def walk(e, depth_bound):
        if e.get_id() in seen:
            return
        seen.add(e.get_id())
        if z3.is_quantifier(e):
            walk(e.body(), True)
            return
        for c in e.children():
            walk(c, depth_bound)
        if z3.is_int(e) and not _has_var(e) and len(out) < limit:
            out.append(e)
    for e in exprs:
        walk(e, False)
    return out


def _has_var(e):
    if z3.is_var(e):
        return True
    return any(_has_var(c) for c in e.children())


def _size(e):
    return 1 + sum(_size(c) for c in e.children())


def instantiate_hints(hyps, neg_goal):
    """Sound strengthening of a query that came back unknown: skolemise the negated goal and add instances of the
    one-variable universally quantified hypotheses at terms built from the skolem constants (t, t-1, t+1, t-c, t+c-...)."""
    g = z3.Goal()
    g.add(neg_goal)
    sk = z3.Tactic("snf")(g)[0]
    sk_fmls = [sk[i] for i in range(len(sk))]
    consts = [t for t in _ground_int_terms(sk_fmls) if z3.is_const(t) and t.decl().kind() == z3.Z3_OP_UNINTERPRETED]
    base = [t for t in _ground_int_terms(list(hyps) + sk_fmls) if _size(t) <= 4][:25]
    cands = []
    for c in consts[:4]:
        cands += [c, c - 1, c + 1]
        for b in base:
            if not z3.eq(b, c):
                cands += [c - b, c - b - 1, c - b + 1, c + b]
    cands = cands[:160]
    extra = []
    for h in list(hyps) + sk_fmls:
        if z3.is_quantifier(h) and h.is_forall() and h.num_vars() == 1 and h.var_sort(0) == z3.IntSort():
            for t in cands:
                extra.append(z3.substitute_vars(h.body(), t))
    return sk_fmls, extra


def _check(hyps, extra, timeout_s):
    s = z3.Solver()
    s.set("timeout", int(timeout_s * 1000))
    s.add(*hyps)
    s.add(*extra)
    return s, s.check()


def _solve(i):
    ob = _OBS[i]
    timeout_s = _CFG.get("timeout_s", 10)
    t0 = time.time()
    res, solver, model, reason = "UNKNOWN", "z3", {}, ""
    if ob.expect == "sat":
        extra = [] if z3.is_false(ob.goal) else [ob.goal]
        s, r = _check(ob.hyps, extra, min(timeout_s, 3))
        res = "VACUOUS" if r == z3.unsat else ("PROVED" if r == z3.sat else "COVER-UNKNOWN")
        return i, res, solver, time.time() - t0, model, ("" if r != z3.unknown else s.reason_unknown())
    neg = z3.Not(ob.goal)
    # stage 1: plain z3, short budget
    s, r = _check(ob.hyps, [neg], min(timeout_s, 4))
    if r == z3.unknown:
        reason = s.reason_unknown()
        # stage 2: sound instantiation hints (only ever turns unknown into unsat)
        try:
            sk, extra = instantiate_hints(ob.hyps, neg)
            s2, r2 = _check(ob.hyps, list(sk) + extra, timeout_s)
            if r2 == z3.unsat:
                return i, "PROVED", "z3+hints", time.time() - t0, model, reason
        except Exception as ex:  # pragma: no cover
            reason += f" | hints: {ex}"
        # stage 3: plain z3, full budget
        if timeout_s > 4:
            s, r = _check(ob.hyps, [neg], timeout_s)
    if r == z3.unsat:
        res = "PROVED"
    elif r == z3.sat:
        m = s.model()
        model = {k: _model_value(m, t) for k, t in ob.probes.items()}
        res = "REFUTED"
    else:
        reason = s.reason_unknown()
        if _CFG.get("cvc5", True):
            try:
                r2, err = _cvc5(s.to_smt2(), timeout_s)
            except Exception as ex:  # pragma: no cover
                r2, err = "unknown", str(ex)
            if r2 == "unsat":
                res, solver = "PROVED", "cvc5"
            elif r2 == "sat":
                res, solver = "REFUTED", "cvc5"
            else:
                reason += " | cvc5: " + err
    return i, res, solver, time.time() - t0, model, reason


def discharge(obligations, timeout_s=10, jobs=None, use_cvc5=True):
    """solve all obligations; fills .result/.solver/.seconds/.model in place"""
    global _OBS, _CFG
    _OBS = list(obligations)
    _CFG = {"timeout_s": timeout_s, "cvc5": use_cvc5}
    jobs = jobs or min(16, os.cpu_count() or 4)
    if not _OBS:
        return
    ctx = mp.get_context("fork")
    with ctx.Pool(min(jobs, len(_OBS))) as pool:
        for i, res, solver, secs, model, reason in pool.imap_unordered(_solve, range(len(_OBS)), chunksize=1):
            ob = _OBS[i]
            ob.result, ob.solver, ob.seconds, ob.model = res, solver, round(secs, 3), model
            if reason:
                ob.note = (ob.note + " | " if ob.note else "") + reason
