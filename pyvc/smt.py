"""pyvc.smt - discharge obligations on a fork pool: z3 first, cvc5 for z3's unknowns."""
from __future__ import annotations

import multiprocessing as mp
import os
import subprocess
import tempfile
import time

import z3

_OBS = []          # inherited by forked workers
_CFG = {}


def _model_value(m, t):
    try:
        v = m.eval(t, model_completion=True)
        if z3.is_int_value(v):
            return v.as_long()
        if z3.is_true(v):
            return True
        if z3.is_false(v):
            return False
        if z3.is_string_value(v):
            return v.as_string()
        if z3.is_bv_value(v):
            return v.as_long()
        return str(v)
    except Exception as ex:   # pragma: no cover
        return f"<{ex}>"


def _cvc5(smt2: str, timeout_s: float):
    exe = "/usr/bin/cvc5"
    if not os.path.exists(exe):
        return "unknown", "cvc5 binary absent"
    with tempfile.NamedTemporaryFile("w", suffix=".smt2", delete=False) as fh:
        fh.write("(set-logic ALL)\n" + smt2)
        path = fh.name
    try:
        r = subprocess.run([exe, "--strings-exp", f"--tlimit={int(timeout_s * 1000)}", path],
                           capture_output=True, text=True, timeout=timeout_s + 5)
        out = (r.stdout or "").strip().splitlines()
        res = out[0] if out else "unknown"
        if res not in ("sat", "unsat"):
            res = "unknown"
        return res, (r.stderr or "")[:200]
    except Exception as ex:
        return "unknown", str(ex)[:200]
    finally:
        os.unlink(path)


def _solve(i):
    ob = _OBS[i]
    timeout_s = _CFG.get("timeout_s", 10)
    if ob.expect == "sat":
        timeout_s = min(timeout_s, 3)
    t0 = time.time()
    s = z3.Solver()
    s.set("timeout", int(timeout_s * 1000))
    s.add(*ob.hyps)
    if ob.expect == "unsat":
        s.add(z3.Not(ob.goal))
    else:
        s.add(ob.goal) if not z3.is_false(ob.goal) else None
    r = s.check()
    res, solver, model, reason = "UNKNOWN", "z3", {}, ""
    if r == z3.unsat:
        res = "PROVED" if ob.expect == "unsat" else "VACUOUS"
    elif r == z3.sat:
        m = s.model()
        model = {k: _model_value(m, t) for k, t in ob.probes.items()}
        res = "REFUTED" if ob.expect == "unsat" else "PROVED"
    else:
        reason = s.reason_unknown()
        if ob.expect == "sat":
            res = "COVER-UNKNOWN"
        elif _CFG.get("cvc5", True):
            try:
                smt2 = s.to_smt2()
                r2, err = _cvc5(smt2, timeout_s)
            except Exception as ex:  # pragma: no cover
                r2, err = "unknown", str(ex)
            if r2 == "unsat":
                res, solver = ("PROVED" if ob.expect == "unsat" else "VACUOUS"), "cvc5"
            elif r2 == "sat":
                res, solver = ("REFUTED" if ob.expect == "unsat" else "PROVED"), "cvc5"
            else:
                reason += " | cvc5: " + err
    return i, res, solver, time.time() - t0, model, reason


def discharge(obligations, timeout_s=10, jobs=None, use_cvc5=True):
    """solve all obligations; fills .result/.solver/.seconds/.model in place"""
    global _OBS, _CFG
    _OBS = list(obligations)
    _CFG = {"timeout_s": timeout_s, "cvc5": use_cvc5}
    jobs = jobs or min(16, os.cpu_count() or 4)
    if not _OBS:
        return
    ctx = mp.get_context("fork")
    with ctx.Pool(min(jobs, len(_OBS))) as pool:
        for i, res, solver, secs, model, reason in pool.imap_unordered(_solve, range(len(_OBS)), chunksize=1):
            ob = _OBS[i]
            ob.result, ob.solver, ob.seconds, ob.model = res, solver, round(secs, 3), model
            if reason:
                ob.note = (ob.note + " | " if ob.note else "") + reason
