"""pyvc.spec - the specification vocabulary of the contracts (polymorphic: symbolic -> z3 terms, concrete -> Python).

Engine values: Python scalars / SV / SList / SSet / SOpt.  Native values (replay, monitors): plain Python data,
ipaddress.IPv4Network for nets, real objects for references.
"""
from __future__ import annotations

import ipaddress
import z3

from .values import (SV, SList, SSet, SOpt, Sym, TInt, TBool, TStr, TNet, TObj, Net, to_term, wrap, fresh_name,
                     Unsupported, list_from_concrete)


def _sym(*xs):
    return any(isinstance(x, Sym) or z3.is_expr(x) for x in xs)


def _b(x):
    """bool-ish value -> z3 Bool / python bool"""
    if isinstance(x, SV):
        return x.t
    return x


def _t(x):
    if isinstance(x, SV):
        return x.t
    if isinstance(x, bool):
        return z3.BoolVal(x)
    if isinstance(x, int):
        return z3.IntVal(x)
    if isinstance(x, str):
        return z3.StringVal(x)
    return x


def And(*xs):
    xs = [_b(x) for x in xs]
    if _sym(*xs):
        return z3.And(*[_t(x) for x in xs])
    return all(xs)


def Or(*xs):
    xs = [_b(x) for x in xs]
    if _sym(*xs):
        return z3.Or(*[_t(x) for x in xs])
    return any(xs)


def Not(x):
    x = _b(x)
    if _sym(x):
        return z3.Not(x)
    return not x


def Implies(a, b):
    a, b = _b(a), _b(b)
    if _sym(a, b):
        return z3.Implies(_t(a), _t(b))
    return (not a) or b


def Iff(a, b):
    a, b = _b(a), _b(b)
    if _sym(a, b):
        return _t(a) == _t(b)
    return bool(a) == bool(b)


def Ite(c, a, b):
    c = _b(c)
    if _sym(c, a, b):
        return z3.If(_t(c), _t(a), _t(b))
    return a if c else b


def eq(a, b):
    if isinstance(a, SOpt) or isinstance(b, SOpt):
        raise Unsupported("eq on optional: use is_none/val")
    if _sym(a, b):
        return _t(a) == _t(b)
    return a == b


def ne(a, b):
    return Not(eq(a, b))


def lt(a, b):
    return _t(a) < _t(b) if _sym(a, b) else a < b


def le(a, b):
    return _t(a) <= _t(b) if _sym(a, b) else a <= b


def add(a, b):
    return _t(a) + _t(b) if _sym(a, b) else a + b


def sub(a, b):
    return _t(a) - _t(b) if _sym(a, b) else a - b


def mul(a, b):
    return _t(a) * _t(b) if _sym(a, b) else a * b


def length(L):
    if isinstance(L, SList):
        return L.n
    return len(L)


def at(L, i):
    """element i of a list as a *term* (symbolic) or Python value (concrete)"""
    if isinstance(L, SList):
        return L.a[_t(i)]
    if _sym(i):
        return list_from_concrete(list(L)).a[_t(i)]
    return L[i]


def forall(lo, hi, body):
    """forall i in [lo, hi): body(i)"""
    if _sym(lo, hi):
        i = z3.Int(fresh_name("q"))
        return z3.ForAll([i], z3.Implies(z3.And(_t(lo) <= i, i < _t(hi)), _t(_b(body(i)))))
    r = [body(i) for i in range(lo, hi)]
    if _sym(*r):
        return z3.And(*[_t(_b(x)) for x in r]) if r else True
    return all(r)


def exists(lo, hi, body):
    if _sym(lo, hi):
        i = z3.Int(fresh_name("e"))
        return z3.Exists([i], z3.And(_t(lo) <= i, i < _t(hi), _t(_b(body(i)))))
    r = [body(i) for i in range(lo, hi)]
    if _sym(*r):
        return z3.Or(*[_t(_b(x)) for x in r]) if r else False
    return any(r)


def forall_int(body):
    """unbounded forall over all integers (symbolic only)"""
    i = z3.Int(fresh_name("q"))
    return z3.ForAll([i], _t(_b(body(i))))


def forall_in(L, body):
    return forall(0, length(L), lambda i: body(at(L, i)))


def exists_in(L, body):
    return exists(0, length(L), lambda i: body(at(L, i)))


def mem_term(L, x):
    """canonical `x in L` for a symbolic list (one shape everywhere, so that facts and goals match syntactically)"""
    i = z3.Int("mem!i")
    return z3.Exists([i], z3.And(0 <= i, i < L.n, L.a[i] == _t(x)))


def asc_term(L, strict=True):
    i, j = z3.Int("asc!i"), z3.Int("asc!j")
    return z3.ForAll([i, j], z3.Implies(z3.And(0 <= i, i < j, j < L.n), L.a[i] < L.a[j] if strict else L.a[i] <= L.a[j]))


def member(x, S_):
    if isinstance(S_, SSet):
        return S_.chi[_t(x)]
    if isinstance(S_, SList):
        return mem_term(S_, x)
    if _sym(x):
        return z3.Or(*[_t(x) == _t(y) for y in S_]) if len(S_) else False
    return x in S_


# ------------------------------------------------------------------------------ nets

def net_addr(n):
    if isinstance(n, ipaddress.IPv4Network):
        return int(n.network_address)
    return Net.addr(_t(n))


def net_plen(n):
    if isinstance(n, ipaddress.IPv4Network):
        return n.prefixlen
    return Net.plen(_t(n))


# net_sub(b, t): every address of b belongs to t.  In the list-level VCs this is an uninterpreted
# predicate constrained only by what the callers need (reflexive, transitive); the lemma layer connects it to bits.
NET_SUB = z3.Function("net_sub", Net, Net, z3.BoolSort())


def net_sub(b, t):
    if isinstance(b, ipaddress.IPv4Network):
        return b.subnet_of(t)
    return NET_SUB(_t(b), _t(t))


def is_none(x):
    if isinstance(x, SOpt):
        return x.isnone
    return x is None


def val(x):
    if isinstance(x, SOpt):
        return x.val
    return x


class Instance:
    """a ground instance of a universally quantified hypothesis (used as a proof hint: needs no proof of its own as long as
    the quantified formula really is among the hypotheses - the engine checks that)"""

    def __init__(self, forall, *terms):
        self.forall = forall
        self.formula = z3.substitute_vars(forall.body(), *reversed([_t(t) for t in terms]))


def instance(forall, *terms):
    return Instance(forall, *terms)


# ---------------------------------------------------------------------------------- the log as ghost heap state
def log_object():
    from .values import SV, TObj
    return SV(TObj("Log"), z3.IntVal(-7))


def warned(cx, text):
    """some WARNING record logged so far mentions `text` (ghost heap field Log.warned, updated by logging.warning)"""
    return z3.Select(_t(cx.get(log_object(), "warned")), _t(text))
