"""pyvc.lemmas - lemmas behind the built-in models that add derived facts (each is discharged on every run)."""
import z3


def remove_lemmas():
    """list.remove on a strictly ascending list: witness forms of
       R = L without L[idx]:  mem(R,p) <=> mem(L,p) and p != x;  R strictly ascending"""
    L = z3.Array("L", z3.IntSort(), z3.IntSort())
    n, x, idx, i, j, p0, q0 = z3.Ints("n x idx i j p0 q0")
    R = z3.Lambda([j], z3.If(j < idx, L[j], L[j + 1]))
    asc = z3.ForAll([i, j], z3.Implies(z3.And(0 <= i, i < j, j < n), L[i] < L[j]))
    hy = [n >= 1, asc, 0 <= idx, idx < n, L[idx] == x]
    w = z3.If(q0 < idx, q0, q0 - 1)
    return [
        ("engine.remove.members_from", hy, z3.Implies(z3.And(0 <= q0, q0 < n - 1, R[q0] == p0),
                                                      z3.And(p0 != x, z3.Or(z3.And(0 <= q0, q0 < n, L[q0] == p0),
                                                                            z3.And(0 <= q0 + 1, q0 + 1 < n, L[q0 + 1] == p0)))), {}),
        ("engine.remove.members_to", hy, z3.Implies(z3.And(0 <= q0, q0 < n, L[q0] == p0, p0 != x),
                                                    z3.And(0 <= w, w < n - 1, R[w] == p0)), {}),
        ("engine.remove.ascending", hy, z3.ForAll([i, j], z3.Implies(z3.And(0 <= i, i < j, j < n - 1), R[i] < R[j])), {}),
    ]


def concat_lemmas():
    """membership in A ++ B: witness forms (element sort Int stands for any sort: only equality is used)"""
    A = z3.Array("A", z3.IntSort(), z3.IntSort())
    B = z3.Array("B", z3.IntSort(), z3.IntSort())
    na, nb, j, q0, p0 = z3.Ints("na nb j q0 p0")
    R = z3.Lambda([j], z3.If(j < na, A[j], B[j - na]))
    hy = [na >= 0, nb >= 0]
    return [
        ("engine.concat.members_from", hy, z3.Implies(z3.And(0 <= q0, q0 < na + nb, R[q0] == p0),
                                                      z3.Or(z3.And(0 <= q0, q0 < na, A[q0] == p0),
                                                            z3.And(0 <= q0 - na, q0 - na < nb, B[q0 - na] == p0))), {}),
        ("engine.concat.members_left", hy, z3.Implies(z3.And(0 <= q0, q0 < na, A[q0] == p0), z3.And(0 <= q0, q0 < na + nb, R[q0] == p0)), {}),
        ("engine.concat.members_right", hy, z3.Implies(z3.And(0 <= q0, q0 < nb, B[q0] == p0),
                                                       z3.And(0 <= q0 + na, q0 + na < na + nb, R[q0 + na] == p0)), {}),
    ]


# ------------------------------------------------------------------------------------------ networks as address sets
class NetDefs:
    """bit-level definitions of the ipaddress operations used by the verified code (strict IPv4Network values):
    the list-level VCs use uninterpreted NET_IN / NET_SUPER / NET_SUB0 / NET_SUB1 / NET_SUB constrained by the facts N.*
    below; here the facts are proved for these definitions, and props/C14 cross-checks the definitions against CPython."""

    @staticmethod
    def mask(p):
        from .values import netmask_of
        return netmask_of(p)

    @staticmethod
    def wf(n):
        from .values import Net
        a, p = Net.addr(n), Net.plen(n)
        return z3.And(p >= 0, p <= 32, z3.ULE(a, 0xFFFFFFFF), (a & ~NetDefs.mask(p) & 0xFFFFFFFF) == 0)

    @staticmethod
    def has(a, n):
        from .values import Net
        return z3.And(z3.ULE(a, 0xFFFFFFFF), (a & NetDefs.mask(Net.plen(n))) == Net.addr(n))

    @staticmethod
    def bcast(n):
        from .values import Net
        return Net.addr(n) | (~NetDefs.mask(Net.plen(n)) & 0xFFFFFFFF)

    @staticmethod
    def subnet_of(b, t):
        """ipaddress: other.network_address <= self.network_address and other.broadcast_address >= self.broadcast_address"""
        from .values import Net
        return z3.And(z3.ULE(Net.addr(t), Net.addr(b)), z3.UGE(NetDefs.bcast(t), NetDefs.bcast(b)))

    @staticmethod
    def supernet(n):
        """ipaddress: prefixlen 0 -> self; else IPv4Network((int(addr) & (int(netmask) << 1), prefixlen - 1))"""
        from .values import Net
        a, p = Net.addr(n), Net.plen(n)
        return z3.If(p == 0, n, Net.mk_net(a & NetDefs.mask(p - 1), p - 1))

    @staticmethod
    def subnets(m):
        """ipaddress: prefixlen 32 -> [self]; else the two halves"""
        from .values import Net
        a, p = Net.addr(m), Net.plen(m)
        bit = NetDefs.mask(p + 1) & ~NetDefs.mask(p) & 0xFFFFFFFF
        return (z3.If(p < 32, Net.mk_net(a, p + 1), m), z3.If(p < 32, Net.mk_net(a | bit, p + 1), m))


def net_lemmas():
    from .values import Net, BVW
    D = NetDefs
    a = z3.BitVec("a", BVW)
    n, t = z3.Const("n", Net), z3.Const("t", Net)
    s0, s1 = D.subnets(n)
    return [
        ("engine.net.sub", [D.wf(n), D.wf(t), D.subnet_of(n, t), D.has(a, n)], D.has(a, t), {}),
        ("engine.net.super", [D.wf(n), D.has(a, n)], D.has(a, D.supernet(n)), {}),
        ("engine.net.super_wf", [D.wf(n)], D.wf(D.supernet(n)), {}),
        ("engine.net.split", [D.wf(n), Net.plen(n) < 32], D.has(a, n) == z3.Or(D.has(a, s0), D.has(a, s1)), {}),
        ("engine.net.split_wf", [D.wf(n)], z3.And(D.wf(s0), D.wf(s1)), {}),
        ("engine.net.split_32", [D.wf(n), Net.plen(n) == 32], z3.And(s0 == n, s1 == n), {}),
    ]
