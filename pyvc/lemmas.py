"""pyvc.lemmas - lemmas behind the built-in models that add derived facts (each is discharged on every run)."""
import z3


def remove_lemmas():
    """list.remove on a strictly ascending list: witness forms of
       R = L without L[idx]:  mem(R,p) <=> mem(L,p) and p != x;  R strictly ascending"""
    L = z3.Array("L", z3.IntSort(), z3.IntSort())
    n, x, idx, i, j, p0, q0 = z3.Ints("n x idx i j p0 q0")
    R = z3.Lambda([j], z3.If(j < idx, L[j], L[j + 1]))
    asc = z3.ForAll([i, j], z3.Implies(z3.And(0 <= i, i < j, j < n), L[i] < L[j]))
    hy = [n >= 1, asc, 0 <= idx, idx < n, L[idx] == x]
    w = z3.If(q0 < idx, q0, q0 - 1)
    return [
        ("engine.remove.members_from", hy, z3.Implies(z3.And(0 <= q0, q0 < n - 1, R[q0] == p0),
                                                      z3.And(p0 != x, z3.Or(z3.And(0 <= q0, q0 < n, L[q0] == p0),
                                                                            z3.And(0 <= q0 + 1, q0 + 1 < n, L[q0 + 1] == p0)))), {}),
        ("engine.remove.members_to", hy, z3.Implies(z3.And(0 <= q0, q0 < n, L[q0] == p0, p0 != x),
                                                    z3.And(0 <= w, w < n - 1, R[w] == p0)), {}),
        ("engine.remove.ascending", hy, z3.ForAll([i, j], z3.Implies(z3.And(0 <= i, i < j, j < n - 1), R[i] < R[j])), {}),
    ]


def concat_lemmas():
    """membership in A ++ B: witness forms (element sort Int stands for any sort: only equality is used)"""
    A = z3.Array("A", z3.IntSort(), z3.IntSort())
    B = z3.Array("B", z3.IntSort(), z3.IntSort())
    na, nb, j, q0, p0 = z3.Ints("na nb j q0 p0")
    R = z3.Lambda([j], z3.If(j < na, A[j], B[j - na]))
    hy = [na >= 0, nb >= 0]
    return [
        ("engine.concat.members_from", hy, z3.Implies(z3.And(0 <= q0, q0 < na + nb, R[q0] == p0),
                                                      z3.Or(z3.And(0 <= q0, q0 < na, A[q0] == p0),
                                                            z3.And(0 <= q0 - na, q0 - na < nb, B[q0 - na] == p0))), {}),
        ("engine.concat.members_left", hy, z3.Implies(z3.And(0 <= q0, q0 < na, A[q0] == p0), z3.And(0 <= q0, q0 < na + nb, R[q0] == p0)), {}),
        ("engine.concat.members_right", hy, z3.Implies(z3.And(0 <= q0, q0 < nb, B[q0] == p0),
                                                       z3.And(0 <= q0 + na, q0 + na < na + nb, R[q0 + na] == p0)), {}),
    ]
