"""pyvc.loader - mechanical extraction of the verified text from /repo on every run.

Nothing is imported from the repository here: modules are parsed with ``ast``; functions are located by
qualified name ("cisco_acl.helpers.subnet_of", "cisco_acl.port.Port._items_to_ports",
"cisco_acl.port.Port.line.fset", "cisco_acl.helpers.check_start_step_sequence._wrapper").

What extraction drops (stated in DESIGN.md section 2.1): docstrings, type annotations (kept only as hints),
the text of exception/log messages is kept as opaque strings, ``__repr__``.
"""
from __future__ import annotations

import ast
import hashlib
import os
from functools import lru_cache

REPO = os.environ.get("VERIF_REPO", "/repo")
PKG = "cisco_acl"


class LoadError(Exception):
    pass


@lru_cache(maxsize=None)
def module_ast(modname: str) -> ast.Module:
    path = os.path.join(REPO, *modname.split(".")) + ".py"
    if not os.path.exists(path):
        raise LoadError(f"module file not found: {path}")
    with open(path, encoding="utf-8") as fh:
        src = fh.read()
    tree = ast.parse(src, filename=path)
    tree._src = src  # type: ignore[attr-defined]
    tree._path = path  # type: ignore[attr-defined]
    return tree


def module_source(modname: str) -> str:
    return module_ast(modname)._src  # type: ignore[attr-defined]


@lru_cache(maxsize=None)
def import_map(modname: str) -> dict:
    """name -> ("module", "cisco_acl.helpers") | ("name", "cisco_acl.helpers", "OPERATORS") for module-level imports."""
    out: dict = {}
    for node in module_ast(modname).body:
        if isinstance(node, ast.Import):
            for a in node.names:
                out[a.asname or a.name.split(".")[0]] = ("module", a.name)
        elif isinstance(node, ast.ImportFrom) and node.module:
            for a in node.names:
                full = f"{node.module}.{a.name}"
                # "from cisco_acl import helpers as h" imports a module
                if node.module == PKG and os.path.exists(os.path.join(REPO, PKG, a.name + ".py")):
                    out[a.asname or a.name] = ("module", full)
                else:
                    out[a.asname or a.name] = ("name", node.module, a.name)
    return out


@lru_cache(maxsize=None)
def classes(modname: str) -> dict:
    return {n.name: n for n in module_ast(modname).body if isinstance(n, ast.ClassDef)}


@lru_cache(maxsize=None)
def all_classes() -> dict:
    """class name -> (modname, ClassDef) over the whole package (class names are unique in cisco_acl)."""
    out = {}
    pkgdir = os.path.join(REPO, PKG)
    for fn in sorted(os.listdir(pkgdir)):
        if fn.endswith(".py"):
            mod = f"{PKG}.{fn[:-3]}"
            for name, node in classes(mod).items():
                out[name] = (mod, node)
    return out


def class_bases(cls: str) -> list:
    mod, node = all_classes()[cls]
    out = []
    for b in node.bases:
        if isinstance(b, ast.Name) and b.id in all_classes():
            out.append(b.id)
    return out


@lru_cache(maxsize=None)
def mro(cls: str) -> tuple:
    """C3-free approximation good for cisco_acl's hierarchy (depth-first, left-to-right, duplicates removed keeping the last)."""
    seq = [cls]
    for b in class_bases(cls):
        seq.extend(mro(b))
    out = []
    for i, c in enumerate(seq):
        if c not in seq[i + 1:]:
            out.append(c)
    return tuple(out)


def subclasses(cls: str) -> list:
    return [c for c in all_classes() if cls in mro(c)]


def _decorator_names(fn: ast.FunctionDef) -> list:
    names = []
    for d in fn.decorator_list:
        names.append(ast.unparse(d))
    return names


@lru_cache(maxsize=None)
def class_members(cls: str) -> dict:
    """name -> {"kind": "method"|"static"|"class"|"property", "fget":..., "fset":..., "fn":...} defined *in* cls."""
    mod, node = all_classes()[cls]
    out: dict = {}
    for n in node.body:
        if not isinstance(n, ast.FunctionDef):
            continue
        decos = _decorator_names(n)
        if "property" in decos:
            out.setdefault(n.name, {"kind": "property"})["fget"] = n
            out[n.name]["kind"] = "property"
        elif any(d.endswith(".setter") for d in decos):
            out.setdefault(n.name, {"kind": "property"})["fset"] = n
        elif "staticmethod" in decos:
            out[n.name] = {"kind": "static", "fn": n, "decos": decos}
        elif "classmethod" in decos:
            out[n.name] = {"kind": "class", "fn": n, "decos": decos}
        else:
            out[n.name] = {"kind": "method", "fn": n, "decos": decos}
    return out


def lookup_member(cls: str, name: str):
    """Resolve attribute `name` along the MRO. Returns (defining class, member dict) or None."""
    for c in mro(cls):
        mem = class_members(c).get(name)
        if mem is not None:
            return c, mem
    return None


def overriders(cls: str, name: str) -> list:
    """All classes C' <= cls (incl. cls) whose own body defines `name` -> used to detect dynamic dispatch."""
    out = []
    for c in subclasses(cls):
        if name in class_members(c):
            out.append(c)
    return out


def find_function(qualname: str):
    """Return (modname, FunctionDef, owner class or None). qualname examples in module docstring."""
    parts = qualname.split(".")
    if parts[0] != PKG:
        raise LoadError(f"not a {PKG} target: {qualname}")
    modname = ".".join(parts[:2])
    rest = parts[2:]
    tree = module_ast(modname)
    if len(rest) == 1:
        for n in tree.body:
            if isinstance(n, ast.FunctionDef) and n.name == rest[0]:
                return modname, n, None
        raise LoadError(f"function not found: {qualname}")
    if rest[0] in classes(modname):
        cls = rest[0]
        mem = class_members(cls).get(rest[1])
        if mem is None:
            raise LoadError(f"member not found: {qualname}")
        if mem["kind"] == "property":
            acc = rest[2] if len(rest) > 2 else "fget"
            if acc not in mem:
                raise LoadError(f"accessor not found: {qualname}")
            return modname, mem[acc], cls
        return modname, mem["fn"], cls
    # nested function: module function . inner
    for n in tree.body:
        if isinstance(n, ast.FunctionDef) and n.name == rest[0]:
            for m in ast.walk(n):
                if isinstance(m, ast.FunctionDef) and m.name == rest[1] and m is not n:
                    return modname, m, None
    raise LoadError(f"target not found: {qualname}")


def source_sha(modname: str, fn: ast.AST) -> str:
    seg = ast.get_source_segment(module_source(modname), fn) or ""
    return hashlib.sha256(seg.encode()).hexdigest()[:16]


def source_text(modname: str, fn: ast.AST) -> str:
    return ast.get_source_segment(module_source(modname), fn) or ""


# ----------------------------------------------------------------------------------------------
# module-level constants: evaluate only literal-built assignments, in an empty namespace
# ----------------------------------------------------------------------------------------------

_SAFE_NODES = (
    ast.Constant, ast.Dict, ast.List, ast.Tuple, ast.Set, ast.Name, ast.Load, ast.BinOp, ast.UnaryOp,
    ast.Add, ast.Sub, ast.Mult, ast.Pow, ast.USub, ast.DictComp, ast.comprehension, ast.Store,
    ast.Call, ast.Attribute, ast.keyword, ast.Starred, ast.Subscript, ast.JoinedStr, ast.FormattedValue,
)


def _is_literal_expr(node: ast.AST, known: dict) -> bool:
    for n in ast.walk(node):
        if not isinstance(n, _SAFE_NODES):
            return False
        if isinstance(n, ast.Call):
            # only dict(k=v, ...), X.items(), X.copy() on known constants
            f = n.func
            if isinstance(f, ast.Name) and f.id in ("dict", "tuple", "list", "sorted", "set"):
                continue
            if isinstance(f, ast.Attribute) and f.attr in ("items", "copy") and isinstance(f.value, ast.Name) \
                    and f.value.id in known:
                continue
            return False
        if isinstance(n, ast.Attribute):
            if not (isinstance(n.value, ast.Name) and n.value.id in known and n.attr in ("items", "copy")):
                return False
    return True


@lru_cache(maxsize=None)
def module_constants(modname: str) -> dict:
    """The real module-level constant tables, obtained by evaluating literal-built assignments only."""
    known: dict = {}
    safe_builtins = {"dict": dict, "tuple": tuple, "list": list, "sorted": sorted, "set": set}
    # constants imported by name from sibling modules (e.g. "from cisco_acl.helpers import OPERATORS")
    for name, imp in import_map(modname).items():
        if imp[0] == "name" and imp[1].startswith(PKG + ".") and imp[2].isupper():
            other = module_constants(imp[1])
            if imp[2] in other:
                known[name] = other[imp[2]]
    for node in module_ast(modname).body:
        tgt = None
        val = None
        if isinstance(node, ast.Assign) and len(node.targets) == 1 and isinstance(node.targets[0], ast.Name):
            tgt, val = node.targets[0].id, node.value
        elif isinstance(node, ast.AnnAssign) and isinstance(node.target, ast.Name) and node.value is not None:
            tgt, val = node.target.id, node.value
        if tgt is None or val is None:
            continue
        if not _is_literal_expr(val, known):
            continue
        try:
            known[tgt] = eval(compile(ast.Expression(val), "<const>", "eval"), {"__builtins__": safe_builtins}, dict(known))
        except Exception:
            continue
    return known


def function_decorators(fn: ast.FunctionDef) -> list:
    return _decorator_names(fn)
