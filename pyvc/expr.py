"""pyvc.expr - expression evaluation (mixin of the engine)."""
from __future__ import annotations

import ast

import z3

from . import loader, contract as C
from .values import (SDict, Sym, SV, SList, SSet, SOpt, FuncRef, ModuleRef, ClassRef, Opaque, Unsupported, TInt, TBool, TStr,
                     TNet, TNone, TObj, TList, TSet, TOpt, TTuple, TBV, Net, fresh, fresh_name, type_constraints,
                     type_of, to_term, wrap, sort_of, is_concrete, list_from_concrete, default_term, BVW)

BUILTIN_NAMES = {"len", "int", "str", "bool", "list", "set", "tuple", "dict", "sorted", "range", "enumerate", "zip",
                 "reversed", "isinstance", "min", "max", "sum", "format", "map", "type", "getattr", "hasattr", "abs",
                 "any", "all", "frozenset", "print", "super", "iter"}
EXC_NAMES = {"ValueError", "TypeError", "IndexError", "KeyError", "NetmaskValueError", "AddressValueError",
             "RecursionError", "Exception", "AttributeError", "RuntimeError"}
EXTERNAL_CLASSES = {"IPv4Network", "IPv4Address", "SwVersion", "Generator"}


class ExprMixin:
    # ------------------------------------------------------------------ names
    def resolve_name(self, name, st):
        if name in st.env:
            return st.env[name]
        modname = self.modname
        consts = loader.module_constants(modname)
        if name in consts:
            return consts[name]
        imp = loader.import_map(modname).get(name)
        if imp:
            if imp[0] == "module":
                return ModuleRef(imp[1])
            src, nm = imp[1], imp[2]
            if src.startswith(loader.PKG + "."):
                oc = loader.module_constants(src)
                if nm in oc:
                    return oc[nm]
                if nm in loader.classes(src):
                    return ClassRef(nm)
                return FuncRef(f"{src}.{nm}")
            if nm in EXC_NAMES or nm in EXTERNAL_CLASSES:
                return ClassRef(nm)
            return FuncRef(f"{src}.{nm}")
        if name in loader.classes(modname):
            return ClassRef(name)
        for n in loader.module_ast(modname).body:
            if isinstance(n, ast.FunctionDef) and n.name == name:
                return FuncRef(f"{modname}.{name}")
        if name in BUILTIN_NAMES:
            return FuncRef(f"builtins.{name}")
        if name in EXC_NAMES:
            return ClassRef(name)
        if name in ("str", "int", "list", "dict", "set", "tuple", "bool"):
            return FuncRef(f"builtins.{name}")
        raise Unsupported(f"unresolved name {name}")

    # ------------------------------------------------------------------ main dispatch
    def ev(self, node, st):
        m = getattr(self, "ev_" + node.__class__.__name__, None)
        if m is None:
            raise Unsupported(f"expression {node.__class__.__name__} at line {getattr(node, 'lineno', '?')}")
        return m(node, st)

    def ev_Constant(self, node, st):
        return node.value

    def ev_Name(self, node, st):
        return self.resolve_name(node.id, st)

    def ev_NamedExpr(self, node, st):
        v = self.ev(node.value, st)
        st.env[node.target.id] = v
        return v

    def ev_Tuple(self, node, st):
        return tuple(self.ev(e, st) for e in node.elts)

    def ev_List(self, node, st):
        out = []
        for e in node.elts:
            if isinstance(e, ast.Starred):
                v = self.ev(e.value, st)
                if isinstance(v, (list, tuple)):
                    out.extend(v)
                else:
                    raise Unsupported("starred symbolic list in display")
            else:
                v = self.ev(e, st)
                if isinstance(v, SOpt) and (v.inner is TNet or isinstance(v.inner, TObj)):
                    # a list display of an Optional network/object: it must not be None here
                    self.emit("safe.none", f"list@L{node.lineno}", st, z3.Not(v.isnone))
                    self.assume_here(st, z3.Not(v.isnone))
                    v = v.val
                out.append(v)
        return out

    def ev_Set(self, node, st):
        out = []
        starred = []
        for e in node.elts:
            if isinstance(e, ast.Starred):
                v = self.ev(e.value, st)
                if isinstance(v, (list, tuple, frozenset)):
                    out.extend(v)
                elif isinstance(v, SList):
                    starred.append(v)
                else:
                    return self.set_display(node, st)
            else:
                out.append(self.ev(e, st))
        if not starred and all(is_concrete(x) for x in out):
            return frozenset(out)
        if all(isinstance(x, SV) for x in out) and (starred or out):
            # {*L1, .., e1, ..}: characteristic function = member of some Li or equal to some ej
            from .spec import mem_term
            ety = starred[0].ety if starred else out[0].ty
            x = z3.Const(fresh_name("sx"), sort_of(ety))
            return SSet(ety, z3.Lambda([x], z3.Or(*([mem_term(L, x) for L in starred] + [x == e.t for e in out]))),
                        elems=None if starred else [e.t for e in out])
        return self.set_display(node, st)

    def ev_Dict(self, node, st):
        out = {}
        for k, v in zip(node.keys, node.values):
            if k is None:
                d = self.ev(v, st)
                if not isinstance(d, dict):
                    raise Unsupported("** of symbolic dict in display")
                out.update(d)
            else:
                kk = self.ev(k, st)
                if not is_concrete(kk):
                    raise Unsupported("symbolic dict key in display")
                out[kk] = self.ev(v, st)
        return out

    def ev_JoinedStr(self, node, st):
        if getattr(self, "str_shape", None) == "range" and len(node.values) == 3 and isinstance(node.values[1], ast.Constant) \
                and node.values[1].value == "-" and all(isinstance(node.values[i], ast.FormattedValue) for i in (0, 2)):
            a, b = self.ev(node.values[0].value, st), self.ev(node.values[2].value, st)
            if type_of(a) is TInt and type_of(b) is TInt:
                from .values import RNGSTR
                return SV(TStr, RNGSTR(to_term(a), to_term(b)))     # the text "a-b" as a shaped string
        parts = []
        for p in node.values:
            if isinstance(p, ast.Constant):
                parts.append(p.value)
            else:
                try:
                    v = self.ev(p.value, st)
                    parts.append(self.format_value(v, p, st))
                except Unsupported:
                    parts.append(Opaque("fmt"))   # message text only
        return self.concat_strs(parts)

    def format_value(self, v, p, st):
        """f-string field -> str value; !r / = forms of strings are modelled as quote+s+quote (assumption: no escapes)"""
        conv = p.conversion
        if isinstance(v, bool):
            return str(v)
        if isinstance(v, int):
            return str(v)
        if isinstance(v, str):
            return repr(v) if conv == 114 else v
        if isinstance(v, SV) and v.ty is TStr:
            if conv == 114:
                return SV(TStr, z3.Concat(z3.StringVal("'"), v.t, z3.StringVal("'")))
            return v
        if isinstance(v, SV) and v.ty is TInt:
            return SV(TStr, self.int_to_str(v.t))
        return Opaque("fmt")

    def concat_strs(self, parts):
        if all(isinstance(p, str) for p in parts):
            return "".join(parts)
        if any(isinstance(p, Opaque) for p in parts):
            return Opaque("fstring", [p for p in parts if not isinstance(p, Opaque)])
        terms = [to_term(p) for p in parts]
        return SV(TStr, z3.Concat(*terms) if len(terms) > 1 else terms[0])

    def int_to_str(self, t):
        return z3.IntToStr(t)

    # ------------------------------------------------------------------ attribute / subscript
    def ev_Attribute(self, node, st):
        base = self.ev(node.value, st)
        return self.get_attr(base, node.attr, st, node)

    def get_attr(self, base, attr, st, node=None):
        if isinstance(base, SOpt):
            # attribute access on an Optional: must not be None here
            self.emit("safe.none", f"{attr}@L{getattr(node, 'lineno', 0)}", st, z3.Not(base.isnone))
            self.assume_here(st, z3.Not(base.isnone))
            base = base.val
        if attr == "__dict__" and isinstance(base, SV) and isinstance(base.ty, TObj):
            from .values import ObjDict
            return ObjDict(base)
        if base.__class__.__name__ == "SuperRef":
            for c in loader.mro(base.cls)[1:]:
                mem = loader.class_members(c).get(attr)
                if mem is not None and mem["kind"] == "method":
                    return FuncRef(f"{loader.all_classes()[c][0]}.{c}.{attr}", bound_self=base.obj)
            raise Unsupported(f"super().{attr}")
        if isinstance(base, ModuleRef):
            return self.module_attr(base, attr)
        if isinstance(base, SV) and isinstance(base.ty, TObj):
            cls = base.ty.cls
            if cls in loader.all_classes():
                mem = loader.lookup_member(cls, attr)
                if mem is not None:
                    dcls, m = mem
                    if m["kind"] == "property":
                        return self.call_accessor(base, cls, attr, "fget", [], st)
                    if m["kind"] == "static":
                        return FuncRef(f"{loader.all_classes()[dcls][0]}.{dcls}.{attr}")
                    return FuncRef(f"{loader.all_classes()[dcls][0]}.{dcls}.{attr}", bound_self=base)
            if self.field_type(cls, attr) is not None:
                return self.heap_read(st, base, attr)
            raise Unsupported(f"attribute {cls}.{attr}")
        if isinstance(base, SV) and base.ty is TNet:
            return self.net_attr(base, attr, st)
        if isinstance(base, ClassRef):
            if base.name in loader.all_classes():
                mem = loader.lookup_member(base.name, attr)
                if mem and mem[1]["kind"] in ("static", "class", "method"):
                    return FuncRef(f"{loader.all_classes()[mem[0]][0]}.{mem[0]}.{attr}")
            if attr == "__name__":
                return base.name
            raise Unsupported(f"class attribute {base.name}.{attr}")
        # bound builtin method
        return FuncRef(f"method.{attr}", bound_self=base)

    def module_attr(self, mod, attr):
        name = mod.name
        if name.startswith(loader.PKG + "."):
            oc = loader.module_constants(name)
            if attr in oc:
                return oc[attr]
            if attr in loader.classes(name):
                return ClassRef(attr)
            return FuncRef(f"{name}.{attr}")
        if name == "string" and attr in ("ascii_lowercase", "ascii_uppercase", "ascii_letters", "digits", "punctuation", "whitespace"):
            import string as _string
            return getattr(_string, attr)          # constants of the standard library module `string`
        return FuncRef(f"{name}.{attr}")

    def ev_Subscript(self, node, st):
        base = self.ev(node.value, st)
        if isinstance(node.slice, ast.Slice):
            lo = self.ev(node.slice.lower, st) if node.slice.lower else None
            hi = self.ev(node.slice.upper, st) if node.slice.upper else None
            step = self.ev(node.slice.step, st) if node.slice.step else None
            return self.slice_value(base, lo, hi, step, st)
        idx = self.ev(node.slice, st)
        return self.index_value(base, idx, st, node)

    def index_value(self, base, idx, st, node=None):
        if isinstance(base, SDict):
            k = to_term(idx)
            self.pending.append((z3.Not(base.dom[k]), "KeyError", None))
            return wrap(base.vty, base.map[k])
        if isinstance(base, dict):
            if is_concrete(idx):
                if idx not in base:
                    self.raise_now(st, "KeyError")
                    return None
                return base[idx]
            return self.dict_lookup(base, idx, st, strict=True)
        if isinstance(base, (list, tuple)) and isinstance(idx, int) and not isinstance(idx, bool):
            if not -len(base) <= idx < len(base):
                self.emit("safe.index", f"L{getattr(node, 'lineno', 0)}", st, False, note="constant index out of range")
                raise PathEnd()
            return base[idx]
        if isinstance(base, (list, tuple)):
            base = self.as_slist(list(base))
        if isinstance(base, SList):
            i = to_term(idx)
            if isinstance(idx, int) and idx < 0:
                i = base.n + idx
            elif not isinstance(idx, int):
                i = z3.If(i < 0, base.n + i, i)
            self.emit("safe.index", f"L{getattr(node, 'lineno', 0)}", st, z3.And(i >= 0, i < base.n))
            self.assume_here(st, z3.And(i >= 0, i < base.n))
            return wrap(base.ety, base.a[i])
        if isinstance(base, str) and isinstance(idx, int):
            return base[idx]
        if isinstance(base, SV) and base.ty is TStr:
            i = to_term(idx)
            self.emit("safe.index", f"L{getattr(node, 'lineno', 0)}", st, z3.And(i >= 0, i < z3.Length(base.t)))
            return SV(TStr, z3.SubString(base.t, i, 1))
        raise Unsupported(f"subscript on {base!r}")

    def slice_value(self, base, lo, hi, step, st):
        if step is not None:
            if isinstance(base, (list, tuple, str)) and is_concrete(step) and lo is None and hi is None:
                return base[::step]
            raise Unsupported("slice step")
        if isinstance(base, (list, tuple, str)) and (lo is None or isinstance(lo, int)) and (hi is None or isinstance(hi, int)):
            return base[lo:hi]
        if isinstance(base, (list, tuple)):
            base = self.as_slist(list(base))
        from .stmt import Iter
        if isinstance(base, Iter) and base.view[0] == "indexed" and getattr(base, "is_range", False):
            # a slice of range(a, b) is the range of the selected elements (Python's clamping of negative / oversized bounds below)
            _, n_, elem = base.view
            k_ = z3.Int(fresh_name("rg"))
            base = SList(TInt, n_, z3.Lambda([k_], to_term(elem(k_))))
        if isinstance(base, SList):
            n = base.n
            lo_t = z3.IntVal(0) if lo is None else to_term(lo)
            hi_t = n if hi is None else to_term(hi)
            clamp = lambda x: z3.If(x < 0, z3.If(n + x < 0, 0, n + x), z3.If(x > n, n, x))
            lo_c, hi_c = clamp(lo_t), clamp(hi_t)
            j = z3.Int(fresh_name("sl"))
            new_n = z3.If(hi_c > lo_c, hi_c - lo_c, 0)
            return SList(base.ety, new_n, z3.Lambda([j], base.a[j + lo_c]))
        raise Unsupported(f"slice of {base!r}")

    # ------------------------------------------------------------------ operators
    def ev_UnaryOp(self, node, st):
        if isinstance(node.op, ast.Not):
            t = self.ev_truth(node.operand, st)
            return (not t) if isinstance(t, bool) else wrap(TBool, z3.Not(t))
        v = self.ev(node.operand, st)
        if isinstance(node.op, ast.Not):
            t = self.truthy(v)
            return (not t) if isinstance(t, bool) else wrap(TBool, z3.Not(t))
        if isinstance(node.op, ast.USub):
            return -v if isinstance(v, int) else wrap(TInt, -to_term(v))
        if isinstance(node.op, ast.Invert):
            if isinstance(v, int):
                return ~v
            if isinstance(v, SV) and v.ty is TBV:
                return SV(TBV, ~v.t)
        raise Unsupported(f"unary {node.op.__class__.__name__}")

    def ev_BinOp(self, node, st):
        a = self.ev(node.left, st)
        b = self.ev(node.right, st)
        return self.binop(node.op, a, b, st, node)

    def binop(self, op, a, b, st, node=None):
        if is_concrete(a) and is_concrete(b) and not isinstance(a, (FuncRef, ClassRef)):
            import operator as o
            fn = {ast.Add: o.add, ast.Sub: o.sub, ast.Mult: o.mul, ast.FloorDiv: o.floordiv, ast.Mod: o.mod,
                  ast.Pow: o.pow, ast.BitAnd: o.and_, ast.BitOr: o.or_, ast.BitXor: o.xor, ast.LShift: o.lshift,
                  ast.RShift: o.rshift}.get(type(op))
            if fn is None:
                raise Unsupported(f"binop {op}")
            return fn(a, b)
        ta = type_of(a) if not isinstance(a, (SList, list)) else None
        if isinstance(a, (SList, list)) or isinstance(b, (SList, list)):
            if isinstance(op, ast.Add):
                return self.list_concat(a, b)
            raise Unsupported("list binop")
        if (isinstance(a, SV) and a.ty is TBV) or (isinstance(b, SV) and b.ty is TBV) or \
                isinstance(op, (ast.BitAnd, ast.BitOr, ast.BitXor, ast.LShift, ast.RShift)):
            return self.bv_binop(op, a, b, st, node)
        if type_of(a) is TStr or type_of(b) is TStr:
            if isinstance(op, ast.Add):
                return SV(TStr, z3.Concat(to_term(a), to_term(b)))
            raise Unsupported("str binop")
        x, y = to_term(self.as_int(a)), to_term(self.as_int(b))
        if isinstance(op, ast.Add):
            return wrap(TInt, x + y)
        if isinstance(op, ast.Sub):
            return wrap(TInt, x - y)
        if isinstance(op, ast.Mult):
            return wrap(TInt, x * y)
        if isinstance(op, ast.FloorDiv):
            self.emit("safe.div", f"L{getattr(node, 'lineno', 0)}", st, y != 0)
            return wrap(TInt, z3.If(y > 0, x / y, -((-x) / (-y)) if False else (x / y)))  # z3 div is floor for y>0
        if isinstance(op, ast.Mod):
            self.emit("safe.div", f"L{getattr(node, 'lineno', 0)}", st, y != 0)
            return wrap(TInt, x % y)
        raise Unsupported(f"binop {op.__class__.__name__}")

    def as_int(self, v):
        if isinstance(v, bool):
            return int(v)
        if isinstance(v, SV) and v.ty is TBool:
            return SV(TInt, z3.If(v.t, 1, 0))
        return v

    def bv_of(self, v, st):
        if isinstance(v, SV) and v.ty is TBV:
            return v.t
        if isinstance(v, bool):
            v = int(v)
        if isinstance(v, int):
            if not 0 <= v < 2 ** (BVW - 1):
                raise Unsupported("bit operation on a constant outside 0..2^63")
            return z3.BitVecVal(v, BVW)
        raise Unsupported(f"bit operation on unbounded integer {v!r}")

    def bv_binop(self, op, a, b, st, node):
        if isinstance(op, ast.LShift):
            if isinstance(a, int) and a == 1 and isinstance(b, SV) and b.ty is TInt:
                # 1 << p with p an Int position: 64-way macro, never int2bv
                self.emit("safe.shift", f"L{getattr(node, 'lineno', 0)}", st, z3.And(b.t >= 0, b.t < BVW - 1))
                t = z3.BitVecVal(0, BVW)
                for c in range(BVW - 2, -1, -1):
                    t = z3.If(b.t == c, z3.BitVecVal(1 << c, BVW), t)
                return SV(TBV, t)
            raise Unsupported("shift")
        if isinstance(op, ast.RShift):
            # w >> p with p a constant or an Int position: logical shift of the non-negative word (macro over the positions, never int2bv)
            x = self.bv_of(a, st)
            if isinstance(b, int) and not isinstance(b, bool):
                if not 0 <= b < BVW:
                    raise Unsupported("shift amount")
                return SV(TBV, z3.LShR(x, z3.BitVecVal(b, BVW)))
            if isinstance(b, SV) and b.ty is TInt:
                self.emit("safe.shift", f"L{getattr(node, 'lineno', 0)}", st, b.t >= 0)
                t = z3.BitVecVal(0, BVW)                       # p >= BVW: every bit of the word is shifted out
                for c in range(BVW - 1, -1, -1):
                    t = z3.If(b.t == c, z3.LShR(x, z3.BitVecVal(c, BVW)), t)
                return SV(TBV, t)
            raise Unsupported("shift")
        x, y = self.bv_of(a, st), self.bv_of(b, st)
        if isinstance(op, ast.BitAnd):
            return SV(TBV, x & y)
        if isinstance(op, ast.BitOr):
            return SV(TBV, x | y)
        if isinstance(op, ast.BitXor):
            return SV(TBV, x ^ y)
        raise Unsupported(f"bv binop {op.__class__.__name__}")

    def list_concat(self, a, b):
        if isinstance(a, list) and isinstance(b, list):
            return a + b
        if isinstance(a, list) and not a and isinstance(b, SList):
            return b
        if isinstance(b, list) and not b and isinstance(a, SList):
            return a
        ety = a.ety if isinstance(a, SList) else b.ety
        a, b = self.as_slist(a, ety), self.as_slist(b, ety)
        j = z3.Int(fresh_name("cc"))
        return SList(ety, a.n + b.n, z3.Lambda([j], z3.If(j < a.n, a.a[j], b.a[j - a.n])))

    def ev_BoolOp(self, node, st):
        """`and`/`or` return operands; later operands are evaluated under the guard of the earlier ones."""
        is_and = isinstance(node.op, ast.And)
        items = []
        guard = True
        for e in node.values:
            n0 = len(self.pending)
            v = self.with_guard(guard, lambda: self.ev(e, st), n0)
            t = self.truthy(v)
            last = e is node.values[-1]
            if isinstance(t, bool):
                if t == is_and:
                    if last:
                        items.append((v, t))
                    continue
                items.append((v, t))
                break
            items.append((v, t))
            g = t if is_and else z3.Not(t)
            guard = g if guard is True else z3.And(guard, g)
        if not items:
            return is_and
        res = items[-1][0]
        for v, t in reversed(items[:-1]):
            res = self.ite(t, res, v) if is_and else self.ite(t, v, res)
        return res

    def ev_truth(self, node, st):
        """truth value of an expression in boolean context (no operand values are merged)"""
        if isinstance(node, ast.BoolOp):
            is_and = isinstance(node.op, ast.And)
            acc = None
            guard = True
            for e in node.values:
                n0 = len(self.pending)
                t = self.with_guard(guard, lambda: self.ev_truth(e, st), n0)
                if isinstance(t, bool):
                    if t == is_and:
                        continue
                    # decided at this operand (when reached)
                    t = z3.BoolVal(t)
                    acc = t if acc is None else (z3.And(acc, t) if is_and else z3.Or(acc, t))
                    break
                acc = t if acc is None else (z3.And(acc, t) if is_and else z3.Or(acc, t))
                g = t if is_and else z3.Not(t)
                guard = g if guard is True else z3.And(guard, g)
            if acc is None:
                return is_and
            acc = z3.simplify(acc)
            if z3.is_true(acc):
                return True
            if z3.is_false(acc):
                return False
            return acc
        if isinstance(node, ast.UnaryOp) and isinstance(node.op, ast.Not):
            t = self.ev_truth(node.operand, st)
            return (not t) if isinstance(t, bool) else z3.Not(t)
        return self.truthy(self.ev(node, st))

    def with_guard(self, guard, thunk, saved_pending):
        if guard is not True:
            self.guard_stack.append(guard)
        try:
            v = thunk()
        finally:
            if guard is not True:
                self.guard_stack.pop()
        if guard is not True:
            for i in range(saved_pending, len(self.pending)):
                c, e, info = self.pending[i]
                self.pending[i] = (z3.And(guard, c), e, info)
        return v

    def ev_IfExp(self, node, st):
        c = self.ev_truth(node.test, st)
        if isinstance(c, bool):
            return self.ev(node.body if c else node.orelse, st)
        nt, nf = self.narrowing(node.test, st) if hasattr(self, "narrowing") else ({}, {})

        def branch(expr, narrowed):
            saved = {k: st.env[k] for k in narrowed if k in st.env}
            st.env.update(narrowed)
            try:
                return self.ev(expr, st)
            finally:
                st.env.update(saved)
        n0 = len(self.pending)
        a = self.with_guard(c, lambda: branch(node.body, nt), n0)
        n1 = len(self.pending)
        b = self.with_guard(z3.Not(c), lambda: branch(node.orelse, nf), n1)
        return self.ite(c, a, b)

    def ev_Compare(self, node, st):
        left = self.ev(node.left, st)
        res = True
        for op, rn in zip(node.ops, node.comparators):
            right = self.ev(rn, st)
            r = self.compare(op, left, right, st)
            if r is False:
                return False
            if r is not True:
                res = r if res is True else z3.And(res, r)
            left = right
        return res if isinstance(res, bool) else wrap(TBool, res)

    def compare(self, op, a, b, st):
        if isinstance(op, (ast.Is, ast.IsNot)):
            r = self.identical(a, b)
            return self.neg(r) if isinstance(op, ast.IsNot) else r
        if isinstance(op, (ast.In, ast.NotIn)):
            r = self.contains(b, a, st)
            return self.neg(r) if isinstance(op, ast.NotIn) else r
        if isinstance(op, (ast.Eq, ast.NotEq)):
            r = self.equal(a, b, st)
            return self.neg(r) if isinstance(op, ast.NotEq) else r
        if is_concrete(a) and is_concrete(b):
            import operator as o
            return {ast.Lt: o.lt, ast.LtE: o.le, ast.Gt: o.gt, ast.GtE: o.ge}[type(op)](a, b)
        if isinstance(a, SV) and a.ty is TNet or isinstance(b, SV) and getattr(b, "ty", None) is TNet:
            raise Unsupported("ordering of networks")
        if type_of(a) is TStr or type_of(b) is TStr:
            x, y = to_term(a), to_term(b)
            return {ast.Lt: x < y, ast.LtE: x <= y, ast.Gt: y < x, ast.GtE: y <= x}[type(op)]
        x, y = to_term(self.as_int(a)), to_term(self.as_int(b))
        return {ast.Lt: x < y, ast.LtE: x <= y, ast.Gt: x > y, ast.GtE: x >= y}[type(op)]

    def neg(self, r):
        return (not r) if isinstance(r, bool) else z3.Not(r)

    def identical(self, a, b):
        if isinstance(a, SOpt) and b is None:
            return a.isnone
        if isinstance(b, SOpt) and a is None:
            return b.isnone
        if a is None or b is None:
            return a is None and b is None
        if isinstance(a, SV) and isinstance(b, SV) and isinstance(a.ty, TObj) and isinstance(b.ty, TObj):
            return a.t == b.t
        if is_concrete(a) and is_concrete(b):
            return a is b or a == b
        raise Unsupported(f"is-comparison of {a!r} and {b!r}")

    def equal(self, a, b, st):
        if is_concrete(a) and is_concrete(b):
            return a == b
        if isinstance(a, SOpt) or isinstance(b, SOpt):
            if a is None or b is None:
                return self.identical(a, b)
            a2, b2 = self.as_opt(a, b), self.as_opt(b, a)
            return z3.Or(z3.And(a2.isnone, b2.isnone),
                         z3.And(z3.Not(a2.isnone), z3.Not(b2.isnone), to_term(a2.val) == to_term(b2.val)))
        if a is None or b is None:
            return False
        if isinstance(a, (SList, list, tuple)) and isinstance(b, (SList, list, tuple)):
            if isinstance(a, (list, tuple)) and isinstance(b, (list, tuple)):
                if len(a) != len(b):
                    return False
                rs = [self.equal(x, y, st) for x, y in zip(a, b)]
                if any(r is False for r in rs):
                    return False
                rs = [r for r in rs if r is not True]
                return z3.And(*rs) if rs else True
            ety = a.ety if isinstance(a, SList) else b.ety
            a, b = self.as_slist(a, ety), self.as_slist(b, ety)
            i = z3.Int(fresh_name("eq"))
            return z3.And(a.n == b.n, z3.ForAll([i], z3.Implies(z3.And(0 <= i, i < a.n), a.a[i] == b.a[i])))
        if isinstance(a, SSet) and isinstance(b, SSet):
            x = z3.Const(fresh_name("se"), sort_of(a.ety))
            return z3.ForAll([x], a.chi[x] == b.chi[x])
        if isinstance(a, SSet) or isinstance(b, SSet):
            s, o = (a, b) if isinstance(a, SSet) else (b, a)
            if isinstance(o, frozenset):
                x = z3.Const(fresh_name("se"), sort_of(s.ety))
                return z3.ForAll([x], s.chi[x] == (z3.Or(*[x == to_term(e) for e in o]) if o else z3.BoolVal(False)))
            return False
        ta, tb = type_of(a), type_of(b)
        if isinstance(ta, TObj) and isinstance(tb, TObj):
            raise Unsupported("== on objects (user __eq__)")
        if ta != tb and not ({ta, tb} <= {TInt, TBool}):
            if isinstance(ta, TTuple) or isinstance(tb, TTuple):
                raise Unsupported("tuple equality")
            return False
        return to_term(self.as_int(a) if ta is not tb else a) == to_term(self.as_int(b) if ta is not tb else b)

    def contains(self, container, x, st):
        if isinstance(container, (list, tuple, frozenset, set)):
            if is_concrete(x) and is_concrete(container):
                return x in container
            rs = [self.equal(x, y, st) for y in container]
            if any(r is True for r in rs):
                return True
            rs = [r for r in rs if r is not False]
            return z3.Or(*rs) if rs else False
        if isinstance(container, dict):
            return self.contains(list(container.keys()), x, st)
        if isinstance(container, SDict):
            return container.dom[to_term(x)]
        if isinstance(container, SList):
            from .spec import mem_term
            return mem_term(container, x)
        if isinstance(container, SSet):
            return container.chi[to_term(x)]
        if isinstance(container, str) or (isinstance(container, SV) and container.ty is TStr):
            return z3.Contains(to_term(container), to_term(x))
        raise Unsupported(f"`in` on {container!r}")

    def set_display(self, node, st):
        raise Unsupported("symbolic set display")

    def dict_lookup(self, d, key, st, strict=False, default=None):
        """lookup of a symbolic key in a concrete-keyed dict -> ite chain"""
        items = list(d.items())
        if not items:
            return default
        res = default
        if strict:
            cond = z3.Or(*[to_term(key) == to_term(k) for k, _ in items])
            self.emit("safe.key", "dict", st, cond)
            res = items[-1][1]
            items = items[:-1]
        for k, v in reversed(items):
            res = self.ite(to_term(key) == to_term(k), v, res)
        return res


class GenExp:
    """an unevaluated generator expression with the state it was written in"""

    def __init__(self, node, st):
        self.node, self.st = node, st


class PathEnd(Exception):
    """The current path cannot continue (a definite failure was reported as an obligation)."""


class CompMixin:
    """comprehensions as specification-level map/filter (order preserved, membership <=> source and condition)"""

    def flatten_comp(self, node, st):
        """[f(x, y) for x in A for y in g(x)] without conditions: fresh list R with index witnesses
        OUT/INN (position -> source indices) and IDX (source indices -> position); order is not modelled"""
        g0, g1 = node.generators
        if g0.ifs or g1.ifs or g0.is_async or g1.is_async:
            raise Unsupported("nested comprehension with conditions")
        outer = self.iter_view(self.ev(g0.iter, st), st)
        if outer[0] == "concrete":
            outer = self.iter_view(self.as_slist(outer[1]), st)
        _, n, elem = outer
        i, j = z3.Int(fresh_name("fi")), z3.Int(fresh_name("fj"))
        sub = st.copy()
        self.assign_target(g0.target, elem(i), sub)
        n_pending = len(self.pending)
        inner = self.iter_view(self.ev(g1.iter, sub), sub)
        if inner[0] == "concrete":
            raise Unsupported("nested comprehension over a concrete inner sequence")
        _, m_i, elem_in = inner
        self.assign_target(g1.target, elem_in(j), sub)
        val = self.ev(node.elt, sub)
        if len(self.pending) != n_pending:
            raise Unsupported("nested comprehension whose parts may raise")
        if not isinstance(val, SV):
            raise Unsupported("nested comprehension of non-scalar elements")
        ety = val.ty
        r = fresh(TList(ety), "flat")
        OUT = z3.Function(fresh_name("flat_out"), z3.IntSort(), z3.IntSort())
        INN = z3.Function(fresh_name("flat_in"), z3.IntSort(), z3.IntSort())
        IDX = z3.Function(fresh_name("flat_idx"), z3.IntSort(), z3.IntSort(), z3.IntSort())
        k = z3.Int(fresh_name("fk"))
        m_at = lambda t: z3.substitute(m_i, (i, t))
        v_at = lambda a, b: z3.substitute(val.t, (i, a), (j, b))
        st.pc = st.pc + (
            r.n >= 0,
            z3.ForAll([k], z3.Implies(z3.And(0 <= k, k < r.n), z3.And(
                0 <= OUT(k), OUT(k) < n, 0 <= INN(k), INN(k) < m_at(OUT(k)), r.a[k] == v_at(OUT(k), INN(k)), IDX(OUT(k), INN(k)) == k)),
                      patterns=[r.a[k]]),
            z3.ForAll([i, j], z3.Implies(z3.And(0 <= i, i < n, 0 <= j, j < m_i), z3.And(
                0 <= IDX(i, j), IDX(i, j) < r.n, OUT(IDX(i, j)) == i, INN(IDX(i, j)) == j, r.a[IDX(i, j)] == val.t)),
                      patterns=[val.t, IDX(i, j)]),
        )
        self.last_flatten = (OUT, INN, IDX)
        return r

    def ev_GeneratorExp(self, node, st):
        """a generator expression is only supported as the argument of any()/all(): kept unevaluated"""
        return GenExp(node, st)

    def quantify_genexp(self, g, universal):
        """all(e for x in L if c) -> forall i. c(i) -> e(i);  any(..) -> exists i. c(i) and e(i)   (nested any/all inside e work the same way)"""
        node, st = g.node, g.st
        if len(node.generators) != 1 or node.generators[0].is_async:
            raise Unsupported("any/all over several generators")
        gen = node.generators[0]
        view = self.iter_view(self.ev(gen.iter, st), st)
        if view[0] == "concrete":
            rs = []
            for x in view[1]:
                sub = st.copy()
                self.assign_target(gen.target, x, sub)
                n_p = len(self.pending)
                cs = [self.ev_truth(c, sub) for c in gen.ifs]
                e = self.ev_truth(node.elt, sub)
                if len(self.pending) != n_p:
                    raise Unsupported("any/all whose element may raise")
                cs = [z3.BoolVal(c) if isinstance(c, bool) else c for c in cs]
                e = z3.BoolVal(e) if isinstance(e, bool) else e
                rs.append(z3.Implies(z3.And(*cs), e) if universal else z3.And(*(cs + [e])) if cs else e)
            if not rs:
                return universal
            return z3.simplify(z3.And(*rs) if universal else z3.Or(*rs))
        _, n, elem = view
        i = z3.Int(fresh_name("gi"))
        sub = st.copy()
        self.assign_target(gen.target, elem(i), sub)
        n_p = len(self.pending)
        cs = [self.ev_truth(c, sub) for c in gen.ifs]
        e = self.ev_truth(node.elt, sub)
        if len(self.pending) != n_p:
            raise Unsupported("any/all whose element may raise")
        cs = [z3.BoolVal(c) if isinstance(c, bool) else c for c in cs]
        e = z3.BoolVal(e) if isinstance(e, bool) else e
        rng = z3.And(0 <= i, i < n, *cs)
        return z3.ForAll([i], z3.Implies(rng, e)) if universal else z3.Exists([i], z3.And(rng, e))

    def ev_ListComp(self, node, st):
        if len(node.generators) == 2:
            return self.flatten_comp(node, st)
        if len(node.generators) != 1 or node.generators[0].is_async:
            raise Unsupported("comprehension with several generators")
        gen = node.generators[0]
        src = self.ev(gen.iter, st)
        view = self.iter_view(src, st)
        if view[0] == "concrete":
            out = []
            symbolic_cond = False
            for x in view[1]:
                sub = st.copy()
                sub.pc = st.pc
                self.assign_target(gen.target, x, sub)
                keep = True
                for c in gen.ifs:
                    t = self.ev_truth(c, sub)
                    if not isinstance(t, bool):
                        symbolic_cond = True
                        break
                    keep = keep and t
                if symbolic_cond:
                    break
                if keep:
                    out.append(self.ev(node.elt, sub))
            if not symbolic_cond:
                return out
            view = self.iter_view(self.as_slist(view[1]), st)
        _, n, elem = view
        i = z3.Int(fresh_name("ci"))
        sub = st.copy()
        self.assign_target(gen.target, elem(i), sub)
        n_pending = len(self.pending)
        conds = [self.ev_truth(c, sub) for c in gen.ifs]
        val = self.ev(node.elt, sub)
        if len(self.pending) != n_pending:
            raise Unsupported("comprehension whose element or condition may raise")
        if isinstance(val, (tuple, list, SList, SOpt)):
            raise Unsupported("comprehension of non-scalar elements")
        ety = type_of(val)
        f_i = to_term(val)
        conds = [c for c in conds if c is not True]
        if any(c is False for c in conds):
            return []
        n = z3.If(n > 0, n, 0) if not z3.is_int_value(z3.simplify(n)) else z3.simplify(n)
        if not conds:
            return SList(ety, n, z3.Lambda([i], f_i))
        c_i = z3.And(*conds) if len(conds) > 1 else conds[0]
        r = fresh(TList(ety), "comp")
        srcf = z3.Function(fresh_name("comp_src"), z3.IntSort(), z3.IntSort())
        invf = z3.Function(fresh_name("comp_inv"), z3.IntSort(), z3.IntSort())
        j, j2 = z3.Int(fresh_name("cj")), z3.Int(fresh_name("cj"))
        f_at = lambda t: z3.substitute(f_i, (i, t))
        c_at = lambda t: z3.substitute(c_i, (i, t))
        st.pc = st.pc + (
            r.n >= 0, r.n <= n,
            z3.ForAll([j], z3.Implies(z3.And(0 <= j, j < r.n),
                                      z3.And(0 <= srcf(j), srcf(j) < n, c_at(srcf(j)), r.a[j] == f_at(srcf(j)), invf(srcf(j)) == j))),
            z3.ForAll([j, j2], z3.Implies(z3.And(0 <= j, j < j2, j2 < r.n), srcf(j) < srcf(j2))),
            z3.ForAll([i], z3.Implies(z3.And(0 <= i, i < n, c_i), z3.And(0 <= invf(i), invf(i) < r.n, srcf(invf(i)) == i))),
            # ground instance for `if [.. comprehension ..]:` (a non-empty result has a first element)
            z3.Implies(r.n > 0, z3.And(0 <= srcf(0), srcf(0) < n, c_at(srcf(0)), r.a[0] == f_at(srcf(0)))),
        )
        return r
