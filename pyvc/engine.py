"""pyvc.engine - symbolic execution of real function ASTs against sidecar contracts -> proof obligations.

Forward symbolic execution with path splitting; loops are cut at their invariants; calls are replaced by the
callee's contract (assert pre / havoc frame / assume post) or, for functions marked inline and for trivial
property accessors, executed symbolically; exceptions are alternative outcomes.
"""
from __future__ import annotations

import ast
from dataclasses import dataclass, field

import z3

from . import loader, contract as C
from .values import (Sym, SV, TBV, SList, SSet, SOpt, FuncRef, ModuleRef, ClassRef, Opaque, Unsupported, TInt, TBool, TStr,
                     TNet, TNone, TObj, TList, TSet, TOpt, TTuple, TDict, Net, fresh, fresh_name, type_constraints, type_of,
                     to_term, wrap, sort_of, is_concrete, list_from_concrete, default_term)

EXC_PARENTS = {
    "NetmaskValueError": "ValueError", "AddressValueError": "ValueError", "ValueError": "Exception",
    "TypeError": "Exception", "IndexError": "LookupError", "KeyError": "LookupError", "LookupError": "Exception",
    "RecursionError": "RuntimeError", "RuntimeError": "Exception", "AttributeError": "Exception",
    "Exception": "BaseException", "StopIteration": "Exception", "ZeroDivisionError": "ArithmeticError",
    "ArithmeticError": "Exception", "UnboundLocalError": "Exception",
}


def exc_subclass(e: str, parent: str) -> bool:
    while e:
        if e == parent:
            return True
        e = EXC_PARENTS.get(e, "")
    return False


CLASS_IDS: dict = {}


def class_id(name: str) -> int:
    if not CLASS_IDS:
        for i, c in enumerate(sorted(loader.all_classes()), start=1):
            CLASS_IDS[c] = i
    return CLASS_IDS[name]


# ----------------------------------------------------------------------------------------------
# state
# ----------------------------------------------------------------------------------------------


class State:
    __slots__ = ("env", "pc", "heap", "log", "ghost")

    def __init__(self, env=None, pc=(), heap=None, log=(), ghost=None):
        self.env = env if env is not None else {}
        self.pc = tuple(pc)
        self.heap = heap if heap is not None else {}
        self.log = tuple(log)        # ghost: records appended by logging.* ((level, message value), ...)
        self.ghost = ghost if ghost is not None else {}

    def copy(self):
        return State(dict(self.env), self.pc, dict(self.heap), self.log, dict(self.ghost))

    def assume(self, *conds):
        st = self.copy()
        add = []
        for c in conds:
            if c is True:
                continue
            if isinstance(c, SV):
                c = c.t
            if c is False:
                c = z3.BoolVal(False)
            add.append(c)
        st.pc = st.pc + tuple(add)
        return st


@dataclass
class Outcome:
    kind: str            # "normal" | "return" | "raise" | "break" | "continue"
    state: State
    value: object = None  # return value / exception class name
    info: object = None   # for raise: message value (opaque)


@dataclass
class Obligation:
    oid: str
    kind: str
    hyps: tuple
    goal: object
    target: str
    probes: dict = field(default_factory=dict)   # name -> z3 term (evaluated in a counter-model)
    note: str = ""
    result: str = ""      # PROVED | REFUTED | UNKNOWN
    solver: str = ""
    seconds: float = 0.0
    model: dict = field(default_factory=dict)
    expect: str = "unsat"  # "unsat" (must hold) | "sat" (vacuity canary / cover: must be satisfiable)
    depends: tuple = ()    # oids of hint obligations whose goals were assumed for this one
    n_hints: int = 0       # the last n_hints hypotheses are proved hints (tried first, alone, by the solver portfolio)


class TaggedHint:
    """a proof hint meant for some conjuncts of the goal only (clause numbers as in the obligation ids `label.N`)"""

    def __init__(self, formula, clauses):
        self.formula, self.clauses = formula, tuple(clauses)


class Ctx:
    """What clause bodies see: heap access in the current and the entry state."""

    def __init__(self, eng, st, old=None):
        self.eng, self.st, self._old = eng, st, old

    def get(self, obj, fieldname):
        return self.eng.heap_read(self.st, obj, fieldname)

    @property
    def old(self):
        return Ctx(self.eng, self._old if self._old is not None else self.st)

    def isinstance(self, obj, clsname):
        return self.eng.isinstance_term(self.st, obj, clsname)

    def heap_array(self, key, part=None):
        return self.eng.heap_array(self.st, key, part)

    def logged(self):
        return self.st.log

    def entry(self, name):
        """value of a parameter/variable at function entry (for loop invariants that relate to the initial value)"""
        return self.eng.entry_state.env[name]


class Vars:
    """current values of the local variables as seen by invariants (concrete lists are shown as symbolic lists)"""
    types = {}

    def __init__(self, env):
        self._env = env

    def __getattr__(self, name):
        try:
            v = self._env[name]
        except KeyError:
            raise AttributeError(name)
        if isinstance(v, dict) and not v and isinstance(Vars.types.get(name), TDict):
            ty = Vars.types[name]
            from .values import SDict, default_term
            ks = sort_of(ty.key)
            return SDict(ty.key, ty.val, z3.K(ks, z3.BoolVal(False)), z3.K(ks, default_term(ty.val)))
        if isinstance(v, list) and all(not isinstance(x, (list, tuple, dict)) for x in v):
            ty = Vars.types.get(name)
            if v or ty is not None:
                return list_from_concrete(v, ty.elem if ty is not None else None)
        return v


# ----------------------------------------------------------------------------------------------
# engine
# ----------------------------------------------------------------------------------------------


class Engine:
    def __init__(self, feasibility_ms=300):
        self.obligations: list = []
        self.feasibility_ms = feasibility_ms
        self.current = None          # (contract, modname, fn, cls)
        self.unsupported: list = []
        self.call_depth = 0
        self.loop_ordinal = 0
        self.paths = 0
        self.guard_stack = []

    # ------------------------------------------------------------------ obligations
    def emit(self, kind, label, st, goal, note="", expect="unsat", hyps_extra=(), split=True, depends=()):
        con = self.current[0]
        if isinstance(goal, SV):
            goal = goal.t
        if isinstance(goal, bool):
            goal = z3.BoolVal(goal)
        if expect == "unsat" and z3.is_and(goal) and goal.num_args() > 1 and split:
            obs = [self.emit(kind, f"{label}.{i}", st, g, note, expect, hyps_extra, depends=depends) for i, g in enumerate(goal.children())]
            return obs[0]
        oid = f"{con.target}/{kind}[{label}]"
        n = sum(1 for o in self.obligations if o.oid == oid or o.oid.startswith(oid + "#"))
        if n:
            oid = f"{oid}#{n}"
        ob = Obligation(oid=oid, kind=kind, hyps=tuple(st.pc) + tuple(self.guard_stack) + tuple(hyps_extra), goal=goal, target=con.target,
                        probes=dict(self.current_probes), note=note, expect=expect, depends=tuple(depends), n_hints=len(hyps_extra))
        self.obligations.append(ob)
        return ob

    def emit_with_hints(self, kind, label, st, goal, hints, note=""):
        """prove each hint from the path condition and the earlier hints, then the goal from all of them; a hint tagged with
        clause numbers (TaggedHint) is handed only to those conjuncts of the goal"""
        extra, deps, tags = [], [], []
        from .spec import Instance
        for n_, h in enumerate(hints):
            tag = None
            if isinstance(h, TaggedHint):
                h, tag = h.formula, h.clauses
            tags.append(tag)
            if isinstance(h, Instance):
                def conjuncts(f):
                    if z3.is_and(f):
                        for c in f.children():
                            yield from conjuncts(c)
                    else:
                        yield f
                if any(z3.eq(h.forall, c) for f in st.pc if z3.is_expr(f) for c in conjuncts(f)):
                    extra.append(h.formula)      # instance of a hypothesis: sound without a proof of its own
                    deps.append(None)
                    continue
                h = h.formula
            if isinstance(h, SV):
                h = h.t
            ob = self.emit("hint", f"{label}.h{n_}", st, h, hyps_extra=tuple(extra), split=False, depends=tuple(d for d in deps if d))
            deps.append(ob.oid)
            extra.append(h)
        if isinstance(goal, SV):
            goal = goal.t
        if any(t is not None for t in tags) and z3.is_expr(goal) and z3.is_and(goal) and goal.num_args() > 1:
            first = None
            for i, g in enumerate(goal.children()):
                sel = [j for j in range(len(extra)) if tags[j] is None or i in tags[j]]
                ob = self.emit(kind, f"{label}.{i}", st, g, note=note, hyps_extra=tuple(extra[j] for j in sel),
                               depends=tuple(deps[j] for j in sel if deps[j]))
                first = first or ob
            return first
        return self.emit(kind, label, st, goal, note=note, hyps_extra=tuple(extra), depends=tuple(d for d in deps if d))

    def assume_here(self, st, cond):
        """add a fact that holds at the current evaluation point (under the guards of enclosing and/or/if-expressions)"""
        if self.guard_stack:
            cond = z3.Implies(z3.And(*self.guard_stack), cond)
        st.pc = st.pc + (cond,)

    def feasible(self, st) -> bool:
        if not st.pc:
            return True
        s = z3.Solver()
        s.set("timeout", self.feasibility_ms)
        s.add(*st.pc)
        return s.check() != z3.unsat

    # ------------------------------------------------------------------ heap
    def field_type(self, cls, fieldname):
        for c in loader.mro(cls) if cls in loader.all_classes() else (cls,):
            sch = C.SCHEMAS.get(c)
            if sch and fieldname in sch:
                return c, sch[fieldname]
        # fields declared on subclasses (after isinstance narrowing the static type is already the subclass)
        return None

    def heap_key(self, cls, fieldname):
        r = self.field_type(cls, fieldname)
        if r is None:
            raise Unsupported(f"no schema for field {cls}.{fieldname}")
        return f"{r[0]}.{fieldname}", r[1]

    def heap_array(self, st, key, part=None):
        """current map of heap key ("Class.field"); list fields have two parts: 'len' and 'arr'"""
        k = key if part is None else f"{key}#{part}"
        if k not in st.heap:
            cls, f = key.split(".")
            ty = C.SCHEMAS[cls][f]
            if isinstance(ty, TList):
                srt = z3.IntSort() if part == "len" else z3.ArraySort(z3.IntSort(), sort_of(ty.elem))
            elif isinstance(ty, TOpt):
                srt = z3.BoolSort() if part == "isnone" else sort_of(ty.inner)
            else:
                srt = sort_of(ty)
            st.heap[k] = z3.Const(f"H0_{k}", z3.ArraySort(z3.IntSort(), srt))
            if part == "len":
                o = z3.Int("o!len")
                st.pc = st.pc + (z3.ForAll([o], st.heap[k][o] >= 0),)
        return st.heap[k]

    def heap_read(self, st, obj, fieldname):
        if not isinstance(obj, SV) or not isinstance(obj.ty, TObj):
            raise Unsupported(f"field read .{fieldname} on {obj!r}")
        key, ty = self.heap_key(obj.ty.cls, fieldname)
        if isinstance(ty, TList):
            return SList(ty.elem, self.heap_array(st, key, "len")[obj.t], self.heap_array(st, key, "arr")[obj.t])
        if isinstance(ty, TOpt):
            inner = ty.inner
            return SOpt(inner, self.heap_array(st, key, "isnone")[obj.t], wrap(inner, self.heap_array(st, key, "val")[obj.t]))
        return wrap(ty, self.heap_array(st, key)[obj.t])

    def heap_write(self, st, obj, fieldname, value):
        key, ty = self.heap_key(obj.ty.cls, fieldname)
        self.check_frame(st, key)
        if isinstance(ty, TList):
            v = self.as_slist(value, ty.elem)
            st.heap[f"{key}#len"] = z3.Store(self.heap_array(st, key, "len"), obj.t, v.n)
            st.heap[f"{key}#arr"] = z3.Store(self.heap_array(st, key, "arr"), obj.t, v.a)
        elif isinstance(ty, TOpt):
            if value is None:
                st.heap[f"{key}#isnone"] = z3.Store(self.heap_array(st, key, "isnone"), obj.t, z3.BoolVal(True))
            elif isinstance(value, SOpt):
                st.heap[f"{key}#isnone"] = z3.Store(self.heap_array(st, key, "isnone"), obj.t, value.isnone)
                st.heap[f"{key}#val"] = z3.Store(self.heap_array(st, key, "val"), obj.t, to_term(value.val))
            else:
                st.heap[f"{key}#isnone"] = z3.Store(self.heap_array(st, key, "isnone"), obj.t, z3.BoolVal(False))
                st.heap[f"{key}#val"] = z3.Store(self.heap_array(st, key, "val"), obj.t, to_term(value))
        else:
            st.heap[key] = z3.Store(self.heap_array(st, key), obj.t, self.coerce_term(value, ty))

    def coerce_term(self, value, ty):
        if ty is TBool and not isinstance(value, (bool,)) and not (isinstance(value, SV) and value.ty is TBool):
            return to_term(self.truthy(value))
        return to_term(value)

    def check_frame(self, st, key):
        con = self.current[0]
        if key not in con.modifies and "*" not in con.modifies:
            self.emit("frame", key, st, False, note=f"write to {key} outside the declared frame {con.modifies}")
        for label, frame in getattr(self, "loop_frames", []):
            if key not in frame:
                self.emit("frame", f"{label}:{key}", st, False, note=f"write to {key} inside {label}, whose declared frame is {frame}")

    def heap_keys_parts(self, key):
        cls, f = key.split(".")
        ty = C.SCHEMAS[cls][f]
        if isinstance(ty, TList):
            return [f"{key}#len", f"{key}#arr"]
        if isinstance(ty, TOpt):
            return [f"{key}#isnone", f"{key}#val"]
        return [key]

    def havoc_heap(self, st, keys):
        for key in keys:
            for k in self.heap_keys_parts(key):
                part = k.split("#")[1] if "#" in k else None
                cur = self.heap_array(st, key, part)
                st.heap[k] = z3.Const(fresh_name(f"H_{k}"), cur.sort())
                if part == "len":
                    o = z3.Int("o!len")
                    st.pc = st.pc + (z3.ForAll([o], st.heap[k][o] >= 0),)

    def class_tag(self, st, obj):
        if "__class__" not in st.heap:
            st.heap["__class__"] = z3.Const("H0___class__", z3.ArraySort(z3.IntSort(), z3.IntSort()))
        return st.heap["__class__"][obj.t]

    def isinstance_term(self, st, obj, clsname):
        ids = [class_id(c) for c in loader.subclasses(clsname)]
        tag = self.class_tag(st, obj)
        return z3.Or(*[tag == i for i in ids]) if ids else z3.BoolVal(False)

    # ------------------------------------------------------------------ helpers on values
    def truthy(self, v):
        """Python truthiness as python bool or z3 Bool"""
        if isinstance(v, SV):
            if v.ty is TBool:
                return v.t
            if v.ty is TInt:
                return v.t != 0
            if v.ty is TStr:
                return z3.Length(v.t) > 0
            if isinstance(v.ty, TObj) or v.ty is TNet:
                return True
            if v.ty is TBV:
                return v.t != 0
            raise Unsupported(f"truthiness of a value of type {v.ty}")
        if isinstance(v, SList):
            return v.n > 0
        if isinstance(v, SSet):
            x = z3.Const(fresh_name("w"), sort_of(v.ety))
            return z3.Exists([x], v.chi[x])
        if isinstance(v, SOpt):
            inner = self.truthy(v.val)
            return z3.And(z3.Not(v.isnone), to_term(inner) if not z3.is_expr(inner) else inner)
        if isinstance(v, Opaque):
            raise Unsupported(f"truthiness of {v}")
        if isinstance(v, (FuncRef, ModuleRef, ClassRef)):
            return True
        if z3.is_expr(v):
            return v
        if isinstance(v, Sym):
            raise Unsupported(f"truthiness of {type(v).__name__}")
        return bool(v)

    def as_slist(self, v, ety=None):
        if isinstance(v, SList):
            return v
        if isinstance(v, (list, tuple)):
            return list_from_concrete(list(v), ety)
        raise Unsupported(f"as_slist({v!r})")

    def ite(self, c, a, b):
        """merge two values of the same type under condition c (z3 Bool)"""
        if c is True:
            return a
        if c is False:
            return b
        if a is b:
            return a
        if isinstance(a, (SList, list)) and isinstance(b, (SList, list)):
            if isinstance(a, list) and isinstance(b, list) and not a and not b:
                return a
            ety = a.ety if isinstance(a, SList) else (b.ety if isinstance(b, SList) else None)
            a, b = self.as_slist(a, ety), self.as_slist(b, ety)
            return SList(a.ety, z3.If(c, a.n, b.n), z3.If(c, a.a, b.a))
        if isinstance(a, SOpt) or isinstance(b, SOpt) or a is None or b is None:
            a, b = self.as_opt(a, b), self.as_opt(b, a)
            return SOpt(a.inner, z3.If(c, a.isnone, b.isnone), wrap(a.inner, z3.If(c, to_term(a.val), to_term(b.val))))
        if isinstance(a, tuple) and isinstance(b, tuple) and len(a) == len(b):
            return tuple(self.ite(c, x, y) for x, y in zip(a, b))
        ta, tb = type_of(a), type_of(b)
        if ta is TBool and tb is TBool or ta is TInt and tb is TInt or ta is TStr and tb is TStr or ta == tb:
            return wrap(ta, z3.If(c, to_term(a), to_term(b)))
        raise Unsupported(f"ite of {ta} and {tb}")

    def as_opt(self, v, other):
        if isinstance(v, SOpt):
            return v
        if v is None:
            inner = other.inner if isinstance(other, SOpt) else type_of(other)
            return SOpt(inner, z3.BoolVal(True), wrap(inner, default_term(inner)))
        return SOpt(type_of(v), z3.BoolVal(False), v)
