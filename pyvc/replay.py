"""Re-execute a recorded violation: the replay file carries a python snippet that exits 1 while the violation persists."""
import json
import os
import subprocess
import sys

ROOT = os.path.dirname(os.path.dirname(os.path.abspath(__file__)))


def main():
    path = sys.argv[1]
    if not os.path.isabs(path):
        path = os.path.join(ROOT, path)
    data = json.load(open(path))
    print(json.dumps({k: data[k] for k in data if k not in ("replay_py",)}, indent=1, default=str)[:3000])
    code = data.get("replay_cmd")
    if not code:
        print("no executable replay recorded (the verifier gave no failing input); obligation:", data.get("obligation"))
        sys.exit(2)
    r = subprocess.run([sys.executable, "-c", code], cwd=ROOT, env={**os.environ, "PYTHONPATH": ROOT})
    print("replay exit code", r.returncode, "(1 = violation reproduced, 0 = not reproduced)")
    sys.exit(r.returncode)


if __name__ == "__main__":
    main()
