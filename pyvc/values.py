"""pyvc.values - types and symbolic values of the VC generator.

A value is either a concrete Python value (int, bool, str, None, tuple, list, dict, frozenset of values)
or one of the symbolic wrappers below.  Lists are (length, array) pairs, sets are characteristic functions,
objects are integer references into field maps (Boogie-style heap).
"""
from __future__ import annotations

import itertools
import z3

# ----------------------------------------------------------------------------------------------
# types
# ----------------------------------------------------------------------------------------------


class Ty:
    def __repr__(self):
        return self.__class__.__name__


class _TInt(Ty):
    pass


class _TBool(Ty):
    pass


class _TStr(Ty):
    pass


class _TNet(Ty):
    pass


class _TNone(Ty):
    pass


class _TBV(Ty):
    """machine-range integer handled as a bit vector (operands of & | ^ ~ <<); width BVW, values < 2^(BVW-1)"""


BVW = 64
TInt, TBool, TStr, TNet, TNone, TBV = _TInt(), _TBool(), _TStr(), _TNet(), _TNone(), _TBV()


class TObj(Ty):
    def __init__(self, cls):
        self.cls = cls

    def __repr__(self):
        return f"TObj({self.cls})"

    def __eq__(self, o):
        return isinstance(o, TObj) and o.cls == self.cls

    def __hash__(self):
        return hash(("TObj", self.cls))


class TList(Ty):
    def __init__(self, elem):
        self.elem = elem

    def __repr__(self):
        return f"TList({self.elem})"

    def __eq__(self, o):
        return isinstance(o, TList) and o.elem == self.elem

    def __hash__(self):
        return hash(("TList", self.elem))


class TSet(Ty):
    def __init__(self, elem):
        self.elem = elem

    def __repr__(self):
        return f"TSet({self.elem})"

    def __eq__(self, o):
        return isinstance(o, TSet) and o.elem == self.elem

    def __hash__(self):
        return hash(("TSet", self.elem))


class TOpt(Ty):
    def __init__(self, inner):
        self.inner = inner

    def __repr__(self):
        return f"TOpt({self.inner})"

    def __eq__(self, o):
        return isinstance(o, TOpt) and o.inner == self.inner

    def __hash__(self):
        return hash(("TOpt", self.inner))


class TTuple(Ty):
    def __init__(self, *elems):
        self.elems = tuple(elems)

    def __repr__(self):
        return f"TTuple{self.elems}"


class TDict(Ty):
    """Symbolic dict str/int -> scalar with insertion order (keys list + value map)."""

    def __init__(self, key, val):
        self.key, self.val = key, val

    def __repr__(self):
        return f"TDict({self.key},{self.val})"


# Net = IPv4Network abstract value (network address as integer 0..2^32-1, prefix length 0..32)
Net = z3.Datatype("Net")
Net.declare("mk_net", ("addr", z3.BitVecSort(64)), ("plen", z3.IntSort()))
Net = Net.create()


def sort_of(ty: Ty):
    if ty is TInt:
        return z3.IntSort()
    if ty is TBool:
        return z3.BoolSort()
    if ty is TStr:
        return z3.StringSort()
    if ty is TNet:
        return Net
    if ty is TBV:
        return z3.BitVecSort(BVW)
    if isinstance(ty, TObj):
        return z3.IntSort()
    if isinstance(ty, TList):
        return list_sort(ty.elem)      # a list as an *element* of another list: datatype (length, array)
    if isinstance(ty, TSet):
        return z3.ArraySort(sort_of(ty.elem), z3.BoolSort())
    raise Unsupported(f"no SMT sort for {ty}")


_LIST_SORTS = {}


def list_sort(ety):
    """datatype of lists of ety used where a list is itself an element (list of lists): mk(len, arr)"""
    key = repr(ety)
    if key not in _LIST_SORTS:
        d = z3.Datatype("ListOf_" + "".join(ch if ch.isalnum() else "_" for ch in key))
        d.declare("mk", ("len", z3.IntSort()), ("arr", z3.ArraySort(z3.IntSort(), sort_of(ety))))
        _LIST_SORTS[key] = d.create()
    return _LIST_SORTS[key]


class Unsupported(Exception):
    """Construct outside pyvc's subset: the target becomes UNSUPPORTED (undecided, never a violation)."""


_counter = itertools.count()


def fresh_name(base: str) -> str:
    return f"{base}!{next(_counter)}"


# ----------------------------------------------------------------------------------------------
# symbolic values
# ----------------------------------------------------------------------------------------------


class Sym:
    pass


class SV(Sym):
    """Symbolic scalar: Int, Bool, Str, Net or object reference."""

    __slots__ = ("ty", "t")

    def __init__(self, ty, t):
        self.ty, self.t = ty, t

    def __repr__(self):
        return f"SV({self.ty},{self.t})"


class SList(Sym):
    __slots__ = ("ety", "n", "a")

    def __init__(self, ety, n, a):
        self.ety, self.n, self.a = ety, n, a

    @property
    def ty(self):
        return TList(self.ety)

    def __repr__(self):
        return f"SList({self.ety},{self.n},{self.a})"


class SSet(Sym):
    __slots__ = ("ety", "chi", "elems")

    def __init__(self, ety, chi, elems=None):
        self.ety, self.chi = ety, chi
        self.elems = elems        # terms of a finite explicit set {e1, .., ek} (then chi[x] <=> x is one of them), else None

    @property
    def ty(self):
        return TSet(self.ety)


class SOpt(Sym):
    """Optional[T]: isnone flag + value of T (meaningful when not none)."""

    __slots__ = ("inner", "isnone", "val")

    def __init__(self, inner, isnone, val):
        self.inner, self.isnone, self.val = inner, isnone, val

    @property
    def ty(self):
        return TOpt(self.inner)


class SDict(Sym):
    """symbolic dict K -> V as (domain, map); insertion order is carried by a separate key list when iterated"""
    __slots__ = ("kty", "vty", "dom", "map", "keys")

    def __init__(self, kty, vty, dom, map_, keys=None):
        self.kty, self.vty, self.dom, self.map, self.keys = kty, vty, dom, map_, keys

    @property
    def ty(self):
        return TDict(self.kty, self.vty)


class FuncRef:
    """Reference to a callable: a repository function (by qualified name) or a bound method."""

    def __init__(self, qualname, bound_self=None, raw=False):
        self.qualname, self.bound_self, self.raw = qualname, bound_self, raw

    def __repr__(self):
        return f"FuncRef({self.qualname})"


class ModuleRef:
    def __init__(self, name):
        self.name = name

    def __repr__(self):
        return f"ModuleRef({self.name})"


class ClassRef:
    def __init__(self, name):
        self.name = name

    def __repr__(self):
        return f"ClassRef({self.name})"


class Opaque(Sym):
    """A value the engine carries around but cannot inspect (e.g. a message string built by an f-string)."""

    def __init__(self, what="", parts=()):
        self.what, self.parts = what, tuple(parts)

    def __repr__(self):
        return f"Opaque({self.what})"


def fresh(ty: Ty, base: str):
    """Fresh unconstrained symbolic value of type ty."""
    if ty in (TInt, TBool, TStr, TNet, TBV) or isinstance(ty, TObj):
        return SV(ty, z3.Const(fresh_name(base), sort_of(ty)))
    if isinstance(ty, TList):
        return SList(ty.elem, z3.Int(fresh_name(base + "_len")),
                     z3.Const(fresh_name(base + "_arr"), z3.ArraySort(z3.IntSort(), sort_of(ty.elem))))
    if isinstance(ty, TSet):
        return SSet(ty.elem, z3.Const(fresh_name(base + "_set"), sort_of(ty)))
    if isinstance(ty, TOpt):
        return SOpt(ty.inner, z3.Bool(fresh_name(base + "_isnone")), fresh(ty.inner, base + "_val"))
    if isinstance(ty, TTuple):
        return tuple(fresh(t, f"{base}_{i}") for i, t in enumerate(ty.elems))
    if isinstance(ty, TDict):
        ks, vs = sort_of(ty.key), sort_of(ty.val)
        return SDict(ty.key, ty.val, z3.Const(fresh_name(base + "_dom"), z3.ArraySort(ks, z3.BoolSort())),
                     z3.Const(fresh_name(base + "_map"), z3.ArraySort(ks, vs)), fresh(TList(ty.key), base + "_keys"))
    if ty is TNone:
        return None
    raise Unsupported(f"fresh({ty})")


def type_constraints(v) -> list:
    """Well-formedness facts of a fresh value (lengths are >= 0, nets are well-formed)."""
    out = []
    if isinstance(v, SList):
        out.append(v.n >= 0)
        if isinstance(v.ety, TList):
            i = z3.Int(fresh_name("wf_i"))
            out.append(z3.ForAll([i], list_sort(v.ety.elem).len(v.a[i]) >= 0))
        if v.ety is TNet:
            i = z3.Int(fresh_name("wf_i"))
            out.append(z3.ForAll([i], wf_net(v.a[i])))
    elif isinstance(v, SV) and v.ty is TNet:
        out.append(wf_net(v.t))
    elif isinstance(v, SOpt):
        out.extend(type_constraints(v.val))
    elif isinstance(v, tuple):
        for x in v:
            out.extend(type_constraints(x))
    elif isinstance(v, SDict) and v.keys is not None:
        # the key list enumerates the domain without repetition (insertion order)
        i, j = z3.Int(fresh_name("dk_i")), z3.Int(fresh_name("dk_j"))
        x = z3.Const(fresh_name("dk_x"), sort_of(v.kty))
        idx = z3.Function(fresh_name("dk_idx"), sort_of(v.kty), z3.IntSort())
        out += [v.keys.n >= 0,
                z3.ForAll([i], z3.Implies(z3.And(0 <= i, i < v.keys.n), z3.And(v.dom[v.keys.a[i]], idx(v.keys.a[i]) == i))),
                z3.ForAll([x], z3.Implies(v.dom[x], z3.And(0 <= idx(x), idx(x) < v.keys.n, v.keys.a[idx(x)] == x)))]
    return out


def wf_net(t):
    return z3.And(Net.plen(t) >= 0, Net.plen(t) <= 32, z3.ULE(Net.addr(t), 0xFFFFFFFF))


def type_of(v) -> Ty:
    if isinstance(v, bool):
        return TBool
    if isinstance(v, int):
        return TInt
    if isinstance(v, str):
        return TStr
    if v is None:
        return TNone
    if isinstance(v, (SV, SList, SSet, SOpt, SDict)):
        return v.ty
    if isinstance(v, tuple):
        return TTuple(*[type_of(x) for x in v])
    if isinstance(v, list):
        if v:
            return TList(type_of(v[0]))
        return TList(TInt)
    raise Unsupported(f"type_of({v!r})")


def to_term(v, ty=None):
    """z3 term of a scalar value (concrete or symbolic)."""
    if isinstance(v, SV):
        return v.t
    if isinstance(v, bool):
        return z3.BoolVal(v)
    if isinstance(v, int):
        return z3.IntVal(v)
    if isinstance(v, str):
        return z3.StringVal(v)
    if z3.is_expr(v):
        return v
    if isinstance(v, SList):
        return list_sort(v.ety).mk(v.n, v.a)
    if isinstance(v, (list, tuple)) and (ty is not None or v):
        L = list_from_concrete(list(v), ty.elem if isinstance(ty, TList) else None)
        return list_sort(L.ety).mk(L.n, L.a)
    raise Unsupported(f"to_term({v!r})")


def is_concrete(v) -> bool:
    if isinstance(v, Sym):
        return False
    if isinstance(v, (tuple, list, frozenset, set)):
        return all(is_concrete(x) for x in v)
    if isinstance(v, dict):
        return all(is_concrete(x) for x in v.values())
    return True


def list_from_concrete(items: list, ety=None) -> SList:
    """Turn a Python list of scalar values into an SList (array built by stores)."""
    if ety is None:
        ety = type_of(items[0]) if items else TInt
    arr = z3.K(z3.IntSort(), default_term(ety))
    for i, x in enumerate(items):
        arr = z3.Store(arr, i, to_term(x))
    return SList(ety, z3.IntVal(len(items)), arr)


def default_term(ty):
    if ty is TInt or isinstance(ty, TObj):
        return z3.IntVal(0)
    if ty is TBool:
        return z3.BoolVal(False)
    if ty is TStr:
        return z3.StringVal("")
    if ty is TNet:
        return Net.mk_net(z3.BitVecVal(0, 64), 0)
    if isinstance(ty, TList):
        return list_sort(ty.elem).mk(z3.IntVal(0), z3.K(z3.IntSort(), default_term(ty.elem)))
    raise Unsupported(f"default_term({ty})")


def wrap(ty, t):
    """Wrap a z3 term of element type ty as a value; constants are folded back to Python values."""
    if isinstance(ty, TList):
        ls = list_sort(ty.elem)
        return SList(ty.elem, ls.len(t), ls.arr(t))
    if ty in (TInt, TBool, TStr):
        t = z3.simplify(t) if z3.is_expr(t) else t
        if z3.is_int_value(t):
            return t.as_long()
        if z3.is_true(t):
            return True
        if z3.is_false(t):
            return False
        if z3.is_string_value(t):
            return t.as_string()
    return SV(ty, t)


# BIT(w, p): bit p of the machine word w, as an *uninterpreted* predicate in the list-level VCs (positions are Ints,
# words are bit vectors; the lemma layer defines it by the 32-way macro - never int2bv)
BIT = z3.Function("BIT", z3.BitVecSort(BVW), z3.IntSort(), z3.BoolSort())
# BIT(w, p): bit p of word w with an Int position p.  In list-level VCs it is used uninterpreted (only its argument
# structure matters there); its definition `bit_macro` is the bridge used by the word-level VCs and the lemma layer.


def bit_macro(w, p, width=32):
    """definition of BIT(w, p): the `width`-way macro (false outside 0..width-1); never int2bv"""
    if isinstance(p, int):
        return z3.Extract(p, p, w) == 1 if 0 <= p < width else z3.BoolVal(False)
    return z3.Or(*[z3.And(p == c, z3.Extract(c, c, w) == 1) for c in range(width)])


def bit_definition(words, width=32):
    """the definitional axiom BIT(w, p) == bit_macro(w, p) instantiated for the given word terms"""
    p = z3.Int("p!bitdef")
    return [z3.ForAll([p], BIT(w, p) == bit_macro(w, p, width)) for w in words]


class BitStr(Sym):
    """format(w, "032b"): the 32-character binary text of w (most significant bit first)"""

    def __init__(self, w, width):
        self.w, self.width = w, width


class BitChar(Sym):
    """one character of a BitStr: '1' iff BIT(w, pos)"""

    def __init__(self, w, pos):
        self.w, self.pos = w, pos


def netmask_of(plen):
    """netmask word of a prefix length given as Int: 33-way macro"""
    t = z3.BitVecVal(0, BVW)
    for c in range(32, -1, -1):
        t = z3.If(plen == c, z3.BitVecVal((0xFFFFFFFF << (32 - c)) & 0xFFFFFFFF, BVW), t)
    return t


POW2 = z3.Function("pow2", z3.IntSort(), z3.IntSort())
TBIT = z3.Function("tuple_bit", z3.IntSort(), z3.IntSort(), z3.IntSort())   # TBIT(t, p): bit p of the index t of a 0/1 tuple
IP_OK = z3.Function("ipv4_text_ok", z3.StringSort(), z3.BoolSort())
IP_PARSE = z3.Function("ipv4_text_value", z3.StringSort(), z3.BitVecSort(BVW))
WS_LEN = z3.Function("ws_split_len", z3.StringSort(), z3.IntSort())
WS_ARR = z3.Function("ws_split_arr", z3.StringSort(), z3.ArraySort(z3.IntSort(), z3.StringSort()))


class ObjDict(Sym):
    """obj.__dict__ of a heap object"""

    def __init__(self, obj):
        self.obj = obj


class Snapshot(Sym):
    """obj.__dict__.copy(): the values of all fields of one object at some moment"""

    def __init__(self, obj, heap):
        self.obj, self.heap = obj, dict(heap)
JOIN_SP = z3.Function("join_space", z3.ArraySort(z3.IntSort(), z3.StringSort()), z3.IntSort(), z3.StringSort())
CSV_LEN = z3.Function("csv_len", z3.StringSort(), z3.IntSort())
CSV_ARR = z3.Function("csv_arr", z3.StringSort(), z3.ArraySort(z3.IntSort(), z3.StringSort()))
# shaped strings for the range codec: decimal text of n, and the text "a-b" (uninterpreted: only their decoding matters)
NUMSTR = z3.Function("decimal_text", z3.IntSort(), z3.StringSort())
RNGSTR = z3.Function("range_text", z3.IntSort(), z3.IntSort(), z3.StringSort())
ISDIGIT = z3.Function("text_isdigit", z3.StringSort(), z3.BoolSort())
STRINT = z3.Function("text_int", z3.StringSort(), z3.IntSort())


def numstr_axioms():
    """assumed str algebra for decimal texts (audited): str(n).isdigit() and int(str(n)) == n for n >= 0"""
    n = z3.Int("n!ns")
    return [z3.ForAll([n], z3.Implies(n >= 0, z3.And(ISDIGIT(NUMSTR(n)), STRINT(NUMSTR(n)) == n)))]

# ---------------------------------------------------------------------------------- networks as address sets (C14)
# NET_IN(a, n): address a belongs to network n.  Uninterpreted in the list-level VCs; the engine adds, per use of
# supernet()/subnets()/subnet_of, the instance facts listed in pyvc.lemmas.net_lemmas (proved there on the bit-level
# definitions of ipaddress: network_address & netmask, prefixlen).
NET_IN = z3.Function("net_has", z3.BitVecSort(BVW), Net, z3.BoolSort())
NET_SUPER = z3.Function("net_supernet", Net, Net)
NET_SUB0 = z3.Function("net_subnet0", Net, Net)
NET_SUB1 = z3.Function("net_subnet1", Net, Net)
NETSTR = z3.Function("text_of_net", Net, z3.StringSort())          # str(IPv4Network)
NETPARSE = z3.Function("net_of_text", z3.StringSort(), Net)         # IPv4Network(text) for texts written by str()
