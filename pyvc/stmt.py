"""pyvc.stmt - statement execution, loop cutting, function entry (mixin of the engine)."""
from __future__ import annotations

import ast

import z3

from . import loader, contract as C
from .engine import State, Outcome, Ctx, Vars, exc_subclass
from .expr import PathEnd
from .values import (SDict, TDict, Sym, SV, SList, SSet, SOpt, FuncRef, ModuleRef, ClassRef, Opaque, Unsupported, TInt, TBool, TStr,
                     TNet, TNone, TObj, TList, TSet, TOpt, TTuple, TBV, fresh, fresh_name, type_constraints, type_of,
                     to_term, wrap, sort_of, is_concrete, list_from_concrete)

MAX_PATHS = 4000


class StmtMixin:
    # ------------------------------------------------------------------ pending raises
    def flush_pending(self, st, outs):
        """turn the raise conditions collected while evaluating expressions into raise outcomes; the normal path
        continues under their negation"""
        for cond, exc, info in self.pending:
            if info.__class__.__name__ == "RaisedIn":
                rs = info.state.assume(cond)
                info = info.info
            else:
                rs = st.assume(cond)
            if self.feasible(rs):
                outs.append(Outcome("raise", rs, exc, info))
            st.pc = st.pc + (z3.Not(cond),)
        self.pending = []

    def raise_now(self, st, exc, info=None):
        self.pending.append((z3.BoolVal(True), exc, info))

    # ------------------------------------------------------------------ blocks
    def exec_block(self, stmts, st):
        """-> list of Outcome; `st` is consumed"""
        outs = []
        work = [(0, st)]
        while work:
            i, s = work.pop()
            if i >= len(stmts):
                outs.append(Outcome("normal", s))
                continue
            self.paths += 1
            if self.paths > MAX_PATHS:
                raise Unsupported("path explosion")
            try:
                res = self.exec_stmt(stmts[i], s)
            except PathEnd:
                continue
            for o in res:
                if o.kind == "normal":
                    work.append((i + 1, o.state))
                else:
                    outs.append(o)
        return outs

    def exec_stmt(self, node, st):
        m = getattr(self, "st_" + node.__class__.__name__, None)
        if m is None:
            raise Unsupported(f"statement {node.__class__.__name__} at line {node.lineno}")
        self.pending = []
        if self.call_depth == 0 and self.stmt_asserts:
            fns = self.stmt_asserts.get(ast.unparse(node).strip())
            if fns:
                # contract-level `assert` before this statement: proved here, then known
                extra = []
                for n_, fn in enumerate(fns):
                    fact = self.as_bool(fn(Ctx(self, st, self.entry_state), Vars(st.env)))
                    self.emit("assert", f"before `{ast.unparse(node).strip()[:40]}`.{n_}", st, fact, hyps_extra=tuple(extra), split=False)
                    extra.append(fact)
                st.pc = st.pc + tuple(extra)
        return m(node, st)

    # ------------------------------------------------------------------ simple statements
    def st_Pass(self, node, st):
        return [Outcome("normal", st)]

    def st_Expr(self, node, st):
        outs = []
        if isinstance(node.value, ast.Constant):
            return [Outcome("normal", st)]
        self.ev_effect(node.value, st)
        self.flush_pending(st, outs)
        outs.append(Outcome("normal", st))
        return outs

    def ev_effect(self, expr, st):
        """expression statement: method calls that mutate a local container are turned into rebinding"""
        if isinstance(expr, ast.Call) and isinstance(expr.func, ast.Attribute):
            recv_node = expr.func.value
            meth = expr.func.attr
            if meth in self.MUTATORS:
                recv = self.ev(recv_node, st)
                if recv.__class__.__name__ == "ObjDict":
                    args = [self.ev(a, st) for a in expr.args]
                    return self.objdict_method(recv, meth, args, {}, st, expr)
                if not (isinstance(recv, SV) and isinstance(recv.ty, TObj)) and not isinstance(recv, (ModuleRef, ClassRef, FuncRef)):
                    args = [self.ev(a, st) for a in expr.args]
                    kwargs = {k.arg: self.ev(k.value, st) for k in expr.keywords}
                    new = self.mutate(recv, meth, args, kwargs, st, expr)
                    self.assign_target(recv_node, new, st)
                    return None
        return self.ev(expr, st)

    def st_Assign(self, node, st):
        outs = []
        v = self.ev(node.value, st)
        self.flush_pending(st, outs)
        for tgt in node.targets:
            self.assign_target(tgt, v, st)
        self.flush_pending(st, outs)
        outs.append(Outcome("normal", st))
        return outs

    def st_AnnAssign(self, node, st):
        if node.value is None:
            return [Outcome("normal", st)]
        outs = []
        v = self.ev(node.value, st)
        self.flush_pending(st, outs)
        self.assign_target(node.target, v, st)
        self.flush_pending(st, outs)
        outs.append(Outcome("normal", st))
        return outs

    def st_AugAssign(self, node, st):
        outs = []
        cur = self.ev(node.target, st)
        rhs = self.ev(node.value, st)
        v = self.binop(node.op, cur, rhs, st, node)
        self.flush_pending(st, outs)
        self.assign_target(node.target, v, st)
        self.flush_pending(st, outs)
        outs.append(Outcome("normal", st))
        return outs

    def assign_target(self, tgt, v, st):
        if isinstance(tgt, ast.Name):
            st.env[tgt.id] = v
            return
        if isinstance(tgt, (ast.Tuple, ast.List)):
            self.unpack(tgt.elts, v, st)
            return
        if isinstance(tgt, ast.Attribute):
            base = self.ev(tgt.value, st)
            if isinstance(base, SV) and isinstance(base.ty, TObj):
                cls = base.ty.cls
                mem = loader.lookup_member(cls, tgt.attr) if cls in loader.all_classes() else None
                if mem is not None and mem[1]["kind"] == "property":
                    if "fset" not in mem[1]:
                        raise Unsupported(f"assignment to read-only property {cls}.{tgt.attr}")
                    self.call_accessor(base, cls, tgt.attr, "fset", [v], st)
                    return
                self.heap_write(st, base, tgt.attr, v)
                return
            raise Unsupported(f"attribute assignment on {base!r}")
        if isinstance(tgt, ast.Subscript):
            base = self.ev(tgt.value, st)
            idx = self.ev(tgt.slice, st)
            new = self.store_index(base, idx, v, st, tgt)
            self.assign_target(tgt.value, new, st)
            return
        raise Unsupported(f"assignment target {tgt.__class__.__name__}")

    def store_index(self, base, idx, v, st, node):
        if isinstance(base, dict) and is_concrete(idx):
            d = dict(base)
            d[idx] = v
            return d
        if isinstance(base, list) and isinstance(idx, int):
            lst = list(base)
            lst[idx] = v
            return lst
        if isinstance(base, (SList, list)):
            base = self.as_slist(base)
            i = to_term(idx)
            self.emit("safe.index", f"L{node.lineno}", st, z3.And(i >= 0, i < base.n))
            return SList(base.ety, base.n, z3.Store(base.a, i, to_term(v)))
        if isinstance(base, dict) and not base:
            ty = self.loop_var_types.get(getattr(node.value, "id", ""))
            if isinstance(ty, TDict):
                ks = sort_of(ty.key)
                base = SDict(ty.key, ty.val, z3.K(ks, z3.BoolVal(False)), z3.K(ks, to_term(v) if False else __import__("pyvc.values", fromlist=["default_term"]).default_term(ty.val)))
        if isinstance(base, SDict):
            k = to_term(idx)
            return SDict(base.kty, base.vty, z3.Store(base.dom, k, z3.BoolVal(True)), z3.Store(base.map, k, to_term(v)), None)
        raise Unsupported(f"subscript store on {base!r}")

    def unpack(self, elts, v, st):
        star = [i for i, e in enumerate(elts) if isinstance(e, ast.Starred)]
        if isinstance(v, (tuple, list)):
            if star:
                k = star[0]
                after = len(elts) - k - 1
                if len(v) < len(elts) - 1:
                    self.raise_now(st, "ValueError")
                    return
                for e, x in zip(elts[:k], v[:k]):
                    self.assign_target(e, x, st)
                self.assign_target(elts[k].value, list(v[k:len(v) - after]), st)
                for e, x in zip(elts[k + 1:], v[len(v) - after:] if after else []):
                    self.assign_target(e, x, st)
                return
            if len(v) != len(elts):
                self.raise_now(st, "ValueError")
                return
            for e, x in zip(elts, v):
                self.assign_target(e, x, st)
            return
        if isinstance(v, SList):
            if star:
                k = star[0]
                after = len(elts) - k - 1
                need = len(elts) - 1
                self.pending.append((v.n < need, "ValueError", None))
                st.pc = st.pc + (v.n >= need,)
                for i, e in enumerate(elts[:k]):
                    self.assign_target(e, wrap(v.ety, v.a[i]), st)
                j = z3.Int(fresh_name("un"))
                self.assign_target(elts[k].value, SList(v.ety, v.n - need, z3.Lambda([j], v.a[j + k])), st)
                for i, e in enumerate(elts[k + 1:]):
                    self.assign_target(e, wrap(v.ety, v.a[v.n - after + i]), st)
                return
            self.pending.append((v.n != len(elts), "ValueError", None))
            st.pc = st.pc + (v.n == len(elts),)
            for i, e in enumerate(elts):
                self.assign_target(e, wrap(v.ety, v.a[i]), st)
            return
        raise Unsupported(f"unpacking of {v!r}")

    def st_Return(self, node, st):
        outs = []
        v = self.ev(node.value, st) if node.value is not None else None
        self.flush_pending(st, outs)
        outs.append(Outcome("return", st, v))
        return outs

    def st_Raise(self, node, st):
        outs = []
        if node.exc is None:
            exc = st.env.get("__active_exc__")
            if exc is None:
                raise Unsupported("bare raise outside handler")
            outs.append(Outcome("raise", st, exc[0], exc[1]))
            return outs
        exc_node = node.exc
        info = None
        if isinstance(exc_node, ast.Call):
            cls = self.ev(exc_node.func, st)
            args = [self.ev(a, st) for a in exc_node.args if not isinstance(a, ast.Starred)]
            info = args[0] if args else None
            if isinstance(cls, FuncRef) and cls.qualname == "builtins.type":
                # raise type(ex)(*ex.args): same class as the active exception
                exc = st.env.get("__active_exc__")
                if exc is None:
                    raise Unsupported("type(ex) outside handler")
                self.flush_pending(st, outs)
                outs.append(Outcome("raise", st, exc[0], exc[1]))
                return outs
        else:
            cls = self.ev(exc_node, st)
        self.flush_pending(st, outs)
        if not isinstance(cls, ClassRef):
            raise Unsupported(f"raise of {cls!r}")
        outs.append(Outcome("raise", st, cls.name, info))
        return outs

    def st_Break(self, node, st):
        return [Outcome("break", st)]

    def st_Continue(self, node, st):
        return [Outcome("continue", st)]

    def st_Assert(self, node, st):
        outs = []
        c = self.ev_truth(node.test, st)
        self.flush_pending(st, outs)
        self.emit("assert", f"L{node.lineno}", st, c)
        outs.append(Outcome("normal", st.assume(c)))
        return outs

    def st_Delete(self, node, st):
        for tgt in node.targets:
            if isinstance(tgt, ast.Subscript):
                base = self.ev(tgt.value, st)
                idx = self.ev(tgt.slice, st)
                if isinstance(base, dict) and is_concrete(idx):
                    d = dict(base)
                    d.pop(idx, None)
                    self.assign_target(tgt.value, d, st)
                    continue
            raise Unsupported("del")
        return [Outcome("normal", st)]

    # ------------------------------------------------------------------ if
    def st_If(self, node, st):
        outs = []
        c = self.ev_truth(node.test, st)
        self.flush_pending(st, outs)
        if isinstance(c, bool):
            return outs + self.exec_block(node.body if c else node.orelse, st)
        narrow = self.narrowing(node.test, st)
        st_t = st.assume(c)
        st_f = st.assume(z3.Not(c))
        if self.feasible(st_t):
            for name, val in narrow[0].items():
                st_t.env[name] = val
            outs += self.exec_block(node.body, st_t)
        if self.feasible(st_f):
            for name, val in narrow[1].items():
                st_f.env[name] = val
            outs += self.exec_block(node.orelse, st_f)
        return outs

    def narrowing(self, test, st):
        """static type narrowing by isinstance(x, C) / `x is None` tests on plain names: ({true-branch}, {false-branch})"""
        t, f = {}, {}
        if isinstance(test, ast.Call) and isinstance(test.func, ast.Name) and test.func.id == "isinstance" \
                and isinstance(test.args[0], ast.Name) and isinstance(test.args[1], ast.Name):
            name, cls = test.args[0].id, test.args[1].id
            v = st.env.get(name)
            if isinstance(v, SV) and isinstance(v.ty, TObj) and cls in loader.all_classes() \
                    and cls in loader.subclasses(v.ty.cls):
                t[name] = SV(TObj(cls), v.t)
        if isinstance(test, ast.UnaryOp) and isinstance(test.op, ast.Not):
            a, b = self.narrowing(test.operand, st)
            return b, a
        nm = test.id if isinstance(test, ast.Name) else (test.target.id if isinstance(test, ast.NamedExpr) else None)
        if nm is not None:
            v = st.env.get(nm)
            if isinstance(v, SOpt):
                t[nm] = v.val      # truthy => not None
        if isinstance(test, ast.Compare) and len(test.ops) == 1 and isinstance(test.left, ast.Name) \
                and isinstance(test.comparators[0], ast.Constant) and test.comparators[0].value is None:
            v = st.env.get(test.left.id)
            if isinstance(v, SOpt):
                if isinstance(test.ops[0], ast.Is):
                    t[test.left.id], f[test.left.id] = None, v.val
                elif isinstance(test.ops[0], ast.IsNot):
                    f[test.left.id], t[test.left.id] = None, v.val
        return t, f

    # ------------------------------------------------------------------ try
    def st_Try(self, node, st):
        if node.finalbody:
            raise Unsupported("try/finally")
        outs = []
        body_outs = self.exec_block(node.body, st)
        for o in body_outs:
            if o.kind == "normal":
                outs += self.exec_block(node.orelse, o.state) if node.orelse else [o]
                continue
            if o.kind != "raise":
                outs.append(o)
                continue
            handled = False
            for h in node.handlers:
                names = []
                if h.type is None:
                    names = ["BaseException"]
                elif isinstance(h.type, ast.Tuple):
                    names = [e.id for e in h.type.elts]
                else:
                    names = [h.type.id if isinstance(h.type, ast.Name) else h.type.attr]
                if any(exc_subclass(o.value, n) for n in names):
                    hs = o.state.copy()
                    prev = hs.env.get("__active_exc__")
                    hs.env["__active_exc__"] = (o.value, o.info)
                    if h.name:
                        hs.env[h.name] = Opaque("exception", [o.value, o.info])
                    for ho in self.exec_block(h.body, hs):
                        if prev is None:
                            ho.state.env.pop("__active_exc__", None)
                        else:
                            ho.state.env["__active_exc__"] = prev
                        outs.append(ho)
                    handled = True
                    break
            if not handled:
                outs.append(o)
        return outs

    # ------------------------------------------------------------------ loops
    def assigned_names(self, stmts):
        names = set()
        for s in stmts:
            for n in ast.walk(s):
                if isinstance(n, ast.Name) and isinstance(n.ctx, (ast.Store, ast.Del)):
                    names.add(n.id)
                elif isinstance(n, ast.Call) and isinstance(n.func, ast.Attribute) and n.func.attr in self.MUTATORS:
                    r = n.func.value
                    while isinstance(r, (ast.Subscript, ast.Attribute)):
                        r = r.value
                    if isinstance(r, ast.Name):
                        names.add(r.id)
                elif isinstance(n, (ast.Subscript, ast.Attribute)) and isinstance(n.ctx, ast.Store):
                    r = n.value
                    while isinstance(r, (ast.Subscript, ast.Attribute)):
                        r = r.value
                    if isinstance(r, ast.Name):
                        names.add(r.id)
        return names

    def next_loop(self, node):
        return self.loop_ids[id(node)]

    @staticmethod
    def loop_ordinals(fn):
        """loop statements of a function in source order -> ordinal (nested function bodies excluded)"""
        ids = {}

        def visit(stmts):
            for s in stmts:
                if isinstance(s, (ast.For, ast.While)):
                    ids[id(s)] = len(ids)
                if isinstance(s, (ast.FunctionDef, ast.ClassDef)):
                    continue
                for fld in ("body", "orelse", "finalbody"):
                    visit(getattr(s, fld, []) or [])
                for h in getattr(s, "handlers", []) or []:
                    visit(h.body)
        visit(fn.body)
        return ids

    def iter_view(self, v, st):
        """-> ("concrete", [values]) | ("indexed", n_term, elem_fn(k)->value)"""
        if isinstance(v, (list, tuple)):
            return ("concrete", list(v))
        if isinstance(v, dict):
            return ("concrete", list(v.keys()))
        if isinstance(v, frozenset):
            return ("concrete", sorted(v, key=repr))
        if isinstance(v, SList):
            return ("indexed", v.n, lambda k: wrap(v.ety, v.a[k]))
        if isinstance(v, Iter):
            return v.view
        if isinstance(v, SDict):
            if v.keys is None:
                raise Unsupported("iteration over a dict built in the function")
            return ("indexed", v.keys.n, lambda k: wrap(v.kty, v.keys.a[k]))
        from .values import BitStr, BitChar
        if isinstance(v, BitStr):
            return ("indexed", z3.IntVal(v.width), lambda k: BitChar(v.w, v.width - 1 - k))
        if isinstance(v, SSet):
            order = fresh(TList(v.ety), "setorder")
            i, j = z3.Int(fresh_name("i")), z3.Int(fresh_name("j"))
            x = z3.Const(fresh_name("x"), sort_of(v.ety))
            idx = z3.Function(fresh_name("setidx"), sort_of(v.ety), z3.IntSort())
            st.pc = st.pc + (
                order.n >= 0,
                z3.ForAll([i], z3.Implies(z3.And(0 <= i, i < order.n), z3.And(v.chi[order.a[i]], idx(order.a[i]) == i))),
                z3.ForAll([x], z3.Implies(v.chi[x], z3.And(0 <= idx(x), idx(x) < order.n, order.a[idx(x)] == x))),
            )
            return ("indexed", order.n, lambda k: wrap(v.ety, order.a[k]))
        raise Unsupported(f"iteration over {v!r}")

    def st_For(self, node, st):
        outs = []
        ordinal = self.next_loop(node)
        it = self.ev(node.iter, st)
        self.flush_pending(st, outs)
        view = self.iter_view(it, st)
        if view[0] == "concrete":
            # literal iteration: unroll (the ordinals of loops nested inside are assigned once, on first unrolling)
            return outs + self.unroll(node, view[1], st, ordinal)
        _, n, elem = view
        con = self.current[0]
        spec = con.loops.get(ordinal) if self.call_depth == 0 else self.inline_loops.get(ordinal)
        if spec is None:
            raise Unsupported(f"loop #{ordinal} at line {node.lineno} of {con.target} has no invariant")
        mod = sorted(n_ for n_ in self.assigned_names(node.body + node.orelse) if n_ in st.env)
        entry_env = dict(st.env)

        def inv_at(state, k):
            cx = Ctx(self, state, self.entry_state)
            try:
                return spec.inv(cx, k, Vars(state.env))
            except AttributeError as ex:
                raise Unsupported(f"MOVED: the invariant of loop #{ordinal} refers to a variable that no longer exists ({ex})")

        # 1. established on entry
        self.emit("inv.init", spec.label, st, inv_at(st, z3.IntVal(0)))
        # 2. preserved by an arbitrary iteration
        hs = self.havoc_loop(st, mod, spec)
        k = z3.Int(fresh_name("k"))
        hs.pc = hs.pc + (k >= 0, k < n)
        hs.pc = hs.pc + self.conjuncts(self.as_bool(inv_at(hs, k)))
        hs.env["__loop_k__"] = k
        hs.env[f"__k{ordinal}__"] = k
        self.assign_target(node.target, elem(k), hs)
        head_env = dict(hs.env)
        head_st = hs.copy()
        body_outs = self.in_loop_frame(spec, lambda: self.exec_block(node.body, hs) if self.feasible(hs) else [])
        for o in body_outs:
            if o.kind in ("normal", "continue"):
                if spec.hints:
                    vv = Vars(o.state.env)
                    vv.head = Vars(head_env)
                    vv.head_cx = Ctx(self, head_st, self.entry_state)      # heap (and ghost log) as at the head of this iteration
                    hs_ = []
                    for h in spec.hints:
                        r_ = h(Ctx(self, o.state, self.entry_state), k, vv)
                        r_ = list(r_) if isinstance(r_, (list, tuple)) else [r_]
                        if getattr(h, "for_clauses", None) is not None:
                            from .engine import TaggedHint
                            r_ = [TaggedHint(x, h.for_clauses) for x in r_]
                        hs_.extend(r_)
                    self.emit_with_hints("inv.step", spec.label, o.state, inv_at(o.state, k + 1), hs_)
                else:
                    self.emit("inv.step", spec.label, o.state, inv_at(o.state, k + 1))
            elif o.kind == "break":
                outs.append(Outcome("normal", o.state))
            else:
                outs.append(o)
        # 3. exit: invariant at k = n, then the else clause
        es = self.havoc_loop(st, mod, spec)
        es.pc = es.pc + self.conjuncts(self.as_bool(inv_at(es, n)))
        if node.orelse:
            outs += self.exec_block(node.orelse, es)
        else:
            outs.append(Outcome("normal", es))
        return outs

    @staticmethod
    def conjuncts(f):
        """an assumed invariant as one hypothesis per top-level conjunct (finer relevance filtering in the solver portfolio)"""
        if z3.is_expr(f) and z3.is_and(f) and f.num_args() > 1:
            return tuple(f.children())
        return (f,)

    def as_bool(self, t):
        if isinstance(t, SV):
            return t.t
        if isinstance(t, bool):
            return z3.BoolVal(t)
        return t

    def in_loop_frame(self, spec, thunk):
        """run a loop body; heap writes are checked against the loop's own frame when it declares one"""
        if spec is None or spec.modifies is None or self.call_depth != 0:
            return thunk()
        if not hasattr(self, "loop_frames"):
            self.loop_frames = []
        self.loop_frames.append((spec.label, list(spec.modifies)))
        try:
            return thunk()
        finally:
            self.loop_frames.pop()

    def havoc_loop(self, st, mod, spec=None):
        hs = st.copy()
        for name in mod:
            cur = st.env[name]
            try:
                ty = self.loop_var_types.get(name) or type_of(self.generalize(cur))
            except Unsupported:
                raise Unsupported(f"cannot havoc loop variable {name} = {cur!r}")
            nv = fresh(ty, name)
            hs.env[name] = nv
            hs.pc = hs.pc + tuple(type_constraints(nv))
        con = self.current[0]
        frame = con.modifies if spec is None or spec.modifies is None else spec.modifies
        self.havoc_heap(hs, [k for k in frame if k != "*"])
        return hs

    def generalize(self, v):
        if isinstance(v, dict) and not v:
            raise Unsupported("empty dict modified in a loop: declare its type in loop_var_types")
        if isinstance(v, list):
            if not v:
                raise Unsupported("empty concrete list modified in a loop: declare its type in loop_var_types")
            return self.as_slist(v)
        if v is None:
            raise Unsupported("None-initialised loop variable: declare its type in loop_var_types")
        return v

    def unroll(self, node, items, st, ordinal):
        outs = []
        states = [st]
        for x in items:
            nxt = []
            for s in states:
                s2 = s.copy()
                self.assign_target(node.target, x, s2)
                for o in self.exec_block(node.body, s2):
                    if o.kind in ("normal", "continue"):
                        nxt.append(o.state)
                    elif o.kind == "break":
                        outs.append(Outcome("normal", o.state))
                    else:
                        outs.append(o)
            states = nxt
        for s in states:
            if node.orelse:
                outs += self.exec_block(node.orelse, s)
            else:
                outs.append(Outcome("normal", s))
        return outs

    def st_While(self, node, st):
        outs = []
        ordinal = self.next_loop(node)
        con = self.current[0]
        spec = con.loops.get(ordinal) if self.call_depth == 0 else self.inline_loops.get(ordinal)
        if spec is None:
            raise Unsupported(f"while loop #{ordinal} at line {node.lineno} of {con.target} has no invariant")
        mod = sorted(n_ for n_ in self.assigned_names(node.body + node.orelse) if n_ in st.env)

        def inv_at(state, k):
            try:
                return spec.inv(Ctx(self, state, self.entry_state), k, Vars(state.env))
            except AttributeError as ex:
                raise Unsupported(f"MOVED: the invariant of loop #{ordinal} refers to a variable that no longer exists ({ex})")

        self.emit("inv.init", spec.label, st, inv_at(st, z3.IntVal(0)))
        hs = self.havoc_loop(st, mod, spec)
        k = z3.Int(fresh_name("k"))
        hs.pc = hs.pc + (k >= 0,) + self.conjuncts(self.as_bool(inv_at(hs, k)))
        c = self.ev_truth(node.test, hs)
        self.flush_pending(hs, outs)
        body_st = hs.assume(c)
        measure0 = spec.decreases(Ctx(self, body_st, self.entry_state), Vars(body_st.env)) if spec.decreases else None
        head_env = dict(body_st.env)
        if self.feasible(body_st):
            for o in self.in_loop_frame(spec, lambda: self.exec_block(node.body, body_st)):
                if o.kind in ("normal", "continue"):
                    if spec.hints:
                        vv = Vars(o.state.env)
                        vv.head = Vars(head_env)
                        hs_ = []
                        for h in spec.hints:
                            r_ = h(Ctx(self, o.state, self.entry_state), k, vv)
                            r_ = list(r_) if isinstance(r_, (list, tuple)) else [r_]
                            if getattr(h, "for_clauses", None) is not None:
                                from .engine import TaggedHint
                                r_ = [TaggedHint(x, h.for_clauses) for x in r_]
                            hs_.extend(r_)
                        self.emit_with_hints("inv.step", spec.label, o.state, inv_at(o.state, k + 1), hs_)
                    else:
                        self.emit("inv.step", spec.label, o.state, inv_at(o.state, k + 1))
                    if spec.decreases:
                        m1 = spec.decreases(Ctx(self, o.state, self.entry_state), Vars(o.state.env))
                        self.emit("decreases", spec.label, o.state, z3.And(to_term(measure0) >= 0, to_term(m1) < to_term(measure0)))
                elif o.kind == "break":
                    outs.append(Outcome("normal", o.state))
                else:
                    outs.append(o)
        es = self.havoc_loop(st, mod, spec)
        k2 = z3.Int(fresh_name("k"))
        es.pc = es.pc + (k2 >= 0,) + self.conjuncts(self.as_bool(inv_at(es, k2)))
        c2 = self.ev_truth(node.test, es)
        es = es.assume(self.neg(c2) if not isinstance(c2, bool) else (not c2))
        if node.orelse:
            outs += self.exec_block(node.orelse, es)
        else:
            outs.append(Outcome("normal", es))
        return outs


class Iter:
    """result of enumerate/zip/range/reversed: an indexed view"""

    def __init__(self, view):
        self.view = view
