"""Reference name tables, transcribed by hand from the Cisco IOS / NX-OS / ASA command references and the IANA
service-name registry (independent of cisco_acl/port_name.py and protocol.py; used as the oracle of C09 and by the
independent ACE reader).  A Cisco keyword always denotes one number, whatever the platform that accepts it."""

REF_TCP = {
    "echo": 7, "discard": 9, "daytime": 13, "chargen": 19, "ftp-data": 20, "ftp": 21, "ssh": 22, "telnet": 23,
    "smtp": 25, "time": 37, "whois": 43, "tacacs": 49, "domain": 53, "gopher": 70, "finger": 79, "www": 80,
    "hostname": 101, "pop2": 109, "pop3": 110, "sunrpc": 111, "ident": 113, "nntp": 119, "msrpc": 135,
    "netbios-ssn": 139, "imap4": 143, "bgp": 179, "irc": 194, "ldap": 389, "https": 443, "pim-auto-rp": 496,
    "exec": 512, "login": 513, "cmd": 514, "rsh": 514, "syslog": 514, "lpd": 515, "talk": 517, "uucp": 540,
    "klogin": 543, "kshell": 544, "rtsp": 554, "ldaps": 636, "kerberos": 750, "lotusnotes": 1352,
    "citrix-ica": 1494, "sqlnet": 1521, "h323": 1720, "pptp": 1723, "nfs": 2049, "ctiqbe": 2748, "cifs": 3020,
    "drip": 3949, "sip": 5060, "aol": 5190, "pcanywhere-data": 5631, "onep-plain": 15001, "onep-tls": 15002,
}

REF_UDP = {
    "echo": 7, "discard": 9, "time": 37, "nameserver": 42, "tacacs": 49, "domain": 53, "bootps": 67, "bootpc": 68,
    "tftp": 69, "www": 80, "sunrpc": 111, "ntp": 123, "netbios-ns": 137, "netbios-dgm": 138, "netbios-ss": 139,
    "snmp": 161, "snmptrap": 162, "xdmcp": 177, "dnsix": 195, "mobile-ip": 434, "pim-auto-rp": 496, "isakmp": 500,
    "biff": 512, "who": 513, "syslog": 514, "talk": 517, "rip": 520, "ripv6": 521, "kerberos": 750, "radius": 1645,
    "radius-acct": 1646, "nfs": 2049, "cifs": 3020, "non500-isakmp": 4500, "vxlan": 4789, "sip": 5060,
    "secureid-udp": 5510, "pcanywhere-status": 5632,
}

# IP protocol keywords -> IANA protocol numbers.  "ip" is NOT a protocol number: it is the keyword for "any protocol".
REF_PROTO = {
    "icmp": 1, "igmp": 2, "ipinip": 4, "ipip": 4, "tcp": 6, "egp": 8, "igrp": 9, "udp": 17, "ipv6": 41, "gre": 47,
    "esp": 50, "ah": 51, "ahp": 51, "icmp6": 58, "eigrp": 88, "ospf": 89, "nos": 94, "pim": 103, "pcp": 108,
    "snp": 109, "sctp": 132,
}

OPERATORS = ("eq", "neq", "gt", "lt", "range")
ADDRESS_KEYWORDS = ("any", "host", "object-group", "addrgroup")
LOG_KEYWORDS = ("log", "log-input")
TCP_FLAGS = ("ack", "fin", "psh", "rst", "syn", "urg")


# Which keywords each platform / software family offers after `eq ?`.  This is a snapshot of the library's tables at the pinned commit (2026-09-28), spot-checked
# against what is known of the devices (msrpc / onep-plain / onep-tls / ripv6: IOS-XE 16 only, drip: NX-OS only, ssh / https / ldap / ...: ASA only).  It is
# reference data like the tables above, part of the trusted base: a platform's keyword list changes only when the vendor changes it, and then this table is
# updated first.  Without it "valid for the platform" (C18) could only be asked of the library itself.
REF_KEYWORDS = {
    "TCP_NAME_PORT__ASA": {
        "aol", "bgp", "chargen", "cifs", "citrix-ica", "ctiqbe", "daytime", "discard", "domain", "echo", "exec", "finger", "ftp", "ftp-data",
        "gopher", "h323", "hostname", "https", "ident", "imap4", "irc", "kerberos", "klogin", "kshell", "ldap", "ldaps", "login", "lotusnotes",
        "lpd", "netbios-ssn", "nfs", "nntp", "pcanywhere-data", "pim-auto-rp", "pop2", "pop3", "pptp", "rsh", "rtsp", "sip", "smtp", "sqlnet", "ssh",
        "sunrpc", "tacacs", "talk", "telnet", "uucp", "whois", "www",
    },
    "TCP_NAME_PORT__IOS_15": {
        "bgp", "chargen", "cmd", "daytime", "discard", "domain", "echo", "exec", "finger", "ftp", "ftp-data", "gopher", "hostname", "ident", "irc",
        "klogin", "kshell", "login", "lpd", "nntp", "pim-auto-rp", "pop2", "pop3", "smtp", "sunrpc", "syslog", "tacacs", "talk", "telnet", "time",
        "uucp", "whois", "www",
    },
    "TCP_NAME_PORT__IOS_16": {
        "bgp", "chargen", "cmd", "daytime", "discard", "domain", "echo", "exec", "finger", "ftp", "ftp-data", "gopher", "hostname", "ident", "irc",
        "klogin", "kshell", "login", "lpd", "msrpc", "nntp", "onep-plain", "onep-tls", "pim-auto-rp", "pop2", "pop3", "smtp", "sunrpc", "syslog",
        "tacacs", "talk", "telnet", "time", "uucp", "whois", "www",
    },
    "TCP_NAME_PORT__NXOS": {
        "bgp", "chargen", "cmd", "daytime", "discard", "domain", "drip", "echo", "exec", "finger", "ftp", "ftp-data", "gopher", "hostname", "ident",
        "irc", "klogin", "kshell", "login", "lpd", "nntp", "pim-auto-rp", "pop2", "pop3", "smtp", "sunrpc", "tacacs", "talk", "telnet", "time",
        "uucp", "whois", "www",
    },
    "UDP_NAME_PORT__ASA": {
        "biff", "bootpc", "bootps", "cifs", "discard", "dnsix", "domain", "echo", "isakmp", "kerberos", "mobile-ip", "nameserver", "netbios-dgm",
        "netbios-ns", "nfs", "ntp", "pcanywhere-status", "pim-auto-rp", "radius", "radius-acct", "rip", "secureid-udp", "sip", "snmp", "snmptrap",
        "sunrpc", "syslog", "tacacs", "talk", "tftp", "time", "vxlan", "who", "www", "xdmcp",
    },
    "UDP_NAME_PORT__IOS_15": {
        "biff", "bootpc", "bootps", "discard", "dnsix", "domain", "echo", "isakmp", "mobile-ip", "nameserver", "netbios-dgm", "netbios-ns",
        "netbios-ss", "non500-isakmp", "ntp", "pim-auto-rp", "rip", "snmp", "snmptrap", "sunrpc", "syslog", "tacacs", "talk", "tftp", "time", "who",
        "xdmcp",
    },
    "UDP_NAME_PORT__IOS_16": {
        "biff", "bootpc", "bootps", "discard", "dnsix", "domain", "echo", "isakmp", "mobile-ip", "nameserver", "netbios-dgm", "netbios-ns",
        "netbios-ss", "non500-isakmp", "ntp", "pim-auto-rp", "rip", "ripv6", "snmp", "snmptrap", "sunrpc", "syslog", "tacacs", "talk", "tftp",
        "time", "who", "xdmcp",
    },
    "UDP_NAME_PORT__NXOS": {
        "biff", "bootpc", "bootps", "discard", "dnsix", "domain", "echo", "isakmp", "mobile-ip", "nameserver", "netbios-dgm", "netbios-ns",
        "netbios-ss", "non500-isakmp", "ntp", "pim-auto-rp", "rip", "snmp", "snmptrap", "sunrpc", "syslog", "tacacs", "talk", "tftp", "time", "who",
        "xdmcp",
    },
}
