"""Independent reader of Cisco ACE / ACL / address-group syntax (hand tokeniser; no code, regex or table shared with
cisco_acl).  It gives the *Cisco meaning* of a line as an AceSem (spec/sets.py) and is the oracle of the bounded
contract checks.  Group references are resolved through a `groups` dict name -> list of cubes."""
from __future__ import annotations

from dataclasses import dataclass
from typing import Optional

from .ref_tables import REF_TCP, REF_UDP, REF_PROTO, OPERATORS, LOG_KEYWORDS
from .sets import AceSem, cube, cube_of_prefix, M32
from .portsem import P


class RefError(ValueError):
    pass


def parse_ip(tok: str) -> int:
    parts = tok.split(".")
    if len(parts) != 4:
        raise RefError(f"bad address {tok!r}")
    v = 0
    for p in parts:
        if not p or any(ch not in "0123456789" for ch in p) or int(p) > 255 or (len(p) > 1 and p[0] == "0" and False):
            raise RefError(f"bad octet in {tok!r}")
        v = v * 256 + int(p)
    return v


def is_ip(tok: str) -> bool:
    try:
        parse_ip(tok)
        return True
    except RefError:
        return False


@dataclass
class RefAce:
    sequence: int
    sem: AceSem
    proto_token: str
    platform: str


def read_address(toks: list, i: int, platform: str, groups: Optional[dict], mask_is_subnet=False):
    """-> (cubes, group name, next index)"""
    if i >= len(toks):
        raise RefError("address expected")
    t = toks[i]
    if t == "any":
        return (cube(0, M32),), "", i + 1
    if t == "host":
        if i + 1 >= len(toks):
            raise RefError("host address expected")
        return (cube(parse_ip(toks[i + 1]), 0),), "", i + 2
    if t in ("object-group", "addrgroup"):
        if i + 1 >= len(toks):
            raise RefError("group name expected")
        name = toks[i + 1]
        cubes = tuple(groups.get(name, ())) if groups is not None else ()
        return cubes, name, i + 2
    if "/" in t:
        a, l = t.split("/", 1)
        if not l.isdigit() or int(l) > 32:
            raise RefError(f"bad prefix {t!r}")
        return (cube_of_prefix(parse_ip(a), int(l)),), "", i + 1
    if is_ip(t):
        if i + 1 < len(toks) and is_ip(toks[i + 1]):
            m = parse_ip(toks[i + 1])
            if mask_is_subnet:
                m = ~m & M32
            return (cube(parse_ip(t), m),), "", i + 2
        return (cube(parse_ip(t), 0),), "", i + 1   # bare host (standard ACL)
    raise RefError(f"address expected at {t!r}")


def read_ports(toks: list, i: int, proto: Optional[int]):
    """-> (port set or None, next index)"""
    if i >= len(toks) or toks[i] not in OPERATORS:
        return None, i
    if proto not in (6, 17):
        raise RefError("port expression without tcp/udp")
    table = REF_TCP if proto == 6 else REF_UDP
    op = toks[i]
    i += 1
    operands = []
    want = {"gt": 1, "lt": 1, "range": 2}.get(op)
    while i < len(toks) and (toks[i].isdigit() or toks[i] in table) and (want is None or len(operands) < want):
        operands.append(int(toks[i]) if toks[i].isdigit() else table[toks[i]])
        i += 1
    if not operands or (want is not None and len(operands) != want):
        raise RefError(f"operands of {op} expected")
    return P(op, operands), i


def read_ace(line: str, platform: str = "ios", groups: Optional[dict] = None) -> RefAce:
    toks = line.split()
    i = 0
    seq = 0
    if i < len(toks) and toks[i].isdigit():
        seq = int(toks[i])
        i += 1
    if i >= len(toks) or toks[i] not in ("permit", "deny"):
        raise RefError(f"action expected in {line!r}")
    action = toks[i]
    i += 1
    # extended: protocol first; standard: address directly
    if i >= len(toks):
        raise RefError("truncated")
    ptok = toks[i]
    standard = ptok in ("any", "host", "object-group", "addrgroup") or is_ip(ptok) or ("/" in ptok and is_ip(ptok.split("/")[0]))
    if standard:
        src, sg, i = read_address(toks, i, platform, groups)
        opts = toks[i:]
        logs = frozenset(t for t in opts if t in LOG_KEYWORDS)
        flags = frozenset(t for t in opts if t not in LOG_KEYWORDS)
        return RefAce(seq, AceSem(action, None, src, (cube(0, M32),), None, None, flags, logs, sg, ""), "", platform)
    if ptok == "ip":
        proto = None
    elif ptok.isdigit():
        if int(ptok) > 255:
            raise RefError("protocol number")
        proto = int(ptok)
    elif ptok in REF_PROTO:
        proto = REF_PROTO[ptok]
    else:
        raise RefError(f"protocol expected at {ptok!r}")
    i += 1
    src, sg, i = read_address(toks, i, platform, groups)
    sports, i = read_ports(toks, i, proto)
    dst, dg, i = read_address(toks, i, platform, groups)
    dports, i = read_ports(toks, i, proto)
    opts = toks[i:]
    logs = frozenset(t for t in opts if t in LOG_KEYWORDS)
    flags = frozenset(t for t in opts if t not in LOG_KEYWORDS)
    sem = AceSem(action, None if proto is None else frozenset([proto]), src, dst, sports, dports, flags, logs, sg, dg)
    return RefAce(seq, sem, ptok, platform)


def read_acl(text: str, platform: str = "ios", groups: Optional[dict] = None):
    """-> (header tokens, [("remark", seq, text) | ("ace", RefAce)])"""
    lines = [" ".join(l.split()) for l in text.split("\n")]
    lines = [l for l in lines if l]
    header = lines[0].split()
    items = []
    for l in lines[1:]:
        toks = l.split()
        k = 1 if toks[0].isdigit() else 0
        if len(toks) > k and toks[k] == "remark":
            items.append(("remark", int(toks[0]) if k else 0, " ".join(toks[k + 1:])))
        else:
            items.append(("ace", read_ace(l, platform, groups)))
    return header, items
