"""Exact packet-set algebra without enumeration (independent of cisco_acl).

Address sets are unions of *cubes* (base, mask): the addresses that agree with base on all bits where mask is 0
(Cisco wildcard semantics).  Port sets are frozensets within the packet universe 0..65535 (`ALL_PORTS` when an ACE has
no port expression; a Cisco expression only denotes subsets of 1..65535).  Protocol sets: None = any ("ip") or a
frozenset of numbers.  Flag sets use the legacy match-any meaning: an ACE with flags F matches a packet when some flag
of F is set in it; F empty = no restriction.
"""
from __future__ import annotations

from dataclasses import dataclass, field
from typing import Optional

M32 = 0xFFFFFFFF
ALL_PORTS = None  # "no port expression": every packet, including non TCP/UDP ones


# ----------------------------------------------------------------------------------------------- cubes
def cube(base: int, mask: int):
    return (base & ~mask & M32, mask & M32)


def cube_of_prefix(addr: int, plen: int):
    mask = (1 << (32 - plen)) - 1
    return cube(addr, mask)


def cube_contains(c, x: int) -> bool:
    return (x & ~c[1] & M32) == c[0]


def cube_subset(a, b) -> bool:
    """a subset of b: b's wildcard bits include a's and the bases agree outside b's mask"""
    return (a[1] & ~b[1] & M32) == 0 and (a[0] & ~b[1] & M32) == (b[0] & ~b[1] & M32)


def cube_intersect(a, b):
    fixed_both = ~a[1] & ~b[1] & M32
    if (a[0] ^ b[0]) & fixed_both:
        return None
    mask = a[1] & b[1]
    base = (a[0] | b[0]) & ~mask & M32
    return (base, mask)


def cube_size(c) -> int:
    return 1 << bin(c[1]).count("1")


def cubes_cover(c, ds) -> Optional[int]:
    """is cube c inside the union of cubes ds?  returns None if yes, else a witness address of c outside the union"""
    ds = [d for d in ds if cube_intersect(c, d) is not None]
    if not ds:
        return c[0]
    for d in ds:
        if cube_subset(c, d):
            return None
    # split c on a bit that is free in c and fixed in some d
    for d in ds:
        split_bits = c[1] & ~d[1] & M32
        if split_bits:
            bit = split_bits & -split_bits
            for val in (0, bit):
                sub = ((c[0] & ~bit) | val, c[1] & ~bit)
                w = cubes_cover(sub, ds)
                if w is not None:
                    return w
            return None
    return None  # every d has all of c's free bits free and intersects c => some d contains c (handled above)


def union_subset(a_cubes, b_cubes) -> Optional[int]:
    """None if union(a) is inside union(b), else a witness address"""
    for c in a_cubes:
        w = cubes_cover(c, list(b_cubes))
        if w is not None:
            return w
    return None


def union_equal(a_cubes, b_cubes) -> Optional[int]:
    w = union_subset(a_cubes, b_cubes)
    if w is not None:
        return w
    return union_subset(b_cubes, a_cubes)


def union_count(cubes) -> int:
    """number of addresses in a union of cubes (inclusion-exclusion by disjoint decomposition)"""
    total = 0
    done = []
    for c in cubes:
        pieces = [c]
        for d in done:
            nxt = []
            for p in pieces:
                nxt.extend(cube_minus(p, d))
            pieces = nxt
        total += sum(cube_size(p) for p in pieces)
        done.append(c)
    return total


def cube_minus(a, b):
    """a \\ b as a list of disjoint cubes"""
    if cube_intersect(a, b) is None:
        return [a]
    out = []
    cur = a
    bits = a[1] & ~b[1] & M32
    while bits:
        bit = bits & -bits
        bits ^= bit
        bval = b[0] & bit
        out.append(((cur[0] & ~bit) | (bit ^ bval), cur[1] & ~bit))   # the half that disagrees with b
        cur = ((cur[0] & ~bit) | bval, cur[1] & ~bit)
    return out  # cur is now inside b


# ----------------------------------------------------------------------------------------------- ACE semantics
@dataclass(frozen=True)
class AceSem:
    action: str
    proto: Optional[frozenset]          # None = any protocol
    src: tuple                          # cubes
    dst: tuple
    sports: Optional[frozenset]         # None = no expression (all packets)
    dports: Optional[frozenset]
    flags: frozenset = frozenset()
    logs: frozenset = frozenset()
    src_group: str = ""
    dst_group: str = ""

    def is_empty(self) -> bool:
        return (self.sports is not None and not self.sports) or (self.dports is not None and not self.dports) \
            or not self.src or not self.dst or (self.proto is not None and not self.proto)


def ports_subset(a, b) -> Optional[int]:
    if b is None:
        return None
    if a is None:
        # a = all of 0..65535 (and packets without ports); b is a strict subset
        for p in (0, 1, 65535):
            if p not in b:
                return p
        return next(p for p in range(65536) if p not in b)
    d = a - b
    return min(d) if d else None


def proto_subset(a, b) -> Optional[int]:
    if b is None:
        return None
    if a is None:
        return next(p for p in range(256) if p not in b)
    d = a - b
    return min(d) if d else None


def flags_subset(a: frozenset, b: frozenset) -> Optional[frozenset]:
    """packets matched under flags a are matched under flags b (match-any); witness = a packet flag set"""
    if not b:
        return None
    if not a:
        return frozenset()            # a packet with no flag set is matched by a (no restriction) but not by b
    d = a - b
    return frozenset([min(d)]) if d else None


def sem_subset(a: AceSem, b: AceSem):
    """None if every packet matched by a is matched by b; else a witness packet (dict)"""
    if a.is_empty():
        return None
    w = {}
    x = proto_subset(a.proto, b.proto)
    if x is not None:
        return {"field": "proto", "proto": x}
    x = union_subset(a.src, b.src)
    if x is not None:
        return {"field": "src", "src": x}
    x = union_subset(a.dst, b.dst)
    if x is not None:
        return {"field": "dst", "dst": x}
    x = ports_subset(a.sports, b.sports)
    if x is not None:
        return {"field": "sport", "sport": x}
    x = ports_subset(a.dports, b.dports)
    if x is not None:
        return {"field": "dport", "dport": x}
    x = flags_subset(a.flags, b.flags)
    if x is not None:
        return {"field": "flags", "flags": sorted(x)}
    return None


def sem_equal(a: AceSem, b: AceSem):
    if a.action != b.action:
        return {"field": "action"}
    return sem_subset(a, b) or sem_subset(b, a)


def matches(a: AceSem, pkt: dict) -> bool:
    if a.proto is not None and pkt["proto"] not in a.proto:
        return False
    if not any(cube_contains(c, pkt["src"]) for c in a.src):
        return False
    if not any(cube_contains(c, pkt["dst"]) for c in a.dst):
        return False
    if a.sports is not None and pkt.get("sport") not in a.sports:
        return False
    if a.dports is not None and pkt.get("dport") not in a.dports:
        return False
    if a.flags and not (a.flags & frozenset(pkt.get("flags", ()))):
        return False
    return True


def decide(rules, pkt) -> str:
    for r in rules:
        if matches(r, pkt):
            return r.action
    return "deny"
