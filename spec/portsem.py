"""Independent reference semantics of Cisco port expressions and of the compact range string (written from the
property statement C08 and Cisco's command reference; shares no code with cisco_acl)."""
ALL = range(1, 65536)


def P(op: str, operands) -> frozenset:
    """port set of `op operands` within 1..65535"""
    ops = list(operands)
    if op == "eq":
        return frozenset(p for p in ops if 1 <= p <= 65535)
    if op == "neq":
        return frozenset(ALL) - frozenset(ops)
    if op == "gt":
        return frozenset(range(max(ops[0] + 1, 1), 65536))
    if op == "lt":
        return frozenset(range(1, min(ops[0], 65536)))
    if op == "range":
        lo, hi = min(ops), max(ops)
        return frozenset(range(max(lo, 1), min(hi, 65535) + 1))
    raise ValueError(op)


def dec_ref(s: str) -> frozenset:
    """decode "1,3-5" -> {1,3,4,5}; character-level scanner (no split/int on tokens shared with the library)"""
    out = set()
    i, n = 0, len(s)
    while i < n:
        if s[i] == ",":
            i += 1
            continue
        a = 0
        j = i
        while j < n and s[j] in "0123456789":
            a = a * 10 + (ord(s[j]) - 48)
            j += 1
        if j == i:
            raise ValueError(f"bad range string {s!r} at {i}")
        b = a
        if j < n and s[j] == "-":
            k = j + 1
            b = 0
            j = k
            while j < n and s[j] in "0123456789":
                b = b * 10 + (ord(s[j]) - 48)
                j += 1
            if j == k:
                raise ValueError(f"bad range string {s!r} at {k}")
        if j < n and s[j] != ",":
            raise ValueError(f"bad range string {s!r} at {j}")
        out.update(range(a, b + 1))
        i = j
    return frozenset(out)


def is_compact(s: str, members: frozenset) -> bool:
    """the string lists maximal runs in ascending order, single ports as numbers"""
    runs = []
    for p in sorted(members):
        if runs and runs[-1][1] == p - 1:
            runs[-1][1] = p
        else:
            runs.append([p, p])
    want = ",".join(str(a) if a == b else f"{a}-{b}" for a, b in runs)
    return s == want
