"""C15 - TCAM estimate and the ordering used by sort(): AceGroup/Acl.tcam_count, Ace/Remark/AceGroup.__lt__."""
import z3
from pyvc import spec as S
from pyvc.contract import contract
from pyvc.values import TInt, TBool, TStr, TList, TObj, SV
from . import schemas  # noqa

ITEMS = "AceGroup._items"
# ghost: TC(x) = TCAM contribution of node x; LSUMT(arr, k) = sum of TC over arr[:k]
TC = z3.Function("tcam_of", z3.IntSort(), z3.IntSort())
LSUMT = z3.Function("tcam_prefix_sum", z3.ArraySort(z3.IntSort(), z3.IntSort()), z3.IntSort(), z3.IntSort())


def _is_grp_addr(cx, ace, fld):
    return S._t(cx.get(cx.get(ace, fld), "_type")) == "addrgroup"


def _members(cx, ace, fld):
    n = cx.get(cx.get(ace, fld), "_items").n
    return z3.If(n == 0, 1, n)          # member count of the group, 1 for an empty group


def _tc_ace(cx, ace):
    """|src members| * |dst members| with 1 for a plain address, as a case split (only one case is a product)"""
    sg, dg = _is_grp_addr(cx, ace, "_srcaddr"), _is_grp_addr(cx, ace, "_dstaddr")
    s_, d_ = _members(cx, ace, "_srcaddr"), _members(cx, ace, "_dstaddr")
    return z3.If(sg, z3.If(dg, s_ * d_, s_), z3.If(dg, d_, 1))


def _tc_axioms(cx):
    """definition of the ghosts from the statement: 1 + sum over ACEs of |src members| * |dst members| (1 for a plain address)"""
    x, k = z3.Ints("x!tc k!tc")
    arr = z3.Const("arr!tc", z3.ArraySort(z3.IntSort(), z3.IntSort()))

    class R:
        def __init__(self, t):
            self.t, self.ty = t, TObj("Ace")
    ace = SV(TObj("Ace"), x)
    is_ace = cx.isinstance(ace, "Ace")
    is_grp = cx.isinstance(ace, "AceGroup")
    return [
        z3.ForAll([arr], LSUMT(arr, 0) == 0),
        z3.ForAll([arr, k], z3.Implies(k >= 0, LSUMT(arr, k + 1) == LSUMT(arr, k) + TC(arr[k]))),
        z3.ForAll([x], z3.Implies(is_ace, TC(x) == _tc_ace(cx, ace))),
        z3.ForAll([x], z3.Implies(is_grp, TC(x) == LSUMT(cx.heap_array(ITEMS, "arr")[x], cx.heap_array(ITEMS, "len")[x]))),
        z3.ForAll([x], z3.Implies(z3.And(z3.Not(is_ace), z3.Not(is_grp)), TC(x) == 0))]


def _step_hints(cx, k, v):
    ax = _tc_axioms(cx.old)
    items = cx.get(v.self, "_items")
    return [S.instance(ax[1], items.a, k), S.instance(ax[2], items.a[k]), S.instance(ax[3], items.a[k]), S.instance(ax[4], items.a[k])]


t = contract("cisco_acl.ace_group.AceGroup.tcam_count", dict(self=TObj("AceGroup")), TInt, props=("C15",))
t.require("ghost TC", lambda cx, self: z3.And(*_tc_axioms(cx)))
t.ensure("sum", lambda cx, result, self: S._t(result) == LSUMT(cx.get(self, "_items").a, cx.get(self, "_items").n))
t.loop(0, lambda cx, k, v: S._t(v.counter) == LSUMT(cx.get(v.self, "_items").a, k), hints=[_step_hints])

a = contract("cisco_acl.acl.Acl.tcam_count", dict(self=TObj("Acl")), TInt, props=("C15",))
a.require("ghost TC", lambda cx, self: z3.And(*_tc_axioms(cx)))
a.ensure("one plus sum", lambda cx, result, self: S._t(result) == 1 + LSUMT(cx.get(self, "_items").a, cx.get(self, "_items").n))

# ---------------------------------------------------------------- ordering: different sequence numbers decide alone
for cls, mod in (("Ace", "ace"), ("Remark", "remark"), ("AceGroup", "ace_group")):
    lt = contract(f"cisco_acl.{mod}.{cls}.__lt__", dict(self=TObj(cls), other=TObj("AceBase")), TBool, props=("C15",))
    lt.require("different numbers", lambda cx, self, other: S._t(cx.get(self, "_sequence")) != S._t(cx.get(other, "_sequence")))
    lt.ensure("by number", lambda cx, result, self, other: S._t(result) == (S._t(cx.get(self, "_sequence")) < S._t(cx.get(other, "_sequence"))))
