"""WORK IN PROGRESS (not imported by any check): contract + invariant for helpers.ports_to_string with shaped range tokens.
Most obligations are discharged; three step obligations and post[complete] still time out, so the encoder stays *bounded* in C08."""
import z3
from pyvc import spec as S
from pyvc.contract import contract
from pyvc.values import TInt, TStr, TList
from .c_port import *  # noqa

# ---------------------------------------------------------------- helpers.ports_to_string: the compact range string encodes exactly the set
from pyvc.values import CSV_LEN, CSV_ARR, TOpt, SList as _SL   # noqa: E402

LO = z3.Function("range_token_lo", z3.StringSort(), z3.IntSort())
HI = z3.Function("range_token_hi", z3.StringSort(), z3.IntSort())


def _tok_axioms():
    """assumed string algebra (audited against an independent decoder in the bounded part): the decimal text of n denotes
    the single port n; `a-b` denotes the inclusive range"""
    from pyvc.values import NUMSTR, RNGSTR
    a, b = z3.Ints("a!tok b!tok")
    return [z3.ForAll([a], z3.And(LO(NUMSTR(a)) == a, HI(NUMSTR(a)) == a)),
            z3.ForAll([a, b], z3.And(LO(RNGSTR(a, b)) == a, HI(RNGSTR(a, b)) == b))]


TOK_AX = _tok_axioms()


def _covered(tokens, x):
    """x lies in the range denoted by one of the tokens"""
    t = z3.Int("t!cov")
    return z3.Exists([t], z3.And(0 <= t, t < tokens.n, LO(tokens.a[t]) <= x, x <= HI(tokens.a[t])))


pts = contract("cisco_acl.helpers.ports_to_string", dict(items=TList(TInt)), TStr, props=("C08",),
               ghost={"loop_var_types": {"ranges": TList(TStr), "item_1st": TOpt(TInt)}, "axioms": TOK_AX, "str_shape": "range"})
pts.require("ports", lambda cx, items: S.forall(0, items.n, lambda i: S.at(items, i) >= 0))


def _result_tokens(result):
    return _SL(TStr, CSV_LEN(S._t(result)), CSV_ARR(S._t(result)))


pts.ensure("sound", lambda cx, result, items: z3.Or(items.n == 0, S.forall_int(
    lambda x: z3.Implies(_covered(_result_tokens(result), x), S.mem_term(items, x)))))
pts.ensure("complete", lambda cx, result, items: z3.Or(items.n == 0, S.forall(
    0, items.n, lambda i: _covered(_result_tokens(result), S.at(items, i)))))
pts.ensure("empty", lambda cx, result, items: z3.Implies(items.n == 0, S._t(result) == ""))


def _inv_pts(cx, k, v):
    S_ = v.items                      # the sorted list
    n = S_.n
    none = S.is_none(v.item_1st)
    first = S._t(S.val(v.item_1st)) if not (v.item_1st is None) else z3.IntVal(0)
    x = z3.Int("x!inv")
    orig = cx.entry("items")
    return z3.And(
        S.forall_int(lambda x_: z3.Implies(_covered(v.ranges, x_), S.mem_term(S_, x_))),                   # sound so far
        z3.Implies(none, S.forall(0, k, lambda i: _covered(v.ranges, S.at(S_, i)))),                            # all processed items covered
        z3.Implies(z3.Not(none), z3.And(
            k >= 1, k < n, first <= S.at(S_, k - 1), S.at(S_, k) - S.at(S_, k - 1) <= 1,
            S.forall(0, k, lambda i: z3.Or(_covered(v.ranges, S.at(S_, i)), first <= S.at(S_, i))),
            z3.ForAll([x], z3.Implies(z3.And(first <= x, x <= S.at(S_, k - 1)), S.mem_term(S_, x))))),          # the open run is dense
        z3.Implies(k == n, z3.And(none if False else z3.BoolVal(True), S.forall(0, n, lambda i: _covered(v.ranges, S.at(S_, i))))))


def _pts_hints(cx, k, v):
    """intermediate assertions of the step: what an appended token denotes and how `covered` grows with it"""
    old, new = v.head.ranges, v.ranges
    if not hasattr(old, "n"):
        old = _SL(TStr, z3.IntVal(0), new.a)
    item = S._t(v.item)
    first = S._t(S.val(v.head.item_1st)) if v.head.item_1st is not None else z3.IntVal(0)
    last = new.a[old.n]
    x = z3.Int("x!h")
    grown = new.n > old.n
    return [
        S.instance(TOK_AX[0], item), S.instance(TOK_AX[1], first, item),
        z3.Or(new.n == old.n, new.n == old.n + 1),
        z3.ForAll([x], _covered(new, x) == z3.Or(_covered(old, x), z3.And(grown, LO(last) <= x, x <= HI(last)))),
    ]


pts.loop(0, _inv_pts, hints=[_pts_hints])
