"""Field schemas (heap layout) of the repository classes, as far as the contracts need them."""
from pyvc.contract import schema
from pyvc.values import TInt, TBool, TStr, TNet, TList, TObj, TOpt, TBV, TSet

schema("Base", _platform=TStr)
schema("AceBase", _sequence=TInt, _type=TStr, _protocol_nr=TBool, _port_nr=TBool)
schema("AceGroup", _items=TList(TObj("AceBase")), _name=TStr, _group_by=TStr)
schema("AddressAg", _sequence=TInt)
schema("AddrGroup", _items=TList(TObj("AddressAg")), _name=TStr)
schema("Port", _operator=TStr, _items=TList(TInt), _ports=TList(TInt), _sport=TStr, _protocol=TStr, _port_nr=TBool)
schema("Wildcard", _prefix=TBV, _wildmask=TBV, _ncwb=TList(TInt), _prefixlen=TInt, _max_ncwb=TInt, ipnet=TOpt(TNet))
schema("Ace", _action=TStr, _protocol=TObj("Protocol"), _srcaddr=TObj("Address"), _srcport=TObj("Port"),
       _dstaddr=TObj("Address"), _dstport=TObj("Port"), _option=TObj("Option"))
schema("Protocol", _number=TInt, _protocol_nr=TBool, _has_port=TBool)
schema("Option", _line=TStr, _flags=TList(TStr), _logs=TList(TStr))
schema("AddressBase", _type=TStr, _addrgroup=TStr, _wildcard=TOpt(TObj("Wildcard")), _items=TList(TObj("AddressBase")))

# ghost: the texts that some WARNING record mentions (one global log object); written by logging.warning, read with S.warned(cx, text)
schema("Log", warned=TSet(TStr))
