"""Field schemas (heap layout) of the repository classes, as far as the contracts need them."""
from pyvc.contract import schema
from pyvc.values import TInt, TBool, TStr, TNet, TList, TObj, TOpt, TBV

schema("Base", _platform=TStr)
schema("AceBase", _sequence=TInt, _type=TStr, _protocol_nr=TBool, _port_nr=TBool)
schema("AceGroup", _items=TList(TObj("AceBase")), _name=TStr, _group_by=TStr)
schema("AddressAg", _sequence=TInt)
schema("AddrGroup", _items=TList(TObj("AddressAg")), _name=TStr)
schema("Port", _operator=TStr, _items=TList(TInt), _ports=TList(TInt), _sport=TStr, _protocol=TStr, _port_nr=TBool)
schema("Wildcard", _prefix=TBV, _wildmask=TBV, _ncwb=TList(TInt), _prefixlen=TInt, _max_ncwb=TInt, ipnet=TOpt(TNet))
