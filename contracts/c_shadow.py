"""C03 / C11 - Ace.shadow_of and its six field tests, over object views guaranteed by the class invariants."""
import z3
from pyvc import spec as S
from pyvc.contract import contract
from pyvc.values import TInt, TBool, TStr, TNet, TList, TObj, TOpt, Net
from . import schemas  # noqa
from . import c_helpers  # noqa  (helpers.subnet_of is called by contract)

NETARR = z3.ArraySort(z3.IntSort(), Net)
# ghost: the list of networks of an address object (value of AddressBase.ipnets(); the heap is not modified here)
IPN_LEN = z3.Function("ipnets_len", z3.IntSort(), z3.IntSort())
IPN_ARR = z3.Function("ipnets_arr", z3.IntSort(), NETARR)

# ---------------------------------------------------------------- assumed here, proved elsewhere
n = contract("cisco_acl.protocol.Protocol.name.fget", dict(self=TObj("Protocol")), TStr, verify=False, props=("C03", "C11"),
             note="name == 'ip' <=> number == 0 on every platform: finite table fact, decided completely by the C09 check (fact g)")
n.ensure("ip<=>0", lambda cx, result, self: S.Iff(S.eq(result, "ip"), S.eq(cx.get(self, "_number"), 0)))

i = contract("cisco_acl.address_base.AddressBase.ipnets", dict(self=TObj("AddressBase")), TList(TNet), verify=False, props=("C03", "C11", "C13"),
             note="value of ipnets() named by ghost functions; its own contract (C13/C05) says which networks these are")
i.ensure("ghost", lambda cx, result, self: z3.And(result.n == IPN_LEN(self.t), result.a == IPN_ARR(self.t), result.n >= 0))


# ---------------------------------------------------------------- semantic relations (from the statement of C03)
def ipn(a):
    from pyvc.values import SList
    return SList(TNet, IPN_LEN(a.t), IPN_ARR(a.t))


def addr_sub(bottom, top):
    """every network of bottom is inside some network of top, both non-empty (=> address set inclusion, lemma L13.sound)"""
    B, T = ipn(bottom), ipn(top)
    return z3.And(T.n > 0, B.n > 0, S.forall_in(B, lambda b: S.exists_in(T, lambda t: S.net_sub(b, t))))


def port_view(cx, port):
    return S._t(cx.get(port, "_operator")), cx.get(port, "_ports")


def port_sub(cx, bottom, top):
    """PktPorts(bottom) subset of PktPorts(top); an entry without operator matches every packet"""
    ob, pb = port_view(cx, bottom)
    ot, pt = port_view(cx, top)
    return z3.Or(ot == "", z3.And(ob != "", S.forall_in(pb, lambda p: S.mem_term(pt, p))))


def port_inv(cx, port):
    """class invariant of Port (established by Port.line.fset): no operator => no ports"""
    op, ports = port_view(cx, port)
    return z3.Implies(op == "", ports.n == 0)


def flag_sub(cx, bottom, top):
    fb, ft = cx.get(bottom, "_flags"), cx.get(top, "_flags")
    return z3.Or(ft.n == 0, z3.And(fb.n > 0, S.forall_in(fb, lambda f: S.mem_term(ft, f))))


def proto_sub(cx, bottom, top):
    nb, nt = S._t(cx.get(bottom, "_number")), S._t(cx.get(top, "_number"))
    return z3.Or(nt == 0, nt == nb)


def fld(cx, ace, name):
    return cx.get(ace, name)


def is_nc(cx, addr):
    """non-contiguous wildcard: typed 'wildcard' and without a single network"""
    w = cx.get(addr, "_wildcard")
    none_ipnet = z3.Or(w.isnone, cx.get(w.val, "ipnet").isnone)
    return z3.And(S._t(cx.get(addr, "_type")) == "wildcard", none_ipnet)


def addr_inv(cx, addr):
    """class invariant of Address (established by its line setter): a non-group address has a Wildcard; a wildcard
    object without a single network is typed 'wildcard'"""
    w = cx.get(addr, "_wildcard")
    t = S._t(cx.get(addr, "_type"))
    return z3.And(z3.Implies(t != "addrgroup", z3.Not(w.isnone)),
                  z3.Implies(z3.And(z3.Not(w.isnone), cx.get(w.val, "ipnet").isnone), t == "wildcard"))


def no_group(cx, a, b):
    return z3.And(S._t(cx.get(a, "_type")) != "addrgroup", S._t(cx.get(b, "_type")) != "addrgroup")


def skip_blocks(cx, skip, a, b):
    """the statement of C11: with skip options the answer is false whenever a skipped address kind is involved"""
    ta, tb = S._t(cx.get(a, "_type")), S._t(cx.get(b, "_type"))
    grp = z3.And(S.mem_term(skip, "addrgroup"), z3.Or(ta == "addrgroup", tb == "addrgroup"))
    ncw = z3.And(S.mem_term(skip, "nc_wildcard"), z3.Or(is_nc(cx, a), is_nc(cx, b)))
    return z3.Or(grp, ncw)


# ---------------------------------------------------------------- the six field tests
for side in ("src", "dst"):
    a = contract(f"cisco_acl.ace.Ace._shadow_of__{side}addr", dict(self=TObj("Ace"), other=TObj("Ace"), skip=TList(TStr)), TBool,
                 props=("C03", "C11"))
    a.ensure("sound", lambda cx, result, self, other, skip, side=side: z3.Implies(
        S._t(result), addr_sub(fld(cx, self, f"_{side}addr"), fld(cx, other, f"_{side}addr"))))
    a.ensure("skip", lambda cx, result, self, other, skip, side=side: z3.Implies(
        skip_blocks(cx, skip, fld(cx, self, f"_{side}addr"), fld(cx, other, f"_{side}addr")), z3.Not(S._t(result))))
    a.require("Inv(Address)", lambda cx, self, other, skip, side=side: z3.And(
        addr_inv(cx, fld(cx, self, f"_{side}addr")), addr_inv(cx, fld(cx, other, f"_{side}addr"))))
    a.ensure("exact", lambda cx, result, self, other, skip, side=side: z3.Implies(z3.And(
        no_group(cx, fld(cx, self, f"_{side}addr"), fld(cx, other, f"_{side}addr")),
        z3.Not(skip_blocks(cx, skip, fld(cx, self, f"_{side}addr"), fld(cx, other, f"_{side}addr"))),
        addr_sub(fld(cx, self, f"_{side}addr"), fld(cx, other, f"_{side}addr"))), S._t(result)))

    p = contract(f"cisco_acl.ace.Ace._shadow_of__{side}port", dict(self=TObj("Ace"), other=TObj("Ace")), TBool, props=("C03", "C11"))
    p.require("Inv(Port)", lambda cx, self, other, side=side: z3.And(port_inv(cx, fld(cx, self, f"_{side}port")),
                                                                     port_inv(cx, fld(cx, other, f"_{side}port"))))
    p.ensure("sound", lambda cx, result, self, other, side=side: z3.Implies(
        S._t(result), port_sub(cx, fld(cx, self, f"_{side}port"), fld(cx, other, f"_{side}port"))))
    p.ensure("exact", lambda cx, result, self, other, side=side: z3.Implies(z3.And(
        port_sub(cx, fld(cx, self, f"_{side}port"), fld(cx, other, f"_{side}port")),
        # C11 domain: bottom port sets are non-empty
        z3.Implies(port_view(cx, fld(cx, self, f"_{side}port"))[0] != "", port_view(cx, fld(cx, self, f"_{side}port"))[1].n > 0)),
        S._t(result)))

o = contract("cisco_acl.ace.Ace._shadow_of__option", dict(self=TObj("Ace"), other=TObj("Ace")), TBool, props=("C03", "C11"))
o.ensure("sound", lambda cx, result, self, other: z3.Implies(S._t(result), flag_sub(cx, fld(cx, self, "_option"), fld(cx, other, "_option"))))
o.ensure("exact", lambda cx, result, self, other: z3.Implies(flag_sub(cx, fld(cx, self, "_option"), fld(cx, other, "_option")), S._t(result)))

r = contract("cisco_acl.ace.Ace._shadow_of__protocol", dict(self=TObj("Ace"), other=TObj("Ace")), TBool, props=("C03", "C11"))
r.ensure("exact", lambda cx, result, self, other: S._t(result) == proto_sub(cx, fld(cx, self, "_protocol"), fld(cx, other, "_protocol")))


# ---------------------------------------------------------------- shadow_of: conjunction of the field tests + same action
def all_fields(cx, self, other):
    return z3.And(
        S._t(cx.get(self, "_action")) == S._t(cx.get(other, "_action")),
        proto_sub(cx, fld(cx, self, "_protocol"), fld(cx, other, "_protocol")),
        addr_sub(fld(cx, self, "_srcaddr"), fld(cx, other, "_srcaddr")),
        addr_sub(fld(cx, self, "_dstaddr"), fld(cx, other, "_dstaddr")),
        port_sub(cx, fld(cx, self, "_srcport"), fld(cx, other, "_srcport")),
        port_sub(cx, fld(cx, self, "_dstport"), fld(cx, other, "_dstport")),
        flag_sub(cx, fld(cx, self, "_option"), fld(cx, other, "_option")))


def ports_inv_all(cx, self, other):
    return z3.And(*[port_inv(cx, fld(cx, x, f)) for x in (self, other) for f in ("_srcport", "_dstport")])


def bottom_ports_nonempty(cx, self):
    out = []
    for f in ("_srcport", "_dstport"):
        op, ports = port_view(cx, fld(cx, self, f))
        out.append(z3.Implies(op != "", ports.n > 0))
    return z3.And(*out)


s = contract("cisco_acl.ace.Ace.shadow_of", dict(self=TObj("Ace"), other=TObj("Ace"), skip=TList(TStr)), TBool, props=("C03", "C11"))
s.require("Inv(Port)", lambda cx, self, other, skip: ports_inv_all(cx, self, other))
s.require("Inv(Address)", lambda cx, self, other, skip: z3.And(*[addr_inv(cx, fld(cx, x, f)) for x in (self, other) for f in ("_srcaddr", "_dstaddr")]))
s.ensure("sound", lambda cx, result, self, other, skip: z3.Implies(S._t(result), all_fields(cx, self, other)))
s.ensure("skip", lambda cx, result, self, other, skip: z3.Implies(z3.Or(
    skip_blocks(cx, skip, fld(cx, self, "_srcaddr"), fld(cx, other, "_srcaddr")),
    skip_blocks(cx, skip, fld(cx, self, "_dstaddr"), fld(cx, other, "_dstaddr"))), z3.Not(S._t(result))))
s.ensure("exact", lambda cx, result, self, other, skip: z3.Implies(z3.And(
    all_fields(cx, self, other), bottom_ports_nonempty(cx, self),
    no_group(cx, fld(cx, self, "_srcaddr"), fld(cx, other, "_srcaddr")), no_group(cx, fld(cx, self, "_dstaddr"), fld(cx, other, "_dstaddr")),
    z3.Not(skip_blocks(cx, skip, fld(cx, self, "_srcaddr"), fld(cx, other, "_srcaddr"))),
    z3.Not(skip_blocks(cx, skip, fld(cx, self, "_dstaddr"), fld(cx, other, "_dstaddr")))), S._t(result)))
