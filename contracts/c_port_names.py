"""C08 - the text path of Port for operands written as numbers OR as port keywords.

`PortName(protocol, platform, version).names()` is an assumed contract here: it returns the keyword table of that platform / software family, a finite map
name -> number with numbers in 1..65535 (every table is decided entry by entry in C09: `table/<T>[name]=standard`).  The table is a ghost map keyed by the
three constructor arguments, so that the contracts of Port can speak about "the table of this port expression"."""
import z3
from pyvc import spec as S
from pyvc.contract import contract, schema
from pyvc.values import TInt, TBool, TStr, TList, TObj, TDict, SList, SDict, ISDIGIT, STRINT, numstr_axioms
from . import schemas  # noqa
from .c_port import OPS, ALL, ascending, _op, _mem

schema("Base", version=TInt)              # the SwVersion object: an opaque handle here
schema("PortName", _pn_protocol=TStr, _pn_platform=TStr, _pn_version=TInt)

NAME_OK = z3.Function("port_keyword", z3.StringSort(), z3.StringSort(), z3.IntSort(), z3.StringSort(), z3.BoolSort())     # (protocol, platform, version, name)
NAME_NR = z3.Function("port_keyword_number", z3.StringSort(), z3.StringSort(), z3.IntSort(), z3.StringSort(), z3.IntSort())


def _key(cx, self):
    return S._t(cx.get(self, "_protocol")), S._t(cx.get(self, "_platform")), S._t(cx.get(self, "version"))


def known(cx, self, s):
    return NAME_OK(*_key(cx, self), s)


def val(cx, self, s):
    """the number a token denotes: a decimal number, or the number of the keyword in the table of this port expression"""
    return z3.If(ISDIGIT(s), STRINT(s), NAME_NR(*_key(cx, self), s))


def table_axioms():
    a, b, s = z3.String("a!tb"), z3.String("b!tb"), z3.String("s!tb")
    v = z3.Int("v!tb")
    return [z3.ForAll([a, b, v, s], z3.Implies(NAME_OK(a, b, v, s), z3.And(1 <= NAME_NR(a, b, v, s), NAME_NR(a, b, v, s) <= ALL, z3.Not(ISDIGIT(s)))))]


new = contract("new.PortName", dict(self=TObj("PortName"), protocol=TStr, platform=TStr, version=TInt), TObj("PortName"), verify=False, props=("C08",),
               note="constructor: stores its three arguments (normalisation of the platform text and of the version object is outside the model)")
new.ensure("fields", lambda cx, result, self, protocol, platform, version: z3.And(
    S._t(cx.get(result, "_pn_protocol")) == S._t(protocol), S._t(cx.get(result, "_pn_platform")) == S._t(platform), S._t(cx.get(result, "_pn_version")) == S._t(version)))

nm = contract("cisco_acl.port_name.PortName.names", dict(self=TObj("PortName")), TDict(TStr, TInt), verify=False, props=("C08",),
              note="the keyword table of the platform / software family (finite, numbers in 1..65535: decided per entry in C09)")
nm.ensure("table", lambda cx, result, self: z3.And(
    z3.ForAll([z3.String("s!nm")], result.dom[z3.String("s!nm")] == NAME_OK(S._t(cx.get(self, "_pn_protocol")), S._t(cx.get(self, "_pn_platform")), S._t(cx.get(self, "_pn_version")), z3.String("s!nm"))),
    z3.ForAll([z3.String("s!nm")], result.map[z3.String("s!nm")] == NAME_NR(S._t(cx.get(self, "_pn_protocol")), S._t(cx.get(self, "_pn_platform")), S._t(cx.get(self, "_pn_version")), z3.String("s!nm")))))


def tokens_ok(cx, self, items):
    return S.forall(0, items.n, lambda i: z3.Or(ISDIGIT(items.a[i]), known(cx, self, items.a[i])))


def refused(cx, self, items):
    op = _op(cx, self)
    n = items.n
    plat = S._t(cx.get(self, "_platform"))
    return z3.Or(n == 0,
                 S.exists(0, n, lambda i: z3.And(z3.Not(ISDIGIT(items.a[i])), z3.Not(known(cx, self, items.a[i])))),
                 S.exists(0, n, lambda i: z3.Or(val(cx, self, items.a[i]) < 0, val(cx, self, items.a[i]) > ALL)),
                 z3.And(z3.Or(op == "lt", op == "gt"), n != 1),
                 z3.And(op == "range", n != 2),
                 z3.And(z3.Or(op == "eq", op == "neq"), z3.Or(plat == "asa", plat == "nxos"), n != 1))


t = contract("cisco_acl.port.Port._line__items_to_ints#tokens", dict(self=TObj("Port"), items=TList(TStr)), TList(TInt), props=("C08",),
             ghost={"str_shape": "range", "loop_var_types": {"ports": TList(TInt)}, "axioms": numstr_axioms() + table_axioms()})
t.may_raise("ValueError", lambda cx, self, items: refused(cx, self, items), exact=True)
t.ensure("length", lambda cx, result, self, items: result.n == items.n)
t.ensure("ascending", lambda cx, result, self, items: ascending(result, strict=False))
t.ensure("same numbers", lambda cx, result, self, items: z3.And(
    S.forall(0, items.n, lambda i: _mem(result, val(cx, self, items.a[i]))),
    S.forall(0, result.n, lambda j: S.exists(0, items.n, lambda i: result.a[j] == val(cx, self, items.a[i])))))
t.ensure("range", lambda cx, result, self, items: S.forall(0, result.n, lambda j: z3.And(0 <= result.a[j], result.a[j] <= ALL)))
t.loop(0, lambda cx, k, v: z3.And(v.ports.n == k, S.forall(0, k, lambda j: v.ports.a[j] == val(cx, v.self, v.items.a[j])),
                                  S.forall(0, k, lambda j: z3.Or(ISDIGIT(v.items.a[j]), known(cx, v.self, v.items.a[j])))))
t.loop(1, lambda cx, k, v: z3.And(v.ports.n == v.items.n, S.forall(0, v.items.n, lambda j: v.ports.a[j] == val(cx, v.self, v.items.a[j])),
                                  tokens_ok(cx, v.self, v.items),
                                  S.forall(0, k, lambda j: z3.And(0 <= v.ports.a[j], v.ports.a[j] <= ALL))))
