"""C14 - address_base.collapse_: the work-list loop keeps the covered address set.

Networks are abstract values; `NET_IN(a, n)` (address a belongs to network n) is uninterpreted here and constrained only by
the facts the engine adds per use of supernet()/subnets()/subnet_of, each proved on the bit-level definitions of ipaddress
in pyvc.lemmas.net_lemmas (and those definitions are cross-checked against CPython in props/C14).

Assumed (listed in the evidence): AddressBase.ipnets() of an input object returns the ghost list IPN(o); Base.copy()
returns a new object; after `o.prefix = str(n)` the ghost list of o is [n]; sorted() of objects is a permutation.
Termination of the while loop is not proved (no measure is stated)."""
import z3
from pyvc import spec as S
from pyvc.contract import contract, schema
from pyvc.values import TInt, TBool, TStr, TNet, TList, TObj, TOpt, Net, SList, SV, BVW, NET_IN, NETSTR, NETPARSE
from . import schemas  # noqa
from .c_shadow import IPN_LEN, IPN_ARR, ipn
from . import c_shadow

schema("Base", note=TOpt(TInt))       # `note` is an opaque user value; collapse_ only stores None into it

# ipnets() under binders: the result is the ghost term itself
c_shadow.i.ghost["pure_result"] = lambda cx, self: ipn(self)
c_shadow.i.props = tuple(set(c_shadow.i.props) | {"C14"})

cp = contract("cisco_acl.base.Base.copy", dict(self=TObj("AddressBase")), TObj("AddressBase"), verify=False, props=("C14",),
              note="copy() = Class(**data()) returns a NEW object (object-graph code, checked natively in C16); nothing is assumed about its ghost list")

pf = contract("cisco_acl.address_base.AddressBase.prefix.fset", dict(self=TObj("AddressBase"), prefix=TStr), None, verify=False, props=("C14",),
              modifies=["AddressBase._type", "AddressBase._addrgroup", "AddressBase._wildcard", "AddressBase._items"],
              note="after `o.prefix = str(n)` o.ipnets() == [n] (or ValueError when the platform cannot spell n); checked natively in C06/C14")
pf.may_raise("ValueError")
pf.ensure("ghost", lambda cx, result, self, prefix: z3.And(IPN_LEN(self.t) == 1, IPN_ARR(self.t)[0] == NETPARSE(S._t(prefix))))


def _a():
    return z3.BitVec("a!cov", BVW)


def cover_list(L, a):
    """address a is in some network of the list L"""
    i = z3.Int("cov!i")
    return z3.Exists([i], z3.And(0 <= i, i < L.n, NET_IN(a, L.a[i])))


def cover_in(addresses, a):
    """address a is in some network of some input object"""
    i, k = z3.Int("cin!i"), z3.Int("cin!k")
    o = addresses.a[i]
    return z3.Exists([i, k], z3.And(0 <= i, i < addresses.n, 0 <= k, k < IPN_LEN(o), NET_IN(a, IPN_ARR(o)[k])))


def cover_out(result, a):
    j = z3.Int("cout!j")
    o = result.a[j]
    return z3.Exists([j], z3.And(0 <= j, j < result.n, IPN_LEN(o) == 1, NET_IN(a, IPN_ARR(o)[0])))


def _nc(cx, addresses, q):
    """the library's own refusal test on element q: type == 'wildcard' and no single network"""
    o = SV(TObj("AddressBase"), addresses.a[q])
    w = cx.get(o, "_wildcard")
    ip = cx.get(w.val, "ipnet")
    return z3.And(S._t(cx.get(o, "_type")) == "wildcard", z3.Or(w.isnone, ip.isnone))


def _axioms():
    n = z3.Const("n!ax", Net)
    o = z3.Int("o!ax")
    a, b, t = z3.BitVec("a!ax", BVW), z3.Const("b!ax", Net), z3.Const("t!ax", Net)
    return [z3.ForAll([n], NETPARSE(NETSTR(n)) == n), z3.ForAll([o], IPN_LEN(o) >= 0),
            # N.sub (pyvc.lemmas engine.net.sub): a subnet has no address outside its supernet
            z3.ForAll([a, b, t], z3.Implies(z3.And(S.NET_SUB(b, t), NET_IN(a, b)), NET_IN(a, t)))]


c = contract("cisco_acl.address_base.collapse_", dict(addresses=TList(TObj("AddressBase"))), TList(TObj("AddressBase")), props=("C14",),
             modifies=["Base.note", "AddressBase._type", "AddressBase._addrgroup", "AddressBase._wildcard", "AddressBase._items"],
             ghost={"loop_var_types": {"collapsed": TList(TNet), "addresses_": TList(TObj("AddressBase"))}, "axioms": _axioms(), "net_cover": True})
c.may_raise("TypeError", lambda cx, addresses: S.exists(0, addresses.n, lambda q: _nc(cx, addresses, q)), exact=True)
c.may_raise("ValueError")
c.ensure("cover", lambda cx, result, addresses: z3.ForAll([_a()], cover_out(result, _a()) == cover_in(addresses, _a())))
c.ensure("single", lambda cx, result, addresses: S.forall(0, result.n, lambda j: IPN_LEN(result.a[j]) == 1))
c.ensure("empty", lambda cx, result, addresses: z3.Implies(addresses.n == 0, result.n == 0))
# loop 0: the refusal scan
c.loop(0, lambda cx, k, v: S.forall(0, k, lambda q: z3.Not(_nc(cx, v.addresses, q))), modifies=[])
# ghost: COVIN(a) names "address a is covered by the input" (contract-local ghost definition)
COVIN = z3.Function("covered_by_input", z3.BitVecSort(BVW), z3.BoolSort())
c.ghost["defs"] = [lambda cx, addresses: z3.ForAll([_a()], COVIN(_a()) == cover_in(addresses, _a()))]


def sound_list(L):
    """every network of L covers input addresses only"""
    a, i = _a(), z3.Int("snd!i")
    return z3.ForAll([a, i], z3.Implies(z3.And(0 <= i, i < L.n, NET_IN(a, L.a[i])), COVIN(a)))


# loop 1: the work list - what is covered by (work list + finished list) never changes
c.loop(1, lambda cx, k, v: z3.And(
    v.ipnets.n >= 0, v.collapsed.n >= 0, sound_list(v.ipnets), sound_list(v.collapsed),
    z3.ForAll([_a()], z3.Implies(COVIN(_a()), z3.Or(cover_list(v.ipnets, _a()), cover_list(v.collapsed, _a()))))), modifies=[])
# loop 2: one result object per finished network
c.loop(2, lambda cx, k, v: z3.And(
    v.addresses_.n == k,
    S.forall(0, k, lambda j: z3.And(IPN_LEN(v.addresses_.a[j]) == 1, IPN_ARR(v.addresses_.a[j])[0] == v.collapsed.a[j])),
    sound_list(v.collapsed),
    z3.ForAll([_a()], z3.Implies(COVIN(_a()), cover_list(v.collapsed, _a())))))
