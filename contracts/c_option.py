"""C03 / C11 - Option.line.fset: which words of an option text are flags (they take part in matching) and which are log keywords.

The shadow contracts (c_shadow) read Option._flags; this contract states how the parser fills it: every word of the text that is not a log keyword is a
flag, wherever it stands (before or after a log keyword), and nothing else is.  Texts are abstract: a line is known by its whitespace tokens (WS_LEN / WS_ARR)."""
import z3
from pyvc import spec as S
from pyvc.contract import contract
from pyvc.values import TStr, TObj, SList, WS_LEN, WS_ARR
from . import schemas  # noqa
from .c_wildcard import il as _init_line  # noqa  (helpers.init_line: same whitespace tokens)

_init_line.props = tuple(set(_init_line.props) | {"C03", "C11"})
LOGS = ("log", "log-input")


def toks(line):
    return SList(TStr, WS_LEN(S._t(line)), WS_ARR(S._t(line)))


def is_log(s):
    return z3.Or(*[s == w for w in LOGS])


def _ws_axioms():
    """the whitespace-token model: a token is never empty"""
    t, i = z3.String("t!ws"), z3.Int("i!ws")
    return [z3.ForAll([t, i], z3.Implies(z3.And(0 <= i, i < WS_LEN(t)), WS_ARR(t)[i] != z3.StringVal("")))]


ol = contract("cisco_acl.option.Option.line.fset", dict(self=TObj("Option"), line=TStr), None, props=("C03", "C11"),
              modifies=["Option._line", "Option._flags", "Option._logs"], ghost={"axioms": _ws_axioms()})
ol.may_raise("ValueError", None)
ol.ensure("flags", lambda cx, result, self, line: z3.ForAll([z3.String("s!fl")], S.mem_term(cx.get(self, "_flags"), z3.String("s!fl")) == z3.And(
    S.mem_term(toks(line), z3.String("s!fl")), z3.Not(is_log(z3.String("s!fl"))))))
ol.ensure("logs", lambda cx, result, self, line: z3.ForAll([z3.String("s!lg")], S.mem_term(cx.get(self, "_logs"), z3.String("s!lg")) == z3.And(
    S.mem_term(toks(line), z3.String("s!lg")), is_log(z3.String("s!lg")))))
# instances of the two clauses above without a quantified word: a changed body that breaks the general clause usually breaks one of these, and the solver
# finds a counter-model for them (for the general clause it mostly answers unknown)
for _w in LOGS:
    ol.ensure(f"`{_w}` is no flag", lambda cx, result, self, line, _w=_w: z3.Not(S.mem_term(cx.get(self, "_flags"), z3.StringVal(_w))))
    ol.ensure(f"`{_w}` is logged", lambda cx, result, self, line, _w=_w: S.mem_term(cx.get(self, "_logs"), z3.StringVal(_w)) == S.mem_term(toks(line), z3.StringVal(_w)))
ol.ensure("last word", lambda cx, result, self, line: z3.Implies(z3.And(toks(line).n >= 1, z3.Not(is_log(toks(line).a[toks(line).n - 1]))),
                                                                 S.mem_term(cx.get(self, "_flags"), toks(line).a[toks(line).n - 1])))
ol.loop(0, lambda cx, k, v: z3.BoolVal(True))
