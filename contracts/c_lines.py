"""C12 - no rule line is lost without a trace: AceGroup._line_to_oace paths, helpers.is_line_for_acl."""
import z3
from pyvc import spec as S
from pyvc.contract import contract
from pyvc.values import TInt, TBool, TStr, TList, TObj, TOpt, SV, Opaque
from . import schemas  # noqa

# IS(line): the documented shape of an ACL body line:  [digits SPACE]* (permit|deny|remark) SPACE ...
IS = z3.Function("is_acl_line", z3.StringSort(), z3.BoolSort())


def _starts(t):
    return z3.Or(z3.PrefixOf(z3.StringVal("permit "), t), z3.PrefixOf(z3.StringVal("remark "), t), z3.PrefixOf(z3.StringVal("deny "), t))


def _isdigit(t):
    return z3.StrToInt(t) >= 0


def _unfold(t):
    """one unfolding of the recursive definition of IS"""
    i = z3.IndexOf(t, z3.StringVal(" "), 0)
    first = z3.If(i >= 0, z3.SubString(t, 0, i), t)     # same term shapes as pyvc's model of s.split(" ", 1)
    rest = z3.SubString(t, i + 1, z3.Length(t) - i - 1)
    return z3.Or(_starts(t), z3.And(z3.Not(_starts(t)), i >= 0, _isdigit(first), IS(rest)))


def _mk_is_def():
    s = z3.String("s!is")
    return z3.ForAll([s], IS(s) == _unfold(s))


IS_DEF = _mk_is_def()


def _is_def():
    return IS_DEF


isl = contract("cisco_acl.helpers.is_line_for_acl", dict(line=TStr), TBool, props=("C12", "C20"), ghost={"axioms": [_is_def]})
isl.ensure("shape", lambda cx, result, line: S._t(result) == IS(S._t(line)),
           hints=[lambda cx, result, v, line: S.instance(IS_DEF, v.line)])
# iterative form (after the fix): the loop keeps IS(line) == IS(line at entry) and strictly shortens the text
isl.loop(0, lambda cx, k, v: IS(S._t(v.line)) == IS(S._t(cx.entry("line"))), decreases=lambda cx, v: z3.Length(S._t(v.line)),
         hints=[lambda cx, k, v: S.instance(IS_DEF, v.head.line)])

# ---------------------------------------------------------------- callees of _line_to_oace (assumed here)
lta = contract("cisco_acl.ace_group.AceGroup._line_to_ace", dict(self=TObj("AceGroup"), line=TStr), TObj("AceBase"), verify=False, props=("C12",),
               note="returns an Ace or a Remark built from the line, or raises ValueError (NetmaskValueError included) / TypeError: regex front end, bounded only")
lta.may_raise("NetmaskValueError", None)
lta.may_raise("ValueError", None)
lta.may_raise("TypeError", None)
OBJLINE = z3.Function("source_line_of", z3.IntSort(), z3.StringSort())
lta.ensure("source", lambda cx, result, self, line: OBJLINE(result.t) == S._t(line))

SKIPS = ("statistics ", "description ", "ignore ")


def mentions(msg, line):
    """the log message contains the text of the line"""
    if isinstance(msg, Opaque):
        for p in msg.parts:
            if isinstance(p, SV) and p.ty is TStr:
                s = z3.Solver()
                s.set("timeout", 2000)
                s.add(z3.Not(z3.Contains(p.t, S._t(line))))
                if s.check() == z3.unsat:
                    return z3.BoolVal(True)
        return z3.BoolVal(False)
    if isinstance(msg, SV) and msg.ty is TStr:
        return z3.Contains(msg.t, S._t(line))
    if isinstance(msg, str):
        return z3.Contains(z3.StringVal(msg), S._t(line))
    return z3.BoolVal(False)


def logged_warning_about(cx, line):
    recs = [m for lvl, m in cx.logged() if lvl == "warning"]
    return z3.Or(*[mentions(m, line) for m in recs]) if recs else z3.BoolVal(False)


lo = contract("cisco_acl.ace_group.AceGroup._line_to_oace", dict(self=TObj("AceGroup"), line=TStr, warning=TBool), TOpt(TObj("AceBase")),
              props=("C12",))
lo.may_raise("NetmaskValueError", None)       # re-raised: the whole construction fails
lo.may_raise("TypeError", None)
lo.ensure("accounted", lambda cx, result, self, line, warning: z3.Implies(
    z3.And(S.is_none(result), S._t(line) != "", S._t(warning)),
    z3.Or(logged_warning_about(cx, line), *[z3.PrefixOf(z3.StringVal(p), S._t(line)) for p in SKIPS])))
lo.ensure("kept", lambda cx, result, self, line, warning: z3.Implies(z3.Not(S.is_none(result)), z3.And(
    IS(S._t(line)), OBJLINE(S._t(S.val(result))) == S._t(line))))
lo.ensure("silent only when asked", lambda cx, result, self, line, warning: z3.Implies(z3.Not(S._t(warning)), z3.BoolVal(len(cx.logged()) == 0)))
