"""C12 - no rule line is lost without a trace: AceGroup._line_to_oace paths, helpers.is_line_for_acl."""
import z3
from pyvc import spec as S
from pyvc.contract import contract
from pyvc.values import TInt, TBool, TStr, TList, TObj, TOpt, SV, Opaque
from . import schemas  # noqa

# IS(line): the documented shape of an ACL body line:  [digits SPACE]* (permit|deny|remark) SPACE ...
IS = z3.Function("is_acl_line", z3.StringSort(), z3.BoolSort())


def _starts(t):
    return z3.Or(z3.PrefixOf(z3.StringVal("permit "), t), z3.PrefixOf(z3.StringVal("remark "), t), z3.PrefixOf(z3.StringVal("deny "), t))


def _isdigit(t):
    return z3.StrToInt(t) >= 0


def _unfold(t):
    """one unfolding of the recursive definition of IS"""
    i = z3.IndexOf(t, z3.StringVal(" "), 0)
    first = z3.If(i >= 0, z3.SubString(t, 0, i), t)     # same term shapes as pyvc's model of s.split(" ", 1)
    rest = z3.SubString(t, i + 1, z3.Length(t) - i - 1)
    return z3.Or(_starts(t), z3.And(z3.Not(_starts(t)), i >= 0, _isdigit(first), IS(rest)))


def _mk_is_def():
    s = z3.String("s!is")
    return z3.ForAll([s], IS(s) == _unfold(s))


IS_DEF = _mk_is_def()


def _is_def():
    return IS_DEF


isl = contract("cisco_acl.helpers.is_line_for_acl", dict(line=TStr), TBool, props=("C12", "C20"), ghost={"axioms": [_is_def]})
isl.ensure("shape", lambda cx, result, line: S._t(result) == IS(S._t(line)),
           hints=[lambda cx, result, v, line: S.instance(IS_DEF, v.line)])
# iterative form (after the fix): the loop keeps IS(line) == IS(line at entry) and strictly shortens the text
isl.loop(0, lambda cx, k, v: IS(S._t(v.line)) == IS(S._t(cx.entry("line"))), decreases=lambda cx, v: z3.Length(S._t(v.line)),
         hints=[lambda cx, k, v: S.instance(IS_DEF, v.head.line)])

# ---------------------------------------------------------------- callees of _line_to_oace (assumed here)
lta = contract("cisco_acl.ace_group.AceGroup._line_to_ace", dict(self=TObj("AceGroup"), line=TStr), TObj("AceBase"), verify=False, props=("C12",),
               note="returns an Ace or a Remark built from the line, or raises ValueError (NetmaskValueError included) / TypeError: regex front end, bounded only")
lta.may_raise("NetmaskValueError", None)
lta.may_raise("ValueError", None)
lta.may_raise("TypeError", None)
OBJLINE = z3.Function("source_line_of", z3.IntSort(), z3.StringSort())
lta.ensure("source", lambda cx, result, self, line: OBJLINE(result.t) == S._t(line))

SKIPS = ("statistics ", "description ", "ignore ")


def mentions(msg, line):
    """the log message contains the text of the line"""
    if isinstance(msg, Opaque):
        for p in msg.parts:
            if isinstance(p, SV) and p.ty is TStr:
                s = z3.Solver()
                s.set("timeout", 2000)
                s.add(z3.Not(z3.Contains(p.t, S._t(line))))
                if s.check() == z3.unsat:
                    return z3.BoolVal(True)
        return z3.BoolVal(False)
    if isinstance(msg, SV) and msg.ty is TStr:
        return z3.Contains(msg.t, S._t(line))
    if isinstance(msg, str):
        return z3.Contains(z3.StringVal(msg), S._t(line))
    return z3.BoolVal(False)


def logged_warning_about(cx, line):
    recs = [m for lvl, m in cx.logged() if lvl == "warning"]
    return z3.Or(*[mentions(m, line) for m in recs]) if recs else z3.BoolVal(False)


lo = contract("cisco_acl.ace_group.AceGroup._line_to_oace", dict(self=TObj("AceGroup"), line=TStr, warning=TBool), TOpt(TObj("AceBase")),
              props=("C12",), modifies=["Log.warned"])
lo.may_raise("NetmaskValueError", None)       # re-raised: the whole construction fails
lo.may_raise("TypeError", None)
lo.ensure("accounted", lambda cx, result, self, line, warning: z3.Implies(
    z3.And(S.is_none(result), S._t(line) != "", S._t(warning)),
    z3.Or(logged_warning_about(cx, line), *[z3.PrefixOf(z3.StringVal(p), S._t(line)) for p in SKIPS])))
# the same over the ghost log (usable at call sites, where the records of this call are not visible): the texts warned about only grow,
# and a dropped line is among them unless it carries a documented prefix
lo.ensure("accounted (ghost log)", lambda cx, result, self, line, warning: z3.Implies(
    z3.And(S.is_none(result), S._t(line) != "", S._t(warning)),
    z3.Or(S.warned(cx, line), *[z3.PrefixOf(z3.StringVal(p), S._t(line)) for p in SKIPS])))
lo.ensure("log grows", lambda cx, result, self, line, warning: z3.ForAll([z3.String("s!lg")], z3.Implies(
    S.warned(cx.old, z3.String("s!lg")), S.warned(cx, z3.String("s!lg")))))
lo.ensure("kept", lambda cx, result, self, line, warning: z3.Implies(z3.Not(S.is_none(result)), z3.And(
    IS(S._t(line)), OBJLINE(S._t(S.val(result))) == S._t(line))))
lo.ensure("silent only when asked", lambda cx, result, self, line, warning: z3.Implies(z3.Not(S._t(warning)), z3.BoolVal(len(cx.logged()) == 0)))


# ---------------------------------------------------------------- Acl.line.fset: the accounting identity for a whole ACL text (C12)
from pyvc.values import TTuple, SList  # noqa: E402
from pyvc.contract import schema  # noqa: E402

LINES_LEN = z3.Function("body_lines_len", z3.StringSort(), z3.IntSort())
LINES_ARR = z3.Function("body_lines", z3.StringSort(), z3.ArraySort(z3.IntSort(), z3.StringSort()))


def lines_of(text):
    """ghost: the non-empty lines of a text, blanks normalised (what helpers.lines_wo_spaces returns)"""
    return SList(TStr, LINES_LEN(S._t(text)), LINES_ARR(S._t(text)))


lws = contract("cisco_acl.helpers.lines_wo_spaces", dict(line=TStr), TList(TStr), verify=False, props=("C12",),
               note="splits at newlines, normalises blanks, drops empty lines (str.split / join: bounded only); named by the ghost list body_lines(text)")
lws.ensure("ghost", lambda cx, result, line: z3.And(result.n == LINES_LEN(S._t(line)), result.n >= 0,
                                                   S.forall(0, result.n, lambda i: z3.And(result.a[i] == LINES_ARR(S._t(line))[i], result.a[i] != ""))))

ptn = contract("cisco_acl.acl.Acl._parse_type_name", dict(self=TObj("Acl"), line=TStr), TTuple(TStr, TStr), verify=False, props=("C12",),
               note="reads type and name from the header line (regex), or raises ValueError")
ptn.may_raise("ValueError", None)

ais = contract("cisco_acl.acl.Acl.items.fset", dict(self=TObj("Acl"), items=TList(TObj("AceBase"))), None, verify=False, props=("C12",),
               modifies=["AceGroup._items"],
               note="for a list of Ace / Remark objects and an ACL that is not grouped by remarks: stores exactly these objects in this order (object-graph code: bounded in C16/C17)")
ais.require("not grouped", lambda cx, self, items: S._t(cx.get(self, "_group_by")) == "")
ais.ensure("stored", lambda cx, result, self, items: z3.And(
    cx.get(self, "_items").n == items.n, S.forall(0, items.n, lambda j: cx.get(self, "_items").a[j] == items.a[j])))

lta.ensure("class", lambda cx, result, self, line: z3.Or(cx.isinstance(result, "Ace"), cx.isinstance(result, "Remark")))
lo.ensure("class", lambda cx, result, self, line, warning: z3.Implies(z3.Not(S.is_none(result)), z3.Or(
    cx.isinstance(S.val(result), "Ace"), cx.isinstance(S.val(result), "Remark"))))


def ignorable(s):
    return z3.Or(*[z3.PrefixOf(z3.StringVal(p), s) for p in SKIPS])


def _represented(objs, n, s):
    j = z3.Int("rep!j")
    return z3.Exists([j], z3.And(0 <= j, j < n, OBJLINE(objs.a[j]) == s))


def _accounted(cx, objs, lines, lo_, hi_):
    """every line of lines[lo_:hi_] is represented by an object, or carries a documented prefix, or was warned about"""
    return S.forall(lo_, hi_, lambda i: z3.Or(_represented(objs, objs.n, lines.a[i]), ignorable(lines.a[i]), S.warned(cx, lines.a[i])))


SEENL = z3.Function("body_line_before", z3.StringSort(), z3.StringSort(), z3.IntSort(), z3.BoolSort())   # (text, s, k): s is one of the first k body lines of text


def _seen_def(cx, self, line):
    """contract-local ghost definition: SEENL(text, s, k) <=> s == body line i of text for some i < k (body lines: all lines but the header)"""
    s_, k_, i_ = z3.String("sd!s"), z3.Int("sd!k"), z3.Int("sd!i")
    t = S._t(line)
    return z3.ForAll([s_, k_], SEENL(t, s_, k_) == z3.Exists([i_], z3.And(0 <= i_, i_ < k_, i_ + 1 < LINES_LEN(t), LINES_ARR(t)[i_ + 1] == s_)))


def _only_lines(text, objs, k):
    """every object stands for one of the first k body lines, and that line has the shape of an ACL line"""
    return S.forall(0, objs.n, lambda j: z3.And(SEENL(S._t(text), OBJLINE(objs.a[j]), k), IS(OBJLINE(objs.a[j]))))


al = contract("cisco_acl.acl.Acl.line.fset", dict(self=TObj("Acl"), line=TStr), None, props=("C12",),
              modifies=["AceBase._type", "AceGroup._name", "AceGroup._items", "Log.warned"],
              ghost={"loop_var_types": {"aces": TList(TObj("AceBase")), "items": TList(TStr)}})
al.require("not grouped", lambda cx, self, line: S._t(cx.get(self, "_group_by")) == "")
al.may_raise("ValueError", None)
al.may_raise("NetmaskValueError", None)
al.may_raise("TypeError", None)
def _post_hints(cx, result, v, self, line):
    """the stored list is the list built by the loop; body line i is items[i - 1]"""
    objs, L = cx.get(self, "_items"), lines_of(line)
    try:
        aces = v.aces
        v.items.n
    except AttributeError:
        return []          # the early return: no body line was read
    if not hasattr(aces, "n"):
        return []
    return [z3.And(objs.n == aces.n, S.forall(0, aces.n, lambda j: objs.a[j] == aces.a[j])),
            S.forall(0, v.items.n, lambda i: z3.Implies(_represented(aces, aces.n, v.items.a[i]), _represented(objs, objs.n, v.items.a[i]))),
            S.forall(0, v.items.n, lambda i: z3.Or(_represented(objs, objs.n, v.items.a[i]), ignorable(v.items.a[i]), S.warned(cx, v.items.a[i]))),
            z3.And(v.items.n == L.n - 1, S.forall(0, v.items.n, lambda i: L.a[i + 1] == v.items.a[i]))]


def body_of(text):
    """the body lines of an ACL text: all lines but the header"""
    L = lines_of(text)
    j = z3.Int("bd!j")
    return SList(TStr, z3.If(L.n > 0, L.n - 1, 0), z3.Lambda([j], L.a[j + 1]))


al.ensure("accounted", lambda cx, result, self, line: z3.Implies(
    lines_of(line).n > 0, _accounted(cx, cx.get(self, "_items"), body_of(line), 0, body_of(line).n)), hints=[_post_hints])
al.ghost["defs"] = [_seen_def]
al.ensure("only lines", lambda cx, result, self, line: z3.Implies(
    lines_of(line).n > 0, _only_lines(line, cx.get(self, "_items"), lines_of(line).n - 1)))
al.ensure("no more items than lines", lambda cx, result, self, line: z3.Implies(
    lines_of(line).n > 0, cx.get(self, "_items").n <= lines_of(line).n - 1))
def _h_rep_kept(cx, k, v):
    """a line represented before this iteration still is (the list of objects only grows at its end)"""
    old, new = v.head.aces, v.aces
    c = z3.Int("hk!c")
    return [z3.And(new.n >= old.n, z3.ForAll([c], z3.Implies(z3.And(0 <= c, c < old.n), new.a[c] == old.a[c]))),
            S.forall(0, k, lambda i: z3.Implies(_represented(old, old.n, v.items.a[i]), _represented(new, new.n, v.items.a[i])))]


def _h_warn_kept(cx, k, v):
    s_ = z3.String("hw!s")
    return z3.ForAll([s_], z3.Implies(S.warned(v.head_cx, s_), S.warned(cx, s_)))


def _h_current(cx, k, v):
    """the line of this iteration: represented by the new last object, or carrying a documented prefix, or warned about"""
    q = z3.Int("hc!q")
    return z3.ForAll([q], z3.Implies(q == k, z3.Or(_represented(v.aces, v.aces.n, v.items.a[q]), ignorable(v.items.a[q]), S.warned(cx, v.items.a[q]))))


def _h_seen(cx, k, v):
    """the ghost predicate grows with k; the line of this iteration is seen from now on"""
    s_ = z3.String("hs!s")
    t = S._t(cx.entry("line"))
    return [z3.ForAll([s_], z3.Implies(SEENL(t, s_, k), SEENL(t, s_, k + 1))),
            z3.Implies(k + 1 < LINES_LEN(t), SEENL(t, LINES_ARR(t)[k + 1], k + 1))]


def _h_new_last(cx, k, v):
    old, new = v.head.aces, v.aces
    return z3.Implies(new.n > old.n, z3.And(new.n == old.n + 1, OBJLINE(new.a[old.n]) == v.items.a[k], IS(v.items.a[k])))


for _h, _c in ((_h_rep_kept, (2,)), (_h_warn_kept, (2,)), (_h_current, (2,)), (_h_seen, (3,)), (_h_new_last, (3,))):
    _h.for_clauses = _c


al.loop(0, lambda cx, k, v: z3.And(
    v.aces.n >= 0, v.aces.n <= k,
    _accounted(cx, v.aces, v.items, 0, k),
    _only_lines(cx.entry("line"), v.aces, k),
    # the loop runs over the body lines: items[i] is line i + 1 of the text
    v.items.n == lines_of(cx.entry("line")).n - 1,
    S.forall(0, v.items.n, lambda i: v.items.a[i] == lines_of(cx.entry("line")).a[i + 1])), modifies=["Log.warned"],
    hints=[_h_rep_kept, _h_warn_kept, _h_current, _h_seen, _h_new_last])
