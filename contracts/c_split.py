"""C18 - functions._split_range_for_ace: the request splitter (range/eq policy `port_range=True`).

The request is known by its comma tokens (ghost CSV_LEN/CSV_ARR: the assumed model of str.split(",")); a token is a single
port when it is a decimal number (ISDIGIT), anything else non-empty is a range token.  Proved: every chunk is non-empty,
chunks contain request tokens only, every non-empty request token is in some chunk, a range token stands alone, and with a
positive ports-per-line limit no chunk is longer than the limit.  The `port_range=False` branch (netports / vhelpers
expansion) and the ACE construction in `_range__port` are outside the subset: bounded stand-in in props/C18.py."""
import z3
from pyvc import spec as S
from pyvc.contract import contract
from pyvc.values import TInt, TBool, TStr, TList, SList, CSV_LEN, CSV_ARR, ISDIGIT, list_sort, wrap
from . import schemas  # noqa

LS = list_sort(TStr)
# ghost: s is one of the first k request tokens and is not empty
TOKK = z3.Function("is_request_token_before", z3.StringSort(), z3.IntSort(), z3.BoolSort())


def T(ports_range):
    return SList(TStr, CSV_LEN(S._t(ports_range)), CSV_ARR(S._t(ports_range)))


def chunk(L, c):
    return SList(TStr, LS.len(L.a[c]), LS.arr(L.a[c]))


def _defs(cx, ports_range, port_count, port_range):
    s = z3.String("s!tk")
    k, t = z3.Ints("k!tk t!tk")
    Tk = T(ports_range)
    return z3.ForAll([s, k], TOKK(s, k) == z3.And(s != "", z3.Exists([t], z3.And(0 <= t, t < k, t < Tk.n, Tk.a[t] == s))))


def chunks_sound(L, k):
    c, e = z3.Ints("c!cs e!cs")
    return z3.ForAll([c, e], z3.Implies(z3.And(0 <= c, c < L.n, 0 <= e, e < LS.len(L.a[c])), TOKK(LS.arr(L.a[c])[e], k)))


def list_sound(P, k):
    e = z3.Int("e!ls")
    return z3.ForAll([e], z3.Implies(z3.And(0 <= e, e < P.n), TOKK(P.a[e], k)))


def in_chunks(L, s):
    c, e = z3.Ints("c!ic e!ic")
    return z3.Exists([c, e], z3.And(0 <= c, c < L.n, 0 <= e, e < LS.len(L.a[c]), LS.arr(L.a[c])[e] == s))


def in_list(P, s):
    e = z3.Int("e!il")
    return z3.Exists([e], z3.And(0 <= e, e < P.n, P.a[e] == s))


def chunks_nonempty(L):
    c = z3.Int("c!ne")
    return z3.ForAll([c], z3.Implies(z3.And(0 <= c, c < L.n), LS.len(L.a[c]) >= 1))


def chunks_limit(L, port_count):
    c = z3.Int("c!lm")
    return z3.ForAll([c], z3.Implies(z3.And(0 <= c, c < L.n, port_count > 0), LS.len(L.a[c]) <= port_count))


def ranges_alone(L):
    c, e = z3.Ints("c!ra e!ra")
    return z3.ForAll([c, e], z3.Implies(z3.And(0 <= c, c < L.n, 0 <= e, e < LS.len(L.a[c]), z3.Not(ISDIGIT(LS.arr(L.a[c])[e]))),
                                       LS.len(L.a[c]) == 1))


sp = contract("cisco_acl.functions._split_range_for_ace#ranges", dict(ports_range=TStr, port_count=TInt, port_range=TBool),
              TList(TList(TStr)), props=("C18",),
              ghost={"loop_var_types": {"items": TList(TList(TStr)), "ports_i": TList(TStr)}, "str_shape": "range", "fresh_append": True, "defs": [_defs],
                     # "".isdigit() is False (Python); the only fact about ISDIGIT used here
                     "axioms": [z3.Not(ISDIGIT(z3.StringVal("")))]})
sp.require("range policy", lambda cx, ports_range, port_count, port_range: S._t(port_range))
sp.require("limit >= 0", lambda cx, ports_range, port_count, port_range: S._t(port_count) >= 0)
sp.ensure("chunks non-empty", lambda cx, result, ports_range, port_count, port_range: chunks_nonempty(result))
sp.ensure("request tokens only", lambda cx, result, ports_range, port_count, port_range: chunks_sound(result, T(ports_range).n))
sp.ensure("every request token", lambda cx, result, ports_range, port_count, port_range: S.forall(
    0, T(ports_range).n, lambda t: z3.Implies(T(ports_range).a[t] != "", in_chunks(result, T(ports_range).a[t]))))
sp.ensure("range tokens stand alone", lambda cx, result, ports_range, port_count, port_range: ranges_alone(result))
sp.ensure("ports per line", lambda cx, result, ports_range, port_count, port_range: chunks_limit(result, S._t(port_count)))


def _inv(cx, k, v):
    Tk = T(v.ports_range)
    pc = S._t(v.port_count)
    P = v.ports_i
    return z3.And(
        v.items.n >= 0, P.n >= 0,
        chunks_nonempty(v.items), chunks_sound(v.items, k), list_sound(P, k),
        S.forall(0, k, lambda t: z3.Implies(Tk.a[t] != "", z3.Or(in_chunks(v.items, Tk.a[t]), in_list(P, Tk.a[t])))),
        ranges_alone(v.items), S.forall(0, P.n, lambda e: ISDIGIT(P.a[e])),
        chunks_limit(v.items, pc), z3.Implies(pc > 0, P.n <= pc))


def _mono(cx, k, v):
    s_ = z3.String("s!mono")
    return z3.ForAll([s_], z3.Implies(TOKK(s_, k), TOKK(s_, k + 1)))


def _cur(cx, k, v):
    """the token of this iteration counts as seen from now on, when it is not empty"""
    Tk = T(v.ports_range)
    return z3.Implies(Tk.a[k] != "", TOKK(Tk.a[k], k + 1))


def _kept_chunks(cx, k, v):
    """a token that was in a finished chunk still is"""
    s_ = z3.String("s!kc")
    return z3.ForAll([s_], z3.Implies(in_chunks(v.head.items, s_), in_chunks(v.items, s_)))


def _kept_pending(cx, k, v):
    """a token of the pending chunk is still pending or has been moved into a finished chunk"""
    s_ = z3.String("s!kp")
    return z3.ForAll([s_], z3.Implies(in_list(v.head.ports_i, s_), z3.Or(in_chunks(v.items, s_), in_list(v.ports_i, s_))))


def _cur_placed(cx, k, v):
    """the token of this iteration, when not empty, has been placed"""
    Tk = T(v.ports_range)
    q = z3.Int("q!cp")
    # stated for "every q equal to k": an instance at the goal's own index then matches the goal's atoms syntactically
    return z3.ForAll([q], z3.Implies(z3.And(q == k, Tk.a[q] != ""), z3.Or(in_chunks(v.items, Tk.a[q]), in_list(v.ports_i, Tk.a[q]))))


def _old_sound(cx, k, v):
    """what was finished or pending at the head of the iteration consists of tokens seen before k + 1"""
    return z3.And(chunks_sound(v.head.items, k + 1), list_sound(v.head.ports_i, k + 1))


def _cur_seen(cx, k, v):
    q = z3.Int("q!cs")
    Tk = T(v.ports_range)
    return z3.ForAll([q], z3.Implies(z3.And(q == k, Tk.a[q] != ""), TOKK(Tk.a[q], k + 1)))


def _old_complete(cx, k, v):
    """the invariant's completeness clause at the head of the iteration, restated so that it sits among the hints"""
    Tk = T(v.ports_range)
    return S.forall(0, k, lambda t: z3.Implies(Tk.a[t] != "", z3.Or(in_chunks(v.head.items, Tk.a[t]), in_list(v.head.ports_i, Tk.a[t]))))


def _shape_old(cx, k, v):
    """the finished chunks of the head of the iteration are still there, unchanged and in place"""
    c = z3.Int("c!so")
    return z3.And(v.items.n >= v.head.items.n, z3.ForAll([c], z3.Implies(z3.And(0 <= c, c < v.head.items.n), v.items.a[c] == v.head.items.a[c])))


def _shape_new(cx, k, v):
    """a chunk added in this iteration is the pending chunk of the head, or the single token of this iteration"""
    c = z3.Int("c!sn")
    Tk = T(v.ports_range)
    P0 = v.head.ports_i
    return z3.ForAll([c], z3.Implies(z3.And(v.head.items.n <= c, c < v.items.n), z3.Or(
        z3.And(P0.n >= 1, v.items.a[c] == LS.mk(P0.n, P0.a)),
        z3.And(LS.len(v.items.a[c]) == 1, LS.arr(v.items.a[c])[0] == Tk.a[k], Tk.a[k] != ""))))


# clause numbers of _inv: 0,1 lengths; 2 non-empty; 3 chunks sound; 4 pending sound; 5 complete; 6 ranges alone; 7 pending digits; 8 limit; 9 pending limit
for _h, _cl in ((_shape_old, (2, 3, 6, 8)), (_shape_new, (2, 3, 6, 8)), (_mono, (3, 4)), (_cur, (3, 4)), (_cur_seen, (3, 4)), (_old_sound, (3, 4)),
                (_old_complete, (5,)), (_kept_chunks, (5,)), (_kept_pending, (5,)), (_cur_placed, (5,))):
    _h.for_clauses = _cl
sp.loop(0, _inv, hints=[_shape_old, _shape_new, _mono, _cur, _cur_seen, _old_sound, _old_complete, _kept_chunks, _kept_pending, _cur_placed])
