"""C08 - helpers.ports_to_string: the compact range string encodes exactly the given set of ports.

Texts are abstract: the decimal text of n is NUMSTR(n), the text `a-b` is RNGSTR(a, b) (the engine's shaped strings for
str(int) and f"{a}-{b}"); what a token *denotes* is given by the ghost functions LO/HI with the assumed laws
LO(NUMSTR(n)) = HI(NUMSTR(n)) = n and LO(RNGSTR(a, b)) = a, HI(RNGSTR(a, b)) = b (audited: the bounded codec clauses of C08
decode the real strings with an independent decoder).  ",".join(tokens) is some text whose comma tokens are exactly the list
(ghost CSV_LEN/CSV_ARR)."""
import z3
from pyvc import spec as S
from pyvc.contract import contract
from pyvc.values import TInt, TStr, TList, TOpt, SList, CSV_LEN, CSV_ARR, NUMSTR, RNGSTR
from . import schemas  # noqa

LO = z3.Function("range_token_lo", z3.StringSort(), z3.IntSort())
HI = z3.Function("range_token_hi", z3.StringSort(), z3.IntSort())
INS = z3.Function("port_is_given", z3.IntSort(), z3.BoolSort())      # ghost: x is one of the given ports


def _tok_axioms():
    a, b = z3.Ints("a!tok b!tok")
    return [z3.ForAll([a], z3.And(LO(NUMSTR(a)) == a, HI(NUMSTR(a)) == a)),
            z3.ForAll([a, b], z3.And(LO(RNGSTR(a, b)) == a, HI(RNGSTR(a, b)) == b))]


def covered(tokens, x):
    """x lies in the range denoted by one of the tokens"""
    t = z3.Int("t!cov")
    return z3.Exists([t], z3.And(0 <= t, t < tokens.n, LO(tokens.a[t]) <= x, x <= HI(tokens.a[t])))


def sound(tokens):
    """every port denoted by a token is a given port (Horn shaped)"""
    t, x = z3.Ints("t!snd x!snd")
    return z3.ForAll([t, x], z3.Implies(z3.And(0 <= t, t < tokens.n, LO(tokens.a[t]) <= x, x <= HI(tokens.a[t])), INS(x)))


def result_tokens(result):
    return SList(TStr, CSV_LEN(S._t(result)), CSV_ARR(S._t(result)))


_AX = _tok_axioms()
pts = contract("cisco_acl.helpers.ports_to_string", dict(items=TList(TInt)), TStr, props=("C08",),
               ghost={"loop_var_types": {"ranges": TList(TStr), "item_1st": TOpt(TInt)}, "axioms": _AX, "str_shape": "range",
                      "fresh_append": True,
                      "defs": [lambda cx, items: S.forall_int(lambda x: INS(x) == S.mem_term(items, x))]})
pts.ensure("empty", lambda cx, result, items: z3.Implies(items.n == 0, S._t(result) == ""))
pts.ensure("sound", lambda cx, result, items: z3.Implies(items.n > 0, S.forall_int(
    lambda x: z3.Implies(covered(result_tokens(result), x), S.mem_term(items, x)))), hints=[
    lambda cx, result, v, items: z3.Implies(items.n > 0, sound(result_tokens(result))),
    lambda cx, result, v, items: S.forall_int(lambda y: z3.Implies(INS(y), S.mem_term(items, y)))])
pts.ensure("complete", lambda cx, result, items: z3.Implies(items.n > 0, S.forall(
    0, items.n, lambda i: covered(result_tokens(result), S.at(items, i)))), hints=[
    lambda cx, result, v, items: z3.Implies(items.n > 0, S.forall_int(lambda y: z3.Implies(INS(y), covered(result_tokens(result), y)))),
    lambda cx, result, v, items: S.forall(0, items.n, lambda i: INS(S.at(items, i)))])


def _inv(cx, k, v):
    S_ = v.items                      # the sorted list
    n = S_.n
    none = S.is_none(v.item_1st)
    first = S._t(S.val(v.item_1st)) if not (v.item_1st is None) else z3.IntVal(0)
    x = z3.Int("x!inv")
    return z3.And(
        v.ranges.n >= 0,
        sound(v.ranges),
        # what the sorted list is: the given ports, ascending
        S.forall(0, n, lambda i: INS(S.at(S_, i))),
        S.forall_int(lambda y: z3.Implies(INS(y), S.mem_term(S_, y))),
        S.asc_term(S_, strict=False),
        # every processed item is covered by a token, or belongs to the open run
        # (in the last iteration item_1st is left as it is: from k == n on only the coverage clause speaks)
        z3.Implies(z3.Or(none, k >= n), S.forall(0, k, lambda i: covered(v.ranges, S.at(S_, i)))),
        # the open run [first .. S[k-1]]: dense, and S[k] continues it
        z3.Implies(z3.And(z3.Not(none), k < n), z3.And(k >= 1, first <= S.at(S_, k - 1), S.at(S_, k) - S.at(S_, k - 1) <= 1)),
        z3.Implies(z3.And(z3.Not(none), k < n), S.forall(0, k, lambda i: z3.Or(covered(v.ranges, S.at(S_, i)), first <= S.at(S_, i)))),
        z3.Implies(z3.And(z3.Not(none), k < n), z3.ForAll([x], z3.Implies(z3.And(first <= x, x <= S.at(S_, k - 1)), INS(x)))))


def _step_hints(cx, k, v):
    """what the token appended in this iteration (if any) denotes, and that it denotes given ports only"""
    old, new = v.head.ranges, v.ranges
    item = S._t(v.item)
    head1 = v.head.item_1st
    first = S._t(S.val(head1)) if head1 is not None else z3.IntVal(0)
    last = new.a[old.n]
    x = z3.Int("x!h")
    ax = _AX
    grown = new.n == old.n + 1
    return [
        S.instance(ax[0], item), S.instance(ax[1], first, item),
        z3.Or(new.n == old.n, grown),
        z3.Implies(grown, z3.ForAll([x], z3.Implies(z3.And(LO(last) <= x, x <= HI(last)), INS(x)))),
    ]


def _sound_hints(cx, k, v):
    """for the clause `sound(ranges)`: the old tokens are unchanged and were sound; a new last token (if any) denotes given ports only"""
    old, new = v.head.ranges, v.ranges
    t, x = z3.Ints("t!sh x!sh")
    last = new.a[old.n]
    return [z3.ForAll([t], z3.Implies(z3.And(0 <= t, t < old.n), new.a[t] == old.a[t])),
            z3.ForAll([t, x], z3.Implies(z3.And(0 <= t, t < old.n, LO(new.a[t]) <= x, x <= HI(new.a[t])), INS(x))),
            z3.Implies(new.n == old.n + 1, z3.ForAll([x], z3.Implies(z3.And(LO(last) <= x, x <= HI(last)), INS(x))))]


_sound_hints.for_clauses = (1,)
pts.loop(0, _inv, hints=[_step_hints, _sound_hints])
