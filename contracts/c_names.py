"""C09 - port_name._swap for an arbitrary dict (the alias rule: the first name of a number wins)."""
import z3
from pyvc import spec as S
from pyvc.contract import contract
from pyvc.values import TInt, TStr, TDict, SList

sw = contract("cisco_acl.port_name._swap", dict(name_port=TDict(TStr, TInt)), TDict(TInt, TStr), props=("C09",),
              ghost={"loop_var_types": {"data": TDict(TInt, TStr)}})


def _first(np, upto, p, name):
    """name is the first key (in insertion order, among the first `upto`) whose number is p"""
    i, j = z3.Ints("i!f j!f")
    return z3.Exists([i], z3.And(0 <= i, i < upto, np.keys.a[i] == name, np.map[name] == p,
                                 z3.ForAll([j], z3.Implies(z3.And(0 <= j, j < i), np.map[np.keys.a[j]] != p))))


def _has(np, upto, p):
    i = z3.Int("i!h")
    return z3.Exists([i], z3.And(0 <= i, i < upto, np.map[np.keys.a[i]] == p))


def _swap_rel(np, data, upto):
    p = z3.Int("p!sw")
    return z3.ForAll([p], z3.And(data.dom[p] == _has(np, upto, p),
                                 z3.Implies(data.dom[p], _first(np, upto, p, data.map[p]))))


sw.ensure("first name wins", lambda cx, result, name_port: _swap_rel(name_port, result, name_port.keys.n))
sw.ensure("render-parse closure", lambda cx, result, name_port: S.forall_int(
    lambda p: z3.Implies(result.dom[p], z3.And(name_port.dom[result.map[p]], name_port.map[result.map[p]] == p))))
sw.loop(0, lambda cx, k, v: _swap_rel(v.name_port, v.data, k))
