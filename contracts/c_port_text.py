"""C08 - the text path of Port: operands as digit tokens -> operands -> port list, and assigning ports/items back.

Texts are abstract: a line is known by its whitespace tokens (ghost WS_LEN/WS_ARR, the assumed model of str.split /
" ".join), a decimal token by ISDIGIT/STRINT with the assumed law STRINT(str(n)) == n (pyvc.values.numstr_axioms).
An operand token is a decimal number or a keyword of the table of the port expression (contracts/c_port_names.py: the table is a ghost map, assumed equal
to what PortName(protocol, platform, version).names() returns; its entries are decided one by one in C09)."""
import z3
from pyvc import spec as S
from pyvc.contract import contract
from pyvc.values import TInt, TBool, TStr, TList, TObj, SList, ISDIGIT, STRINT, NUMSTR, WS_LEN, WS_ARR, numstr_axioms
from . import schemas  # noqa
from .c_port import OPS, ALL, P, valid, valid0, ascending, _op, _mem
from . import c_port  # noqa
from .c_port_names import val as _tokval, known as _known, table_axioms, t  # noqa  (t: proved contract of Port._line__items_to_ints for numbers and keywords)

schema_done = True


def same_list(A, B):
    return z3.And(A.n == B.n, S.forall(0, A.n, lambda i: A.a[i] == B.a[i]))


def _val(cx, self, items, i):
    """the number the i-th token denotes for this port expression (decimal text, or keyword of its table)"""
    return _tokval(cx, self, items.a[i])


def _asc_vals(cx, self, items):
    i, j = z3.Ints("i!av j!av")
    return z3.ForAll([i, j], z3.Implies(z3.And(0 <= i, i < j, j < items.n), _val(cx, self, items, i) <= _val(cx, self, items, j)))


t.ensure("kept when already ascending", lambda cx, result, self, items: z3.Implies(
    _asc_vals(cx, self, items),
    S.forall(0, items.n, lambda i: result.a[i] == _val(cx, self, items, i))))


# ---------------------------------------------------------------- assumed here
from .c_wildcard import il as _init_line  # noqa  (helpers.init_line: same whitespace tokens)
_init_line.props = tuple(set(_init_line.props) | {"C08"})

from . import c_codec  # noqa  (helpers.ports_to_string: proved contract - the tokens of the text denote exactly the given ports)
from .c_codec import covered, result_tokens


def text_denotes(text, ports):
    """the comma tokens of `text` denote exactly the ports of the list (statement of the codec clause of C08)"""
    T = result_tokens(text)
    return z3.And(S.forall_int(lambda x: z3.Implies(covered(T, x), _mem(ports, x))),
                  S.forall(0, ports.n, lambda i: covered(T, ports.a[i])))


# ---------------------------------------------------------------- Port.line setter, operands written as numbers
def toks(line):
    return SList(TStr, WS_LEN(S._t(line)), WS_ARR(S._t(line)))


def operands(line):
    """tokens after the operator, as a list"""
    T = toks(line)
    j = z3.Int("opnd!j")
    return SList(TStr, z3.If(T.n > 0, T.n - 1, 0), z3.Lambda([j], T.a[j + 1]))


def _refused_line(cx, self, line):
    T = toks(line)
    op = T.a[0]
    n = T.n - 1
    O = operands(line)
    plat = S._t(cx.get(self, "_platform"))
    return z3.And(T.n > 0, z3.Or(
        z3.Not(z3.Or(*[op == o for o in OPS])),
        n == 0,
        S.exists(0, n, lambda i: z3.And(z3.Not(ISDIGIT(O.a[i])), z3.Not(_known(cx, self, O.a[i])))),
        S.exists(0, n, lambda i: z3.Or(_val(cx, self, O, i) < 0, _val(cx, self, O, i) > ALL)),
        z3.And(z3.Or(op == "lt", op == "gt"), n != 1),
        z3.And(op == "range", n != 2),
        z3.And(z3.Or(op == "eq", op == "neq"), z3.Or(plat == "asa", plat == "nxos"), n != 1)))


PFIELDS = ["Port._operator", "Port._items", "Port._ports", "Port._sport"]
ls = contract("cisco_acl.port.Port.line.fset#tokens", dict(self=TObj("Port"), line=TStr), None, props=("C08",), modifies=PFIELDS,
              ghost={"str_shape": "range", "axioms": numstr_axioms() + table_axioms()})
ls.require("numeric operands >= 1 (lt / gt / neq: >= 0)", lambda cx, self, line: S.forall(1, toks(line).n, lambda i: z3.Implies(
    ISDIGIT(toks(line).a[i]), z3.Or(STRINT(toks(line).a[i]) >= 1, z3.And(STRINT(toks(line).a[i]) >= 0, z3.Or(*[toks(line).a[0] == o for o in ("lt", "gt", "neq")]))))))
ls.may_raise("ValueError", _refused_line, exact=True)
ls.ensure("empty", lambda cx, result, self, line: z3.Implies(toks(line).n == 0, z3.And(
    _op(cx, self) == "", cx.get(self, "_items").n == 0, cx.get(self, "_ports").n == 0, S._t(cx.get(self, "_sport")) == "")))
ls.ensure("operator", lambda cx, result, self, line: z3.Implies(toks(line).n > 0, _op(cx, self) == toks(line).a[0]))
ls.ensure("operands", lambda cx, result, self, line: z3.Implies(toks(line).n > 0, z3.And(
    cx.get(self, "_items").n == toks(line).n - 1,
    valid0(_op(cx, self), cx.get(self, "_items")),
    z3.Implies(S.forall(0, operands(line).n, lambda i: _val(cx, self, operands(line), i) >= 1), valid(_op(cx, self), cx.get(self, "_items"))),
    S.forall(0, operands(line).n, lambda i: _mem(cx.get(self, "_items"), _val(cx, self, operands(line), i))),
    S.forall(0, cx.get(self, "_items").n, lambda j: S.exists(0, operands(line).n, lambda i: cx.get(self, "_items").a[j] == _val(cx, self, operands(line), i))))))
ls.ensure("operands kept when written ascending", lambda cx, result, self, line: z3.Implies(
    z3.And(toks(line).n > 0, _asc_vals(cx, self, operands(line))),
    S.forall(0, operands(line).n, lambda i: cx.get(self, "_items").a[i] == _val(cx, self, operands(line), i))))
# (also true for the empty expression: no operator, no port)
ls.ensure("ports sound", lambda cx, result, self, line: S.forall(
    0, cx.get(self, "_ports").n, lambda i: P(_op(cx, self), cx.get(self, "_items"), cx.get(self, "_ports").a[i])))
ls.ensure("ports complete", lambda cx, result, self, line: S.forall_int(
    lambda p: z3.Implies(P(_op(cx, self), cx.get(self, "_items"), p), _mem(cx.get(self, "_ports"), p))))
ls.ensure("ports exact", lambda cx, result, self, line: S.forall_int(
    lambda p: _mem(cx.get(self, "_ports"), p) == P(_op(cx, self), cx.get(self, "_items"), p)), hints=[
    lambda cx, result, v, self, line: S.forall(0, cx.get(self, "_ports").n, lambda i: P(_op(cx, self), cx.get(self, "_items"), cx.get(self, "_ports").a[i])),
    lambda cx, result, v, self, line: S.forall_int(lambda p: z3.Implies(P(_op(cx, self), cx.get(self, "_items"), p), _mem(cx.get(self, "_ports"), p)))])
ls.ensure("ports ascending", lambda cx, result, self, line: z3.And(
    ascending(cx.get(self, "_ports"), strict=False),
    z3.Implies(_op(cx, self) != "eq", ascending(cx.get(self, "_ports"))),
    z3.Implies(_op(cx, self) == "eq", same_list(cx.get(self, "_ports"), cx.get(self, "_items")))))
# the object invariant that the shadow contracts (C03/C04/C11) require of every Port: no operator => no ports
ls.ensure("Inv(Port) of c_shadow", lambda cx, result, self, line: z3.Implies(_op(cx, self) == "", cx.get(self, "_ports").n == 0))
ls.ensure("range text sound", lambda cx, result, self, line: z3.Implies(cx.get(self, "_ports").n > 0, S.forall_int(
    lambda x: z3.Implies(covered(result_tokens(cx.get(self, "_sport")), x), _mem(cx.get(self, "_ports"), x)))))
ls.ensure("range text complete", lambda cx, result, self, line: z3.Implies(cx.get(self, "_ports").n > 0, S.forall(
    0, cx.get(self, "_ports").n, lambda i: covered(result_tokens(cx.get(self, "_sport")), cx.get(self, "_ports").a[i]))))


# ---------------------------------------------------------------- assigning an expression's own items / ports back (C08, last sentence)
def inv_port(cx, self):
    """class invariant of a non-empty Port as established by the line setter (contract above)"""
    op, items, ports = _op(cx, self), cx.get(self, "_items"), cx.get(self, "_ports")
    plat = S._t(cx.get(self, "_platform"))
    return z3.And(
        valid(op, items),
        z3.Implies(z3.And(z3.Or(op == "eq", op == "neq"), z3.Or(plat == "asa", plat == "nxos")), items.n == 1),
        S.forall(0, ports.n, lambda i: P(op, items, ports.a[i])),
        S.forall_int(lambda p: z3.Implies(P(op, items, p), _mem(ports, p))),
        S.forall_int(lambda p: _mem(ports, p) == P(op, items, p)),
        ascending(ports, strict=False), z3.Implies(op != "eq", ascending(ports)),
        z3.Implies(op == "eq", z3.And(ports.n == items.n, S.forall(0, items.n, lambda i: ports.a[i] == items.a[i]))))


def _unchanged_text(cx, self):
    """operator and operands as before: the rendered text is a function of these (and of fields the setter does not write)"""
    old = cx.old
    return z3.And(_op(cx, self) == _op(old, self), same_list(cx.get(self, "_items"), old.get(self, "_items")))


def _unchanged_meaning(cx, self):
    old = cx.old
    return S.forall_int(lambda p: _mem(cx.get(self, "_ports"), p) == _mem(old.get(self, "_ports"), p))


si = contract("cisco_acl.port.Port.items.fset#self", dict(self=TObj("Port"), items=TList(TInt)), None, props=("C08",), modifies=PFIELDS,
              ghost={"str_shape": "range", "axioms": numstr_axioms()})
si.require("invariant", lambda cx, self, items: inv_port(cx, self))
si.require("own items", lambda cx, self, items: same_list(items, cx.get(self, "_items")))
si.ensure("text unchanged", lambda cx, result, self, items: _unchanged_text(cx, self))
si.ensure("meaning unchanged", lambda cx, result, self, items: _unchanged_meaning(cx, self), hints=[
    lambda cx, result, v, self, items: _unchanged_text(cx, self),
    lambda cx, result, v, self, items: S.forall_int(lambda p: _mem(cx.get(self, "_items"), p) == _mem(cx.old.get(self, "_items"), p)),
    lambda cx, result, v, self, items: S.forall_int(lambda p: P(_op(cx, self), cx.get(self, "_items"), p) == P(_op(cx.old, self), cx.old.get(self, "_items"), p)),
    lambda cx, result, v, self, items: S.forall_int(lambda p: _mem(cx.get(self, "_ports"), p) == P(_op(cx, self), cx.get(self, "_items"), p)),
    lambda cx, result, v, self, items: S.forall_int(lambda p: _mem(cx.old.get(self, "_ports"), p) == P(_op(cx.old, self), cx.old.get(self, "_items"), p)),
])
si.ensure("invariant kept", lambda cx, result, self, items: inv_port(cx, self))

sp = contract("cisco_acl.port.Port.ports.fset#self", dict(self=TObj("Port"), ports=TList(TInt)), None, props=("C08",), modifies=PFIELDS,
              ghost={"str_shape": "range", "axioms": numstr_axioms()})
sp.require("invariant", lambda cx, self, ports: inv_port(cx, self))
def _same_members_strict(A, B):
    return z3.And(ascending(A), ascending(B), S.forall_int(lambda p: _mem(A, p) == _mem(B, p)))


# the port list assigned is the expression's own: the same members, and literally the same list or both strictly ascending
sp.require("own ports: members", lambda cx, self, ports: S.forall_int(lambda p: _mem(ports, p) == _mem(cx.get(self, "_ports"), p)))
sp.require("own ports: order", lambda cx, self, ports: z3.Or(same_list(ports, cx.get(self, "_ports")),
                                                             z3.And(ascending(ports), ascending(cx.get(self, "_ports")))))
# instance of lemma L8.unique (props/C08.py: step and length parts proved; the induction is the usual meta-argument)
sp.ghost["defs"] = [lambda cx, self, ports: z3.Implies(_same_members_strict(ports, cx.get(self, "_ports")),
                                                       same_list(ports, cx.get(self, "_ports")))]
sp.ensure("operator unchanged", lambda cx, result, self, ports: _op(cx, self) == _op(cx.old, self))
sp.ensure("text unchanged", lambda cx, result, self, ports: z3.Implies(_op(cx.old, self) != "neq", _unchanged_text(cx, self)))
sp.ensure("meaning unchanged", lambda cx, result, self, ports: _unchanged_meaning(cx, self), hints=[
    # the operands written into the text (items_ = _ports_to_items(ports)) are read back unchanged
    lambda cx, result, v, self, ports: z3.And(_op(cx, self) == _op(cx.old, self), same_list(cx.get(self, "_items"), v.items_)),
    lambda cx, result, v, self, ports: S.forall_int(lambda p: _mem(cx.get(self, "_items"), p) == _mem(v.items_, p)),
    lambda cx, result, v, self, ports: S.forall_int(lambda p: P(_op(cx, self), cx.get(self, "_items"), p) == P(_op(cx.old, self), v.items_, p)),
    # (postcondition `meaning` of _ports_to_items, restated so that it sits among the hints)
    lambda cx, result, v, self, ports: S.forall_int(lambda p: P(_op(cx.old, self), v.items_, p) == P(_op(cx.old, self), cx.old.get(self, "_items"), p)),
    lambda cx, result, v, self, ports: S.forall_int(lambda p: P(_op(cx, self), cx.get(self, "_items"), p) == P(_op(cx.old, self), cx.old.get(self, "_items"), p)),
    lambda cx, result, v, self, ports: S.forall_int(lambda p: _mem(cx.get(self, "_ports"), p) == P(_op(cx, self), cx.get(self, "_items"), p)),
    lambda cx, result, v, self, ports: S.forall_int(lambda p: _mem(cx.old.get(self, "_ports"), p) == P(_op(cx.old, self), cx.old.get(self, "_items"), p)),
])
c_port.d.ghost["ghost_args"] = {"i0": lambda cx, self, ports: cx.get(self, "_items")}


# ---------------------------------------------------------------- assigning the range string back
# The encoder helpers.ports_to_string is proved (contracts/c_codec.py).  The decoder helpers.string_to_ports (sets, named
# tuples, set iteration) is outside the subset: assumed contract, stated semantically and checked natively by the codec
# clauses of C08 (all subsets of small universes, seeded subsets of 1..65535, with an independent decoder).
stp = contract("cisco_acl.helpers.string_to_ports", dict(ports=TStr), TList(TInt), verify=False, props=("C08",),
               note="decoder of the compact range text: returns, strictly ascending, exactly the ports within 1..65535 that the comma tokens of the "
                    "text denote (bounded codec clauses of C08)")
stp.ensure("ascending", lambda cx, result, ports: ascending(result))
stp.ensure("members", lambda cx, result, ports: S.forall_int(lambda p: _mem(result, p) == z3.And(
    1 <= p, p <= ALL, covered(result_tokens(ports), p))))


ss = contract("cisco_acl.port.Port.sport.fset#self", dict(self=TObj("Port"), sport=TStr), None, props=("C08",), modifies=PFIELDS,
              ghost={"str_shape": "range", "axioms": numstr_axioms()})
ss.require("invariant", lambda cx, self, sport: inv_port(cx, self))
ss.require("ports strictly ascending", lambda cx, self, sport: ascending(cx.get(self, "_ports")))
ss.require("own range text", lambda cx, self, sport: S._t(sport) == S._t(cx.get(self, "_sport")))
ss.require("the range text denotes the ports", lambda cx, self, sport: S.forall_int(
    lambda x: covered(result_tokens(sport), x) == _mem(cx.get(self, "_ports"), x)))
ss.require("ports within 1..65535", lambda cx, self, sport: S.forall_int(
    lambda p: z3.Implies(_mem(cx.get(self, "_ports"), p), z3.And(1 <= p, p <= ALL))))
ss.ensure("operator unchanged", lambda cx, result, self, sport: _op(cx, self) == _op(cx.old, self))
ss.ensure("text unchanged", lambda cx, result, self, sport: z3.Implies(_op(cx.old, self) != "neq", _unchanged_text(cx, self)))
ss.ensure("meaning unchanged", lambda cx, result, self, sport: _unchanged_meaning(cx, self))
