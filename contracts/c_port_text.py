"""C08 - the text path of Port: operands as digit tokens -> operands -> port list, and assigning ports/items back.

Texts are abstract: a line is known by its whitespace tokens (ghost WS_LEN/WS_ARR, the assumed model of str.split /
" ".join), a decimal token by ISDIGIT/STRINT with the assumed law STRINT(str(n)) == n (pyvc.values.numstr_axioms).
The contracts here cover lines whose operands are written as numbers; named ports go through the finite tables of C09."""
import z3
from pyvc import spec as S
from pyvc.contract import contract
from pyvc.values import TInt, TBool, TStr, TList, TObj, SList, ISDIGIT, STRINT, NUMSTR, WS_LEN, WS_ARR, numstr_axioms
from . import schemas  # noqa
from .c_port import OPS, ALL, P, valid, ascending, _op, _mem
from . import c_port  # noqa

schema_done = True


def same_list(A, B):
    return z3.And(A.n == B.n, S.forall(0, A.n, lambda i: A.a[i] == B.a[i]))


def _ints_ok(items):
    """every operand token is a decimal number"""
    return S.forall(0, items.n, lambda i: ISDIGIT(items.a[i]))


def _val(items, i):
    return STRINT(items.a[i])


def _asc_vals(items):
    i, j = z3.Ints("i!av j!av")
    return z3.ForAll([i, j], z3.Implies(z3.And(0 <= i, i < j, j < items.n), _val(items, i) <= _val(items, j)))


def _refused(cx, self, items):
    """the refusals of _line__items_to_ints for numeric operands, transcribed from Cisco's grammar (C08/C01):
    no operand; an operand outside 0..65535; lt/gt with other than one operand; range with other than two; several
    operands for eq/neq where the platform allows one"""
    op = _op(cx, self)
    n = items.n
    plat = S._t(cx.get(self, "_platform"))
    return z3.Or(n == 0,
                 S.exists(0, n, lambda i: z3.Or(_val(items, i) < 0, _val(items, i) > ALL)),
                 z3.And(z3.Or(op == "lt", op == "gt"), n != 1),
                 z3.And(op == "range", n != 2),
                 z3.And(z3.Or(op == "eq", op == "neq"), z3.Or(plat == "asa", plat == "nxos"), n != 1))


t = contract("cisco_acl.port.Port._line__items_to_ints#digits", dict(self=TObj("Port"), items=TList(TStr)), TList(TInt), props=("C08",),
             ghost={"str_shape": "range", "loop_var_types": {"ports": TList(TInt)}, "axioms": numstr_axioms()})
t.require("digits", lambda cx, self, items: _ints_ok(items))
t.may_raise("ValueError", lambda cx, self, items: _refused(cx, self, items), exact=True)
t.ensure("length", lambda cx, result, self, items: result.n == items.n)
t.ensure("ascending", lambda cx, result, self, items: ascending(result, strict=False))
t.ensure("same numbers", lambda cx, result, self, items: z3.And(
    S.forall(0, items.n, lambda i: _mem(result, _val(items, i))),
    S.forall(0, result.n, lambda j: S.exists(0, items.n, lambda i: result.a[j] == _val(items, i)))))
t.ensure("kept when already ascending", lambda cx, result, self, items: z3.Implies(
    _asc_vals(items),
    S.forall(0, items.n, lambda i: result.a[i] == _val(items, i))))
t.ensure("range", lambda cx, result, self, items: S.forall(0, result.n, lambda j: z3.And(0 <= result.a[j], result.a[j] <= ALL)))
t.loop(0, lambda cx, k, v: z3.And(v.ports.n == k, S.forall(0, k, lambda j: v.ports.a[j] == _val(v.items, j))))
t.loop(1, lambda cx, k, v: z3.And(v.ports.n == v.items.n, S.forall(0, v.items.n, lambda j: v.ports.a[j] == _val(v.items, j)),
                                  S.forall(0, k, lambda j: z3.And(0 <= v.ports.a[j], v.ports.a[j] <= ALL))))


# ---------------------------------------------------------------- assumed here
from .c_wildcard import il as _init_line  # noqa  (helpers.init_line: same whitespace tokens)
_init_line.props = tuple(set(_init_line.props) | {"C08"})

PTS = z3.Function("ports_text", z3.IntSort(), z3.ArraySort(z3.IntSort(), z3.IntSort()), z3.StringSort())
pts = contract("cisco_acl.helpers.ports_to_string", dict(items=TList(TInt)), TStr, verify=False, props=("C08",),
               note="compact range text of a port list, named by a ghost function of the list; the codec itself is checked by the bounded codec clauses of C08 "
                    "(its deductive contract is parked in contracts/wip_ports_to_string.py)")
pts.ghost["pure_result"] = lambda cx, items: __import__("pyvc.values", fromlist=["SV"]).SV(TStr, PTS(items.n, items.a))


# ---------------------------------------------------------------- Port.line setter, operands written as numbers
def toks(line):
    return SList(TStr, WS_LEN(S._t(line)), WS_ARR(S._t(line)))


def operands(line):
    """tokens after the operator, as a list"""
    T = toks(line)
    j = z3.Int("opnd!j")
    return SList(TStr, z3.If(T.n > 0, T.n - 1, 0), z3.Lambda([j], T.a[j + 1]))


def _refused_line(cx, self, line):
    T = toks(line)
    op = T.a[0]
    n = T.n - 1
    O = operands(line)
    plat = S._t(cx.get(self, "_platform"))
    return z3.And(T.n > 0, z3.Or(
        z3.Not(z3.Or(*[op == o for o in OPS])),
        n == 0,
        S.exists(0, n, lambda i: z3.Or(_val(O, i) < 0, _val(O, i) > ALL)),
        z3.And(z3.Or(op == "lt", op == "gt"), n != 1),
        z3.And(op == "range", n != 2),
        z3.And(z3.Or(op == "eq", op == "neq"), z3.Or(plat == "asa", plat == "nxos"), n != 1)))


PFIELDS = ["Port._operator", "Port._items", "Port._ports", "Port._sport"]
ls = contract("cisco_acl.port.Port.line.fset#digits", dict(self=TObj("Port"), line=TStr), None, props=("C08",), modifies=PFIELDS,
              ghost={"str_shape": "range", "axioms": numstr_axioms()})
ls.require("numeric operands >= 1", lambda cx, self, line: S.forall(1, toks(line).n, lambda i: z3.And(
    ISDIGIT(toks(line).a[i]), STRINT(toks(line).a[i]) >= 1)))
ls.may_raise("ValueError", _refused_line, exact=True)
ls.ensure("empty", lambda cx, result, self, line: z3.Implies(toks(line).n == 0, z3.And(
    _op(cx, self) == "", cx.get(self, "_items").n == 0, cx.get(self, "_ports").n == 0, S._t(cx.get(self, "_sport")) == "")))
ls.ensure("operator", lambda cx, result, self, line: z3.Implies(toks(line).n > 0, _op(cx, self) == toks(line).a[0]))
ls.ensure("operands", lambda cx, result, self, line: z3.Implies(toks(line).n > 0, z3.And(
    cx.get(self, "_items").n == toks(line).n - 1,
    valid(_op(cx, self), cx.get(self, "_items")),
    S.forall(0, operands(line).n, lambda i: _mem(cx.get(self, "_items"), _val(operands(line), i))),
    S.forall(0, cx.get(self, "_items").n, lambda j: S.exists(0, operands(line).n, lambda i: cx.get(self, "_items").a[j] == _val(operands(line), i))))))
ls.ensure("operands kept when written ascending", lambda cx, result, self, line: z3.Implies(
    z3.And(toks(line).n > 0, _asc_vals(operands(line))),
    S.forall(0, operands(line).n, lambda i: cx.get(self, "_items").a[i] == _val(operands(line), i))))
# (also true for the empty expression: no operator, no port)
ls.ensure("ports sound", lambda cx, result, self, line: S.forall(
    0, cx.get(self, "_ports").n, lambda i: P(_op(cx, self), cx.get(self, "_items"), cx.get(self, "_ports").a[i])))
ls.ensure("ports complete", lambda cx, result, self, line: S.forall_int(
    lambda p: z3.Implies(P(_op(cx, self), cx.get(self, "_items"), p), _mem(cx.get(self, "_ports"), p))))
ls.ensure("ports ascending", lambda cx, result, self, line: z3.And(
    ascending(cx.get(self, "_ports"), strict=False),
    z3.Implies(_op(cx, self) != "eq", ascending(cx.get(self, "_ports"))),
    z3.Implies(_op(cx, self) == "eq", same_list(cx.get(self, "_ports"), cx.get(self, "_items")))))
ls.ensure("range text", lambda cx, result, self, line: z3.Implies(
    toks(line).n > 0, S._t(cx.get(self, "_sport")) == PTS(cx.get(self, "_ports").n, cx.get(self, "_ports").a)))


# ---------------------------------------------------------------- assigning an expression's own items / ports back (C08, last sentence)
def inv_port(cx, self):
    """class invariant of a non-empty Port as established by the line setter (contract above)"""
    op, items, ports = _op(cx, self), cx.get(self, "_items"), cx.get(self, "_ports")
    plat = S._t(cx.get(self, "_platform"))
    return z3.And(
        valid(op, items),
        z3.Implies(z3.And(z3.Or(op == "eq", op == "neq"), z3.Or(plat == "asa", plat == "nxos")), items.n == 1),
        S.forall(0, ports.n, lambda i: P(op, items, ports.a[i])),
        S.forall_int(lambda p: z3.Implies(P(op, items, p), _mem(ports, p))),
        ascending(ports, strict=False), z3.Implies(op != "eq", ascending(ports)),
        z3.Implies(op == "eq", z3.And(ports.n == items.n, S.forall(0, items.n, lambda i: ports.a[i] == items.a[i]))))


def _unchanged_text(cx, self):
    """operator and operands as before: the rendered text is a function of these (and of fields the setter does not write)"""
    old = cx.old
    return z3.And(_op(cx, self) == _op(old, self), same_list(cx.get(self, "_items"), old.get(self, "_items")))


def _unchanged_meaning(cx, self):
    old = cx.old
    return S.forall_int(lambda p: _mem(cx.get(self, "_ports"), p) == _mem(old.get(self, "_ports"), p))


si = contract("cisco_acl.port.Port.items.fset#self", dict(self=TObj("Port"), items=TList(TInt)), None, props=("C08",), modifies=PFIELDS,
              ghost={"str_shape": "range", "axioms": numstr_axioms()})
si.require("invariant", lambda cx, self, items: inv_port(cx, self))
si.require("own items", lambda cx, self, items: same_list(items, cx.get(self, "_items")))
si.ensure("text unchanged", lambda cx, result, self, items: _unchanged_text(cx, self))
si.ensure("meaning unchanged", lambda cx, result, self, items: _unchanged_meaning(cx, self), hints=[
    lambda cx, result, v, self, items: _unchanged_text(cx, self),
    lambda cx, result, v, self, items: S.forall_int(lambda p: _mem(cx.get(self, "_items"), p) == _mem(cx.old.get(self, "_items"), p)),
    lambda cx, result, v, self, items: S.forall_int(lambda p: P(_op(cx, self), cx.get(self, "_items"), p) == P(_op(cx.old, self), cx.old.get(self, "_items"), p)),
    lambda cx, result, v, self, items: S.forall_int(lambda p: _mem(cx.get(self, "_ports"), p) == P(_op(cx, self), cx.get(self, "_items"), p)),
    lambda cx, result, v, self, items: S.forall_int(lambda p: _mem(cx.old.get(self, "_ports"), p) == P(_op(cx.old, self), cx.old.get(self, "_items"), p)),
])
si.ensure("invariant kept", lambda cx, result, self, items: inv_port(cx, self))

sp = contract("cisco_acl.port.Port.ports.fset#self", dict(self=TObj("Port"), ports=TList(TInt)), None, props=("C08",), modifies=PFIELDS,
              ghost={"str_shape": "range", "axioms": numstr_axioms()})
sp.require("invariant", lambda cx, self, ports: inv_port(cx, self))
sp.require("own ports", lambda cx, self, ports: same_list(ports, cx.get(self, "_ports")))
sp.ensure("operator unchanged", lambda cx, result, self, ports: _op(cx, self) == _op(cx.old, self))
sp.ensure("text unchanged", lambda cx, result, self, ports: z3.Implies(_op(cx.old, self) != "neq", _unchanged_text(cx, self)))
sp.ensure("meaning unchanged", lambda cx, result, self, ports: _unchanged_meaning(cx, self), hints=[
    # the operands written into the text (items_ = _ports_to_items(ports)) are read back unchanged
    lambda cx, result, v, self, ports: z3.And(_op(cx, self) == _op(cx.old, self), same_list(cx.get(self, "_items"), v.items_)),
    lambda cx, result, v, self, ports: S.forall_int(lambda p: _mem(cx.get(self, "_items"), p) == _mem(v.items_, p)),
    lambda cx, result, v, self, ports: S.forall_int(lambda p: P(_op(cx, self), cx.get(self, "_items"), p) == P(_op(cx.old, self), v.items_, p)),
    lambda cx, result, v, self, ports: S.forall_int(lambda p: P(_op(cx, self), cx.get(self, "_items"), p) == P(_op(cx.old, self), cx.old.get(self, "_items"), p)),
    lambda cx, result, v, self, ports: S.forall_int(lambda p: _mem(cx.get(self, "_ports"), p) == P(_op(cx, self), cx.get(self, "_items"), p)),
    lambda cx, result, v, self, ports: S.forall_int(lambda p: _mem(cx.old.get(self, "_ports"), p) == P(_op(cx.old, self), cx.old.get(self, "_items"), p)),
])
c_port.d.ghost["ghost_args"] = {"i0": lambda cx, self, ports: cx.get(self, "_items")}


# ---------------------------------------------------------------- assigning the range string back
# assumed codec law (checked natively by the codec clauses of C08 on all subsets of small universes and on seeded subsets of
# 1..65535): decoding the compact text of a strictly ascending list of ports within 1..65535 gives that list back.
UNPTS_LEN = z3.Function("ports_of_text_len", z3.StringSort(), z3.IntSort())
UNPTS_ARR = z3.Function("ports_of_text_arr", z3.StringSort(), z3.ArraySort(z3.IntSort(), z3.IntSort()))


def _codec_axiom():
    n = z3.Int("n!cd")
    a = z3.Array("a!cd", z3.IntSort(), z3.IntSort())
    i, j, k = z3.Ints("i!cd j!cd k!cd")
    strict = z3.ForAll([i, j], z3.Implies(z3.And(0 <= i, i < j, j < n), a[i] < a[j]))
    inrange = z3.ForAll([i], z3.Implies(z3.And(0 <= i, i < n), z3.And(1 <= a[i], a[i] <= ALL)))
    same = z3.ForAll([k], z3.Implies(z3.And(0 <= k, k < n), UNPTS_ARR(PTS(n, a))[k] == a[k]))
    return z3.ForAll([n, a], z3.Implies(z3.And(n >= 0, strict, inrange), z3.And(UNPTS_LEN(PTS(n, a)) == n, same)), patterns=[PTS(n, a)])


stp = contract("cisco_acl.helpers.string_to_ports", dict(ports=TStr), TList(TInt), verify=False, props=("C08",),
               note="decoder of the compact range text, named by ghost functions of the text; with the assumed codec law it inverts ports_to_string on "
                    "strictly ascending port lists (bounded codec clauses of C08)")
stp.ghost["pure_result"] = lambda cx, ports: SList(TInt, UNPTS_LEN(S._t(ports)), UNPTS_ARR(S._t(ports)))

ss = contract("cisco_acl.port.Port.sport.fset#self", dict(self=TObj("Port"), sport=TStr), None, props=("C08",), modifies=PFIELDS,
              ghost={"str_shape": "range", "axioms": numstr_axioms() + [_codec_axiom()]})
ss.require("invariant", lambda cx, self, sport: inv_port(cx, self))
ss.require("ports strictly ascending", lambda cx, self, sport: ascending(cx.get(self, "_ports")))
ss.require("own range text", lambda cx, self, sport: z3.And(
    S._t(sport) == S._t(cx.get(self, "_sport")),
    S._t(cx.get(self, "_sport")) == PTS(cx.get(self, "_ports").n, cx.get(self, "_ports").a)))
ss.ensure("operator unchanged", lambda cx, result, self, sport: _op(cx, self) == _op(cx.old, self))
ss.ensure("text unchanged", lambda cx, result, self, sport: z3.Implies(_op(cx.old, self) != "neq", _unchanged_text(cx, self)))
ss.ensure("meaning unchanged", lambda cx, result, self, sport: _unchanged_meaning(cx, self))
