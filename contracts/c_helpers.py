"""Contracts on cisco_acl.helpers kernels."""
import z3
from pyvc import spec as S
from pyvc.contract import contract, schema
from pyvc.values import TInt, TBool, TStr, TNet, TList, TObj, TOpt

# ---------------------------------------------------------------- subnet_of (C13, C03, C11)
c = contract("cisco_acl.helpers.subnet_of", dict(tops=TList(TNet), bottoms=TList(TNet)), TBool, props=("C13", "C03", "C11"))
c.ensure("exact", lambda cx, result, tops, bottoms: S.Iff(result, S.And(
    S.length(tops) > 0, S.length(bottoms) > 0,
    S.forall_in(bottoms, lambda b: S.exists_in(tops, lambda t: S.net_sub(b, t))))))
c.loop(0, lambda cx, k, v: S.forall(0, k, lambda i: S.exists_in(v.tops, lambda t: S.net_sub(S.at(v.bottoms, i), t))))
c.loop(1, lambda cx, k, v: S.forall(0, k, lambda j: S.Not(S.net_sub(v.bottom, S.at(v.tops, j)))))
