"""C08 - Port operators: _items_to_ports (semantics) and _ports_to_items (inverse / write-back)."""
import z3
from pyvc import spec as S
from pyvc.contract import contract
from pyvc.values import TInt, TBool, TStr, TList, TObj
from . import schemas  # noqa

OPS = ("eq", "gt", "lt", "neq", "range")
ALL = 65535


def _op(cx, self):
    return S._t(cx.get(self, "_operator"))


def _mem(L, p):
    return S.mem_term(L, p)


def P(op, items, p):
    """Cisco meaning of `op items` for a port p (the statement of C08): membership predicate"""
    n = S.length(items)
    return z3.And(1 <= p, p <= ALL, z3.Or(
        z3.And(op == "eq", _mem(items, p)),
        z3.And(op == "neq", z3.Not(_mem(items, p))),
        z3.And(op == "gt", p > S.at(items, 0)),
        z3.And(op == "lt", p < S.at(items, 0)),
        z3.And(op == "range", S.at(items, 0) <= p, p <= S.at(items, n - 1))))


def valid(op, items):
    """operands as produced by Port._line__items_to_ints: sorted, within 1..65535, operand count per operator"""
    n = S.length(items)
    i, j = z3.Ints("i!v j!v")
    return z3.And(z3.Or(*[op == o for o in OPS]), n >= 1,
                  z3.ForAll([i], z3.Implies(z3.And(0 <= i, i < n), z3.And(1 <= S.at(items, i), S.at(items, i) <= ALL))),
                  z3.ForAll([i, j], z3.Implies(z3.And(0 <= i, i < j, j < n), S.at(items, i) <= S.at(items, j))),
                  z3.Implies(z3.Or(op == "gt", op == "lt"), n == 1), z3.Implies(op == "range", n == 2))


def valid0(op, items):
    """what Port._items_to_ports is called with at most: as `valid`, but the operand of lt / gt / neq may also be 0, which the line parser accepts
    (`lt 0` denotes no port, `gt 0` and `neq 0` every port); eq / range with operand 0 put port 0 into the list, outside the 1..65535 of the statement"""
    n = S.length(items)
    i, j = z3.Ints("i!v j!v")
    low = z3.If(z3.Or(op == "eq", op == "range"), 1, 0)
    return z3.And(z3.Or(*[op == o for o in OPS]), n >= 1,
                  z3.ForAll([i], z3.Implies(z3.And(0 <= i, i < n), z3.And(low <= S.at(items, i), S.at(items, i) <= ALL))),
                  z3.ForAll([i, j], z3.Implies(z3.And(0 <= i, i < j, j < n), S.at(items, i) <= S.at(items, j))),
                  z3.Implies(z3.Or(op == "gt", op == "lt"), n == 1), z3.Implies(op == "range", n == 2))


def ascending(L, strict=True):
    return S.asc_term(L, strict)


c = contract("cisco_acl.port.Port._items_to_ports", dict(self=TObj("Port"), items=TList(TInt)), TList(TInt), props=("C08",))
c.require("valid", lambda cx, self, items: valid0(_op(cx, self), items))
c.ensure("sound", lambda cx, result, self, items: S.forall(0, S.length(result), lambda i: P(_op(cx, self), items, S.at(result, i))))
def _complete_hints(cx, result, v, self, items):
    """the port universe the comprehensions filter: every port 1..65535 is in it (absent on the eq / range paths)"""
    lo = S.at(items, 0)
    hi = S.at(items, S.length(items) - 1)
    # range: the port p sits at index p - lo of the result
    rng = z3.Implies(_op(cx, self) == "range", S.forall_int(lambda p: z3.Implies(
        z3.And(lo <= p, p <= hi), z3.And(0 <= p - lo, p - lo < S.length(result), S.at(result, p - lo) == p))))
    try:
        allp = v.all_ports
        allp.n
    except AttributeError:
        return [rng]
    return [rng]


c.ensure("complete", lambda cx, result, self, items: S.forall_int(lambda p: z3.Implies(P(_op(cx, self), items, p), _mem(result, p))), hints=[_complete_hints])
c.ensure("ascending", lambda cx, result, self, items: z3.And(ascending(result, strict=False),
                                                           z3.Implies(_op(cx, self) != "eq", ascending(result, strict=True))))

c.ensure("eq: the operands themselves", lambda cx, result, self, items: z3.Implies(_op(cx, self) == "eq", z3.And(
    S.length(result) == S.length(items), S.forall(0, S.length(items), lambda i: S.at(result, i) == S.at(items, i)))))

# instantiation guidance only: NAMED(p) is true of every p (ghost axiom below, a definitional extension); the invariant's quantifier carries it as its pattern, and a
# hint `NAMED(port)` puts the one term into the context at which the invariant has to be read before `items.remove(port)`
NAMED = z3.Function("port_named", z3.IntSort(), z3.BoolSort())


# inverse: ports is the exact ascending representation of P(op, i0) for ghost operands i0
d = contract("cisco_acl.port.Port._ports_to_items", dict(self=TObj("Port"), ports=TList(TInt), i0=TList(TInt)), TList(TInt),
             props=("C08",), note="i0 is a ghost parameter (the operands whose port list is written back)")
d.ghost["axioms"] = [z3.ForAll([z3.Int("p!nm")], NAMED(z3.Int("p!nm")))]
d.require("valid", lambda cx, self, ports, i0: valid(_op(cx, self), i0))
d.require("ports=P(op,i0)", lambda cx, self, ports, i0: z3.And(
    ascending(ports, strict=False), z3.Implies(_op(cx, self) != "eq", ascending(ports)),
    S.forall(0, S.length(ports), lambda i: P(_op(cx, self), i0, S.at(ports, i))),
    S.forall_int(lambda p: z3.Implies(P(_op(cx, self), i0, p), _mem(ports, p))),
    z3.Implies(_op(cx, self) == "eq", z3.And(S.length(ports) == S.length(i0),
                                             S.forall(0, S.length(i0), lambda i: S.at(ports, i) == S.at(i0, i))))))
d.ensure("meaning", lambda cx, result, self, ports, i0: S.forall_int(
    lambda p: P(_op(cx, self), result, p) == P(_op(cx, self), i0, p)))
d.ensure("text", lambda cx, result, self, ports, i0: z3.Implies(_op(cx, self) != "neq", z3.And(
    S.length(result) == S.length(i0), S.forall(0, S.length(i0), lambda i: S.at(result, i) == S.at(i0, i)))))


def _nonempty_hint(cx, result, v, self, ports, i0):
    """neq: the first excluded port is none of the written-back ports, so it is still in the list (the witness for `at least one operand`)"""
    return z3.Implies(_op(cx, self) == "neq", z3.And(z3.Not(_mem(ports, S.at(i0, 0))), _mem(result, S.at(i0, 0))))


_nonempty_hint.for_clauses = (1,)


def _named_hint(cx, result, v, self, ports, i0):
    """the terms at which the loop invariant is read after the loop: the first excluded port and every element of the result"""
    return z3.And(NAMED(S.at(i0, 0)), S.forall(0, S.length(result), lambda i: NAMED(S.at(result, i))))


d.ensure("valid operands", lambda cx, result, self, ports, i0: valid(_op(cx, self), result), hints=[_named_hint, _nonempty_hint])


def _gone(ports, k, p):
    """p is one of ports[:k] (same shape as mem_term, so that at k == len it *is* mem_term(ports, p))"""
    from pyvc.values import SList
    return S.mem_term(SList(TInt, S._t(k), ports.a), p)


def _inv_remove(cx, k, v):
    p = z3.Int("p!inv")
    return z3.And(ascending(v.items), S.length(v.items) == ALL - k,
                  z3.ForAll([p], _mem(v.items, p) == z3.And(1 <= p, p <= ALL, z3.Not(_gone(v.ports, k, p))), patterns=[NAMED(p)]))




d.ghost["asserts"] = {"items.remove(port)": [
    lambda cx, v: z3.And(1 <= S._t(v.port), S._t(v.port) <= ALL),
    lambda cx, v: z3.Not(_gone(v.ports, v.__getattr__("__loop_k__"), S._t(v.port))),
    lambda cx, v: NAMED(S._t(v.port)),
    lambda cx, v: _mem(v.items, S._t(v.port)),
]}
d.loop(0, _inv_remove, hints=[
    lambda cx, k, v: z3.And(1 <= S._t(v.port), S._t(v.port) <= ALL),                   # from ports = P(op, i0)
    lambda cx, k, v: z3.Not(_gone(v.ports, k, S._t(v.port))),                          # ports strictly ascending
    lambda cx, k, v: _mem(v.head.items, S._t(v.port)),                                 # so the element is present
    lambda cx, k, v: S.forall_int(lambda p: _gone(v.ports, k + 1, p) == z3.Or(_gone(v.ports, k, p), p == S._t(v.port))),
    lambda cx, k, v: ascending(v.head.items),
    # list.remove on a strictly ascending list (engine lemma), with its guards discharged
    lambda cx, k, v: S.forall_int(lambda p: _mem(v.items, p) == z3.And(_mem(v.head.items, p), p != S._t(v.port))),
    lambda cx, k, v: S.forall_int(lambda p: _mem(v.head.items, p) == z3.And(1 <= p, p <= ALL, z3.Not(_gone(v.ports, k, p)))),
])


# ---------------------------------------------------------------- replay builders (native, on the real classes)
def _model_list(model, name):
    n = model.get(name + ".len", 0)
    if not isinstance(n, int) or n < 0 or n > 6:
        return None
    return [model.get(f"{name}[{i}]") for i in range(n)]


def _replay_ports_to_items(model, ob):
    """the write-back at API level: Port(op i0); p.ports = p.ports must keep text and meaning"""
    from cisco_acl import Port
    op = model.get("self._operator")
    i0 = _model_list(model, "i0")
    if op not in OPS or not i0 or not all(isinstance(x, int) and 1 <= x <= ALL for x in i0):
        return None
    line = f"{op} " + " ".join(str(x) for x in i0)
    cmd = ("import sys; from cisco_acl import Port\n"
           f"p = Port({line!r}, protocol='tcp', port_nr=True); before = (p.line, list(p.ports))\n"
           "try:\n    p.ports = p.ports; after = (p.line, list(p.ports))\nexcept Exception as ex:\n    after = repr(ex)\n"
           "print('before', before[0], 'after', after if isinstance(after, str) else after[0]); sys.exit(0 if after == before else 1)\n")
    p = Port(line, protocol="tcp", port_nr=True)
    before = (p.line, list(p.ports))
    try:
        p.ports = p.ports
        after = (p.line, list(p.ports))
    except Exception as ex:
        after = f"{type(ex).__name__}: {ex}"
    viol = after != before
    return dict(violates=viol, inputs=dict(line=line, op="p.ports = p.ports"), expected=before[0],
                observed=after if isinstance(after, str) else after[0], cmd=cmd,
                what=f"Port({line!r}): assigning its own port list back gives {after if isinstance(after, str) else after[0]!r}",
                key=f"port.Port._ports_to_items/{op}:{'error' if isinstance(after, str) else 'changed'}")


d.replay = _replay_ports_to_items
