"""C05 - wildcard.py kernels: list-level (positions are Ints, BIT uninterpreted) and word-level (bit vectors)."""
import z3
from pyvc import spec as S
from pyvc.contract import contract
from pyvc.values import TInt, TBool, TStr, TNet, TList, TObj, TOpt, TBV, TTuple, Net, SList, BIT, BVW
from . import schemas  # noqa


def asc(L, strict=True):
    return S.asc_term(L, strict)


# ---------------------------------------------------------------- _prefixlen_idx
p = contract("cisco_acl.wildcard.Wildcard._prefixlen_idx", dict(mask_bit_idxs=TList(TInt)), TInt, props=("C05",))
p.ensure("prefix", lambda cx, result, mask_bit_idxs: z3.And(
    0 <= S._t(result), S._t(result) <= mask_bit_idxs.n,
    S.forall(0, result, lambda j: S.at(mask_bit_idxs, j) == j),
    z3.Or(S._t(result) == mask_bit_idxs.n, S.at(mask_bit_idxs, S._t(result)) != S._t(result))))
p.loop(0, lambda cx, k, v: z3.And(S._t(v.prefixlen_idx) == k, S.forall(0, k, lambda j: S.at(v.mask_bit_idxs, j) == j)))

# ---------------------------------------------------------------- _ncw_bits
n = contract("cisco_acl.wildcard.Wildcard._ncw_bits", dict(self=TObj("Wildcard"), wb_idxs=TList(TInt), prefixlen_idx=TInt), TList(TInt),
             props=("C05",))
n.require("idx", lambda cx, self, wb_idxs, prefixlen_idx: z3.And(0 <= S._t(prefixlen_idx), S._t(prefixlen_idx) <= wb_idxs.n))
n.may_raise("NetmaskValueError", lambda cx, self, wb_idxs, prefixlen_idx: wb_idxs.n - S._t(prefixlen_idx) > S._t(cx.get(self, "_max_ncwb")))
n.ensure("reverse of the tail", lambda cx, result, self, wb_idxs, prefixlen_idx: z3.And(
    result.n == wb_idxs.n - S._t(prefixlen_idx),
    S.forall(0, result.n, lambda j: S.at(result, j) == S.at(wb_idxs, wb_idxs.n - 1 - j))))
n.ensure("limit", lambda cx, result, self, wb_idxs, prefixlen_idx: result.n <= S._t(cx.get(self, "_max_ncwb")))


# ---------------------------------------------------------------- _create_ncwb
def trailing(w, r):
    """r = number of trailing one-bits of the 32-bit mask w"""
    q = z3.Int("q!tr")
    return z3.And(0 <= r, r <= 32, z3.ForAll([q], z3.Implies(z3.And(0 <= q, q < r), BIT(w, q))), z3.Or(r == 32, z3.Not(BIT(w, r))))


c = contract("cisco_acl.wildcard.Wildcard._create_ncwb", dict(self=TObj("Wildcard")), TTuple(TList(TInt), TInt), props=("C05",))
c.require("mask is a 32-bit word", lambda cx, self: z3.ULE(S._t(cx.get(self, "_wildmask")), 0xFFFFFFFF))
c.may_raise("NetmaskValueError", None, label="limit")
c.ensure("prefixlen", lambda cx, result, self: trailing(S._t(cx.get(self, "_wildmask")), 32 - S._t(result[1])))
c.ensure("ncwb.sound", lambda cx, result, self: S.forall(0, result[0].n, lambda j: z3.And(
    32 - S._t(result[1]) < S.at(result[0], j), S.at(result[0], j) < 32, BIT(S._t(cx.get(self, "_wildmask")), S.at(result[0], j)))))
c.ensure("ncwb.complete", lambda cx, result, self: S.forall_int(lambda q: z3.Implies(
    z3.And(32 - S._t(result[1]) < q, q < 32, BIT(S._t(cx.get(self, "_wildmask")), q)), S.mem_term(result[0], q))),
    hints=[
        # every wildcard bit position is listed in wb_idxs (comprehension completeness)
        lambda cx, result, v, self: S.forall_int(lambda q: z3.Implies(z3.And(0 <= q, q < 32, BIT(S._t(cx.get(self, "_wildmask")), q)),
                                                                       S.mem_term(v.wb_idxs, q))),
        # the tail wb_idxs[k:] is what ncwb lists (reversed)
        lambda cx, result, v, self: S.forall(S._t(v.prefixlen_idx), v.wb_idxs.n, lambda i: S.mem_term(result[0], S.at(v.wb_idxs, i))),
        # the head wb_idxs[:k] is 0..k-1
        lambda cx, result, v, self: S.forall(0, S._t(v.prefixlen_idx), lambda i: S.at(v.wb_idxs, i) == i),
    ])
c.ensure("ncwb.descending", lambda cx, result, self: S.forall(0, result[0].n, lambda i: S.forall(
    0, result[0].n, lambda j: z3.Implies(i < j, S.at(result[0], i) > S.at(result[0], j)))))
c.ensure("limit", lambda cx, result, self: result[0].n <= S._t(cx.get(self, "_max_ncwb")))
