"""C05 - wildcard.py kernels: list-level (positions are Ints, BIT uninterpreted) and word-level (bit vectors)."""
import z3
from pyvc import spec as S
from pyvc.contract import contract
from pyvc.values import TInt, TBool, TStr, TNet, TList, TObj, TOpt, TBV, TTuple, Net, SList, BIT, BVW
from . import schemas  # noqa


def asc(L, strict=True):
    return S.asc_term(L, strict)


# ---------------------------------------------------------------- _prefixlen_idx
p = contract("cisco_acl.wildcard.Wildcard._prefixlen_idx", dict(mask_bit_idxs=TList(TInt)), TInt, props=("C05",))
p.ensure("prefix", lambda cx, result, mask_bit_idxs: z3.And(
    0 <= S._t(result), S._t(result) <= mask_bit_idxs.n,
    S.forall(0, result, lambda j: S.at(mask_bit_idxs, j) == j),
    z3.Or(S._t(result) == mask_bit_idxs.n, S.at(mask_bit_idxs, S._t(result)) != S._t(result))))
p.loop(0, lambda cx, k, v: z3.And(S._t(v.prefixlen_idx) == k, S.forall(0, k, lambda j: S.at(v.mask_bit_idxs, j) == j)))

# ---------------------------------------------------------------- _ncw_bits
n = contract("cisco_acl.wildcard.Wildcard._ncw_bits", dict(self=TObj("Wildcard"), wb_idxs=TList(TInt), prefixlen_idx=TInt), TList(TInt),
             props=("C05",))
n.require("idx", lambda cx, self, wb_idxs, prefixlen_idx: z3.And(0 <= S._t(prefixlen_idx), S._t(prefixlen_idx) <= wb_idxs.n))
n.may_raise("NetmaskValueError", lambda cx, self, wb_idxs, prefixlen_idx: wb_idxs.n - S._t(prefixlen_idx) > S._t(cx.get(self, "_max_ncwb")))
n.ensure("reverse of the tail", lambda cx, result, self, wb_idxs, prefixlen_idx: z3.And(
    result.n == wb_idxs.n - S._t(prefixlen_idx),
    S.forall(0, result.n, lambda j: S.at(result, j) == S.at(wb_idxs, wb_idxs.n - 1 - j))))
n.ensure("limit", lambda cx, result, self, wb_idxs, prefixlen_idx: result.n <= S._t(cx.get(self, "_max_ncwb")))


# ---------------------------------------------------------------- _create_ncwb
def trailing(w, r):
    """r = number of trailing one-bits of the 32-bit mask w"""
    q = z3.Int("q!tr")
    return z3.And(0 <= r, r <= 32, z3.ForAll([q], z3.Implies(z3.And(0 <= q, q < r), BIT(w, q))), z3.Or(r == 32, z3.Not(BIT(w, r))))


c = contract("cisco_acl.wildcard.Wildcard._create_ncwb", dict(self=TObj("Wildcard")), TTuple(TList(TInt), TInt), props=("C05",))
c.require("mask is a 32-bit word", lambda cx, self: z3.ULE(S._t(cx.get(self, "_wildmask")), 0xFFFFFFFF))
# BIT of the mask word is its definition (32-way macro), so that bodies that read the bits with shifts and masks instead of format() are judged on the same predicate
from pyvc.values import bit_definition   # noqa: E402
c.ghost["defs"] = [lambda cx, self: z3.And(*bit_definition([S._t(cx.get(self, "_wildmask"))]))]
c.may_raise("NetmaskValueError", None, label="limit")
c.ensure("prefixlen", lambda cx, result, self: trailing(S._t(cx.get(self, "_wildmask")), 32 - S._t(result[1])))
c.ensure("ncwb.sound", lambda cx, result, self: S.forall(0, result[0].n, lambda j: z3.And(
    32 - S._t(result[1]) < S.at(result[0], j), S.at(result[0], j) < 32, BIT(S._t(cx.get(self, "_wildmask")), S.at(result[0], j)))))
c.ensure("ncwb.complete", lambda cx, result, self: S.forall_int(lambda q: z3.Implies(
    z3.And(32 - S._t(result[1]) < q, q < 32, BIT(S._t(cx.get(self, "_wildmask")), q)), S.mem_term(result[0], q))),
    hints=[
        # every wildcard bit position is listed in wb_idxs (comprehension completeness)
        lambda cx, result, v, self: S.forall_int(lambda q: z3.Implies(z3.And(0 <= q, q < 32, BIT(S._t(cx.get(self, "_wildmask")), q)),
                                                                       S.mem_term(v.wb_idxs, q))),
        # the tail wb_idxs[k:] is what ncwb lists (reversed): first with the position named (the witness the membership below needs), then as membership
        lambda cx, result, v, self: z3.And(result[0].n == v.wb_idxs.n - S._t(v.prefixlen_idx), S.forall(S._t(v.prefixlen_idx), v.wb_idxs.n, lambda i: z3.And(
            0 <= v.wb_idxs.n - 1 - i, v.wb_idxs.n - 1 - i < result[0].n, S.at(result[0], v.wb_idxs.n - 1 - i) == S.at(v.wb_idxs, i)))),
        lambda cx, result, v, self: S.forall(S._t(v.prefixlen_idx), v.wb_idxs.n, lambda i: S.mem_term(result[0], S.at(v.wb_idxs, i))),
        # the head wb_idxs[:k] is 0..k-1
        lambda cx, result, v, self: S.forall(0, S._t(v.prefixlen_idx), lambda i: S.at(v.wb_idxs, i) == i),
    ])
c.ensure("ncwb.descending", lambda cx, result, self: S.forall(0, result[0].n, lambda i: S.forall(
    0, result[0].n, lambda j: z3.Implies(i < j, S.at(result[0], i) > S.at(result[0], j)))))
c.ensure("limit", lambda cx, result, self: result[0].n <= S._t(cx.get(self, "_max_ncwb")))


# ---------------------------------------------------------------- _create_prefix (word level)
from pyvc.values import IP_OK, IP_PARSE, WS_LEN, WS_ARR, POW2, TBIT, netmask_of, bit_macro   # noqa: E402

M32 = z3.BitVecVal(0xFFFFFFFF, BVW)


def _tok(line, i):
    return WS_ARR(S._t(line))[i]


cp = contract("cisco_acl.wildcard.Wildcard._create_prefix", dict(line=TStr), TTuple(TBV, TBV), props=("C05",))
cp.may_raise("ValueError", lambda cx, line: z3.Or(WS_LEN(S._t(line)) != 2, z3.Not(IP_OK(_tok(line, 0))), z3.Not(IP_OK(_tok(line, 1)))))
cp.ensure("masked", lambda cx, result, line: z3.And(
    S._t(result[1]) == IP_PARSE(_tok(line, 1)),
    S._t(result[0]) == (IP_PARSE(_tok(line, 0)) & ~IP_PARSE(_tok(line, 1)) & M32),
    (S._t(result[0]) & S._t(result[1])) == 0,
    z3.ULE(S._t(result[0]), 0xFFFFFFFF), z3.ULE(S._t(result[1]), 0xFFFFFFFF)))

# ---------------------------------------------------------------- ipnets (raw body behind lru_cache)
# ghost: POSIDX(p) = index of position p in self._ncwb (or -1); NETADDR(u) = address of the u-th generated network
POSIDX = z3.Function("ncwb_index_of", z3.IntSort(), z3.IntSort())
NETADDR = z3.Function("net_address", z3.IntSort(), z3.BitVecSort(BVW))


def _bit(w, c):
    return z3.Extract(c, c, w) == 1


def _ncwb_wf(ncwb):
    q = z3.Int("q!wf")
    return z3.And(
        S.forall(0, ncwb.n, lambda i: z3.And(0 <= S.at(ncwb, i), S.at(ncwb, i) < 32, POSIDX(S.at(ncwb, i)) == i)),
        z3.ForAll([q], z3.Or(POSIDX(q) == -1, z3.And(0 <= POSIDX(q), POSIDX(q) < ncwb.n, ncwb.a[POSIDX(q)] == q))),
        ncwb.n <= 30)


def _spread_bit(ncwb, u, c, upto, base):
    """bit c of the word built from `base` by writing the first `upto` tuple elements of tuple u at their positions"""
    k = ncwb.n
    return z3.If(z3.And(0 <= POSIDX(c), POSIDX(c) < upto), TBIT(u, k - 1 - POSIDX(c)) == 1, _bit(base, c))


def _netaddr_def(prefix_i, ncwb):
    """definition of the ghost NETADDR(u): prefix with the tuple bits of u spread over the ncwb positions"""
    u = z3.Int("u!na")
    return z3.ForAll([u], z3.And(z3.ULE(NETADDR(u), 0xFFFFFFFF),
                                 *[_bit(NETADDR(u), c) == _spread_bit(ncwb, u, c, ncwb.n, S._t(prefix_i)) for c in range(32)]))


# the network generator behind Wildcard.ipnets(): a memoised *function of values* (pure), so memoisation is transparent
ip = contract("cisco_acl.wildcard._ipnets", dict(prefix_i=TBV, ncwb=TList(TInt), prefixlen=TInt), TList(TNet), props=("C05",),
              ghost={"loop_var_types": {"ipnets": TList(TNet)}})
ip.require("words", lambda cx, prefix_i, ncwb, prefixlen: z3.And(z3.ULE(S._t(prefix_i), 0xFFFFFFFF), 0 <= S._t(prefixlen), S._t(prefixlen) <= 32))
ip.require("ncwb", lambda cx, prefix_i, ncwb, prefixlen: _ncwb_wf(ncwb))
ip.require("no host bits", lambda cx, prefix_i, ncwb, prefixlen: z3.And(
    (S._t(prefix_i) & ~netmask_of(S._t(prefixlen))) == 0,
    S.forall(0, ncwb.n, lambda i: S.at(ncwb, i) >= 32 - S._t(prefixlen))))
ip.require("ghost NETADDR", lambda cx, prefix_i, ncwb, prefixlen: _netaddr_def(prefix_i, ncwb))
ip.ensure("count", lambda cx, result, prefix_i, ncwb, prefixlen: result.n == POW2(ncwb.n))
ip.ensure("nets", lambda cx, result, prefix_i, ncwb, prefixlen: S.forall(0, result.n, lambda u: result.a[u] == Net.mk_net(NETADDR(u), S._t(prefixlen))))
ip.loop(0, lambda cx, k, v: z3.And(v.ipnets.n == k, S.forall(0, k, lambda u: v.ipnets.a[u] == Net.mk_net(NETADDR(u), S._t(v.prefixlen)))))
ip.loop(1, lambda cx, k, v: z3.And(z3.ULE(S._t(v.prefix_i_), 0xFFFFFFFF),
                                   *[_bit(S._t(v.prefix_i_), c) == _spread_bit(v.ncwb, getattr(v, "__k0__"), c, k, S._t(v.prefix_i)) for c in range(32)]))


# ---------------------------------------------------------------- Wildcard.line.fset: every derived value describes the new line
IPNET_NONE = z3.Function("ipnet_is_none", z3.BitVecSort(BVW), z3.BitVecSort(BVW), z3.BoolSort())
IPNET_VAL = z3.Function("ipnet_value", z3.BitVecSort(BVW), z3.BitVecSort(BVW), Net)

# the text normaliser every `line` setter calls: the result has exactly the words of the argument, in their order, and a str argument is never refused.
# Proved from the bodies (`" ".join(line.split())`); what stays assumed is the engine's law for that idiom (pyvc/builtins_: the whitespace split of
# " ".join(tokens) gives the tokens back), listed under the assumed semantics.
rs = contract("cisco_acl.helpers.replace_spaces", dict(line=TStr), TStr, props=("C05", "C06"))
rs.ensure("words", lambda cx, result, line: z3.And(WS_LEN(S._t(result)) == WS_LEN(S._t(line)), z3.ForAll([z3.Int("i!rs")], z3.Implies(
    z3.And(0 <= z3.Int("i!rs"), z3.Int("i!rs") < WS_LEN(S._t(line))), WS_ARR(S._t(result))[z3.Int("i!rs")] == WS_ARR(S._t(line))[z3.Int("i!rs")]))))
il = contract("cisco_acl.helpers.init_line", dict(line=TStr), TStr, props=("C05", "C06"))
# (TypeError only for a non-str argument: cannot happen for the str-typed parameter of this contract)
il.ensure("words", lambda cx, result, line: z3.And(WS_LEN(S._t(result)) == WS_LEN(S._t(line)), z3.ForAll([z3.Int("i!il")], z3.Implies(
    z3.And(0 <= z3.Int("i!il"), z3.Int("i!il") < WS_LEN(S._t(line))), WS_ARR(S._t(result))[z3.Int("i!il")] == WS_ARR(S._t(line))[z3.Int("i!il")]))))

ci = contract("cisco_acl.wildcard.Wildcard._create_ipnet", dict(self=TObj("Wildcard")), TOpt(TNet), verify=False, props=("C05",),
              note="dotted-quad text + IPv4Network parsing: bounded stand-in only; here: a function of the current _prefix/_wildmask")
ci.ensure("function of the fields", lambda cx, result, self: z3.And(
    result.isnone == IPNET_NONE(S._t(cx.get(self, "_prefix")), S._t(cx.get(self, "_wildmask"))),
    S._t(result.val) == IPNET_VAL(S._t(cx.get(self, "_prefix")), S._t(cx.get(self, "_wildmask")))))

WFIELDS = ["Wildcard._prefix", "Wildcard._wildmask", "Wildcard.ipnet", "Wildcard._ncwb", "Wildcard._prefixlen"]
ls = contract("cisco_acl.wildcard.Wildcard.line.fset", dict(self=TObj("Wildcard"), line=TStr), None, props=("C05",), modifies=WFIELDS)
ls.may_raise("TypeError", None)
ls.may_raise("ValueError", None)


def _derived_ok(cx, self, line):
    w = S._t(cx.get(self, "_wildmask"))
    p_ = S._t(cx.get(self, "_prefix"))
    ncwb = cx.get(self, "_ncwb")
    plen = S._t(cx.get(self, "_prefixlen"))
    ipn_ = cx.get(self, "ipnet")
    return [
        ("mask", w == IP_PARSE(_tok(line, 1))),
        ("prefix", p_ == (IP_PARSE(_tok(line, 0)) & ~IP_PARSE(_tok(line, 1)) & M32)),
        ("ipnet", z3.And(ipn_.isnone == IPNET_NONE(p_, w), S._t(ipn_.val) == IPNET_VAL(p_, w))),
        ("prefixlen", trailing(w, 32 - plen)),
        ("ncwb.sound", S.forall(0, ncwb.n, lambda j: z3.And(32 - plen < S.at(ncwb, j), S.at(ncwb, j) < 32, BIT(w, S.at(ncwb, j))))),
        ("ncwb.complete", S.forall_int(lambda q: z3.Implies(z3.And(32 - plen < q, q < 32, BIT(w, q)), S.mem_term(ncwb, q)))),
        ("limit", ncwb.n <= S._t(cx.get(self, "_max_ncwb"))),
    ]


for _i, _lab in enumerate(["mask", "prefix", "ipnet", "prefixlen", "ncwb.sound", "ncwb.complete", "limit"]):
    ls.ensure("describes the new line: " + _lab, lambda cx, result, self, line, _i=_i: _derived_ok(cx, self, line)[_i][1])


def _unchanged(cx, self):
    out = []
    for k in WFIELDS:
        f = k.split(".")[1]
        a, b = cx.get(self, f), cx.old.get(self, f)
        if hasattr(a, "n") and hasattr(a, "a"):
            out += [a.n == b.n, a.a == b.a]
        elif hasattr(a, "isnone"):
            out += [a.isnone == b.isnone, S._t(a.val) == S._t(b.val)]
        else:
            out.append(S._t(a) == S._t(b))
    return z3.And(*out)


ls.ensure_on_raise("rejected line leaves the object unchanged", lambda cx, exc, self, line: _unchanged(cx, self))
