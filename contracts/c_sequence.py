"""C10 - resequencing: wrapper, init_int, AddrGroup.resequence, AceGroup.resequence."""
import z3
from pyvc import spec as S
from pyvc.contract import contract
from pyvc.values import TInt, TBool, TStr, TList, TObj, TOpt, FuncRef
from . import schemas  # noqa

MAX = 4294967295

# ---------------------------------------------------------------- helpers.init_int on an int argument
c = contract("cisco_acl.helpers.init_int", dict(line=TInt), TInt, props=("C10",))
c.may_raise("ValueError", lambda cx, line: line.t < 0 if hasattr(line, "t") else line < 0)
c.ensure("identity", lambda cx, result, line: S.eq(result, line))

# ---------------------------------------------------------------- the decorator's wrapper, against an abstract method
MRES = z3.Function("method_result", z3.IntSort(), z3.IntSort(), z3.IntSort())
m = contract("abstract.method", dict(ace_o=TObj("AceBase"), start=TInt, step=TInt), TInt, verify=False,
             note="abstract callee of the wrapper: any method whose precondition is the wrapper's guarantee")
m.require("start", lambda cx, ace_o, start, step: S.And(S.le(0, start), S.le(start, MAX)))
m.require("step", lambda cx, ace_o, start, step: S.And(S.Implies(S.eq(start, 0), S.eq(step, 0)),
                                                        S.Implies(S.lt(0, start), S.le(1, step))))
m.ensure("result", lambda cx, result, ace_o, start, step: S.eq(result, MRES(S._t(start), S._t(step))))


def _bad(start, step):
    return S.Or(S.lt(start, 0), S.lt(MAX, start), S.And(S.ne(start, 0), S.lt(step, 1)))


def _step1(start, step):
    return S.Ite(S.eq(start, 0), 0, step)


w = contract("cisco_acl.helpers.check_start_step_sequence._wrapper", dict(ace_o=TObj("AceBase"), start=TInt, step=TInt), TInt,
             props=("C10",), ghost={"env": {"method": FuncRef("abstract.method")}, "kwargs": []})
w.may_raise("ValueError", lambda cx, ace_o, start, step: S.Or(_bad(start, step), MRES(S._t(start), S._t(_step1(start, step))) > MAX))
w.ensure("result", lambda cx, result, ace_o, start, step: S.And(S.eq(result, MRES(S._t(start), S._t(_step1(start, step)))), S.le(result, MAX)))

# ---------------------------------------------------------------- AddrGroup.resequence (raw method, flat list)
SEQ_AG = "AddressAg._sequence"


def _distinct(L):
    return S.forall(0, S.length(L), lambda i: S.forall(0, S.length(L), lambda j: S.Implies(S.ne(i, j), S.ne(S.at(L, i), S.at(L, j)))))


def _raw_pre(start, step):
    return S.And(S.le(0, start), S.le(0, step))


def _numbered_flat(seqmap, items, upto, start, step):
    return S.forall(0, upto, lambda j: seqmap[S.at(items, j)] == S._t(start) + j * S._t(step))


def _frame_flat(newmap, oldmap, items, upto):
    """objects outside items[:upto] keep their number"""
    o = z3.Int("o!frame")
    j = z3.Int("j!frame")
    return z3.ForAll([o], z3.Implies(z3.Not(z3.Exists([j], z3.And(0 <= j, j < S._t(upto), S.at(items, j) == o))),
                                     newmap[o] == oldmap[o]))


a = contract("cisco_acl.addr_group.AddrGroup.resequence.__wrapped__", dict(self=TObj("AddrGroup"), start=TInt, step=TInt), TInt,
             props=("C10",), modifies=[SEQ_AG], ghost={"kwargs": []})
a.require("range", lambda cx, self, start, step: _raw_pre(start, step))
a.require("distinct", lambda cx, self, start, step: _distinct(cx.get(self, "_items")))
a.ensure("last", lambda cx, result, self, start, step: S.eq(result, S.Ite(S.length(cx.get(self, "_items")) > 0,
         S._t(start) + (S.length(cx.get(self, "_items")) - 1) * S._t(step), start)))
a.ensure("numbered", lambda cx, result, self, start, step: _numbered_flat(cx.heap_array(SEQ_AG), cx.get(self, "_items"),
         S.length(cx.get(self, "_items")), start, step))
a.ensure("frame", lambda cx, result, self, start, step: _frame_flat(cx.heap_array(SEQ_AG), cx.old.heap_array(SEQ_AG),
         cx.get(self, "_items"), S.length(cx.get(self, "_items"))))


def _inv_flat(cx, k, v):
    n = S.length(v.items)
    done = z3.If(k < n, k, z3.If(n > 0, n - 1, 0))
    return S.And(S.eq(v.count, n), S.eq(v.sequence, S._t(v.start) + done * S._t(v.step)),
                 _numbered_flat(cx.heap_array(SEQ_AG), v.items, k, v.start, v.step),
                 _frame_flat(cx.heap_array(SEQ_AG), cx.old.heap_array(SEQ_AG), v.items, k))


a.loop(0, _inv_flat)

# ---------------------------------------------------------------- AceGroup.resequence (raw method, tree of groups)
# Ghost vocabulary over the object graph at entry (the graph is not modified: only `_sequence` is in the frame):
#   FN(x), LN(x)   the number that the first / last leaf under node x must receive (a leaf has FN = LN)
#   UG(x, g)       x is a strict descendant of group g
# The `tree` precondition states that these ghosts describe a finite tree of non-empty groups whose leaves are numbered
# consecutively in render order with distance `step` (linear: no multiplication appears in any VC; the closed form
# start + i*step is lemma L10.closedform).  It is an assumption about the *input shape*, not about the code.
SEQ = "AceBase._sequence"
ITEMS = "AceGroup._items"
FN = z3.Function("first_number", z3.IntSort(), z3.IntSort())
LN = z3.Function("last_number", z3.IntSort(), z3.IntSort())
UG = z3.Function("under_group", z3.IntSort(), z3.IntSort(), z3.BoolSort())
# IDXL(x, arr): index of the element of the item array `arr` whose subtree contains x (functional form of
# "the subtrees of different siblings are disjoint")
IDXL = z3.Function("child_index", z3.IntSort(), z3.ArraySort(z3.IntSort(), z3.IntSort()), z3.IntSort())


class _R:  # wrap a z3 Int as an object reference value for cx.isinstance
    def __init__(self, t):
        self.t = t


def _isgrp(cx, x):
    return cx.isinstance(x if hasattr(x, "t") else _R(x), "AceGroup")


def _glen(cx, y):
    return cx.heap_array(ITEMS, "len")[y]


def _garr(cx, y):
    return cx.heap_array(ITEMS, "arr")[y]


def _insub(cx, x, y):
    return z3.Or(x == y, z3.And(_isgrp(cx, y), UG(x, y)))


def _tree_axioms(cx, step):
    x, y, i, j = z3.Ints("x!t y!t i!t j!t")
    grp = _isgrp(cx, y)
    n, arr = _glen(cx, y), _garr(cx, y)
    d = S._t(step)
    return z3.And(
        z3.ForAll([x, y], z3.Implies(grp, UG(x, y) == z3.Exists([j], z3.And(0 <= j, j < n, _insub(cx, x, arr[j]))))),
        z3.ForAll([y], z3.Implies(grp, n >= 1)),
        z3.ForAll([x, y, j], z3.Implies(z3.And(grp, 0 <= j, j < n, _insub(cx, x, arr[j])), IDXL(x, arr) == j)),
        z3.ForAll([y], z3.Not(UG(y, y))),
        z3.ForAll([y], FN(y) <= LN(y)),
        z3.ForAll([y], z3.Implies(z3.Not(grp), FN(y) == LN(y))),
        z3.ForAll([y], z3.Implies(grp, z3.And(FN(y) == FN(arr[0]), LN(y) == LN(arr[n - 1])))),
        z3.ForAll([y, j], z3.Implies(z3.And(grp, 0 <= j, j < n - 1), FN(arr[j + 1]) == LN(arr[j]) + d)),
    )


def _siblings(cx, items, step):
    x, i, j = z3.Ints("x!s i!s j!s")
    n = S.length(items)
    return z3.And(
        z3.ForAll([x, j], z3.Implies(z3.And(0 <= j, j < n, _insub(cx, x, S.at(items, j))), IDXL(x, items.a) == j)),
        z3.ForAll([j], z3.Implies(z3.And(0 <= j, j < n - 1), FN(S.at(items, j + 1)) == LN(S.at(items, j)) + S._t(step))),
    )


def _region(cx, x, items, upto):
    j = z3.Int("j!r")
    return z3.Exists([j], z3.And(0 <= j, j < S._t(upto), _insub(cx, x, S.at(items, j))))


def _numbered_tree(cx, items, upto):
    x = z3.Int("x!n")
    return z3.ForAll([x], z3.Implies(_region(cx, x, items, upto), cx.heap_array(SEQ)[x] == LN(x)))


def _frame_tree(cx, items, upto):
    x = z3.Int("x!f")
    return z3.ForAll([x], z3.Implies(z3.Not(_region(cx, x, items, upto)), cx.heap_array(SEQ)[x] == cx.old.heap_array(SEQ)[x]))


def _aceg_contract(variant, with_items):
    params = dict(self=TObj("AceGroup"), start=TInt, step=TInt)
    if with_items:
        params["items"] = TList(TObj("AceBase"))
    g = contract("cisco_acl.ace_group.AceGroup.resequence.__wrapped__#" + variant, params, TInt, props=("C10",),
                 modifies=[SEQ], ghost={"kwargs": ["items"] if with_items else []})
    its = (lambda cx, kw: kw["items"]) if with_items else (lambda cx, kw: cx.get(kw["self"], "_items"))
    g.require("range", lambda cx, **kw: S.And(S.le(0, kw["start"]), S.le(0, kw["step"]),
                                               S.Implies(S.lt(0, kw["start"]), S.le(1, kw["step"])),
                                               S.Implies(S.eq(kw["start"], 0), S.eq(kw["step"], 0))))
    g.require("nonempty", lambda cx, **kw: S.length(its(cx, kw)) >= 1)
    g.require("tree", lambda cx, **kw: _tree_axioms(cx, kw["step"]))
    g.require("siblings", lambda cx, **kw: _siblings(cx, its(cx, kw), kw["step"]))
    g.require("start", lambda cx, **kw: S.eq(kw["start"], FN(S.at(its(cx, kw), 0))))
    g.may_raise("ValueError", None, label="overflow")
    g.ensure("last", lambda cx, result, **kw: S.eq(result, LN(S.at(its(cx.old, kw), S.length(its(cx.old, kw)) - 1))))
    g.ensure("numbered", lambda cx, result, **kw: _numbered_tree(cx, its(cx.old, kw), S.length(its(cx.old, kw))))
    g.ensure("frame", lambda cx, result, **kw: _frame_tree(cx, its(cx.old, kw), S.length(its(cx.old, kw))))
    g.ensure("nonneg", lambda cx, result, **kw: S.le(kw["start"], result))

    def inv(cx, k, v):
        n = S.length(v.items)
        nxt = z3.If(k < n, FN(S.at(v.items, k)), LN(S.at(v.items, n - 1)))
        return S.And(S.eq(v.count, n), S.eq(v.sequence, nxt), nxt >= S._t(v.start),
                     _numbered_tree(cx, v.items, k), _frame_tree(cx, v.items, k))
    g.loop(0, inv)
    return g


_aceg_contract("items", True)
_aceg_contract("self", False)
