"""C13 - address containment: AddressBase.ipnets / subnet_of / __contains__, functions.subnet_of."""
import z3
from pyvc import spec as S
from pyvc.contract import contract
from pyvc.values import TInt, TBool, TStr, TNet, TList, TObj, TOpt, Net, SList
from . import schemas  # noqa
from . import c_helpers  # noqa
from .c_shadow import IPN_LEN, IPN_ARR, ipn, NETARR

# ghost: value of Wildcard.ipnets() (C05 says which networks these are)
WIPN_LEN = z3.Function("wildcard_ipnets_len", z3.IntSort(), z3.IntSort())
WIPN_ARR = z3.Function("wildcard_ipnets_arr", z3.IntSort(), NETARR)


def wipn(w):
    return SList(TNet, WIPN_LEN(w.t), WIPN_ARR(w.t))


w = contract("cisco_acl.wildcard.Wildcard.ipnets", dict(self=TObj("Wildcard")), TList(TNet), verify=False, props=("C13",),
             note="value of the memoised Wildcard.ipnets() named by ghost functions; C05 verifies which networks these are")
w.ensure("ghost", lambda cx, result, self: z3.And(result.n == WIPN_LEN(self.t), result.a == WIPN_ARR(self.t), result.n >= 0))


def _wild(cx, a):
    return cx.get(a, "_wildcard")


def _ipnet_of(cx, a):
    """AddressBase.ipnet as (isnone, net term)"""
    wv = _wild(cx, a)
    ip = cx.get(wv.val, "ipnet")
    return z3.Or(wv.isnone, ip.isnone), S._t(ip.val)


d = contract("cisco_acl.address_base.AddressBase.ipnets#def", dict(self=TObj("AddressBase")), TList(TNet), props=("C13",),
             ghost={"loop_var_types": {"ipnets": TList(TNet)}})
d.may_raise("TypeError", lambda cx, self: z3.And(
    _wild(cx, self).isnone, S._t(cx.get(self, "_type")) == "addrgroup",
    S.exists(0, S.length(cx.get(self, "_items")), lambda j: cx.get(_item(cx, self, j), "_wildcard").isnone)))


def _item(cx, self, j):
    from pyvc.values import SV
    return SV(TObj("AddressBase"), S.at(cx.get(self, "_items"), j))


d.ensure("single", lambda cx, result, self: z3.Implies(z3.Not(_ipnet_of(cx, self)[0]),
                                                       z3.And(result.n == 1, result.a[0] == _ipnet_of(cx, self)[1])))
d.ensure("wildcard", lambda cx, result, self: z3.Implies(z3.And(_ipnet_of(cx, self)[0], z3.Not(_wild(cx, self).isnone)), z3.And(
    result.n == WIPN_LEN(_wild(cx, self).val.t), result.a == WIPN_ARR(_wild(cx, self).val.t))))
d.ensure("group", lambda cx, result, self: z3.Implies(
    z3.And(_wild(cx, self).isnone, S._t(cx.get(self, "_type")) == "addrgroup"),
    S.forall_int(lambda q: _mem_net(result, q) == _in_members(cx, self, S.length(cx.get(self, "_items")), q))))
d.ensure("other", lambda cx, result, self: z3.Implies(
    z3.And(_wild(cx, self).isnone, S._t(cx.get(self, "_type")) != "addrgroup"), result.n == 0))


def _mem_net(L, q):
    i = z3.Int("mem!i")
    n = z3.Const("net!q", Net) if q is None else q
    return z3.Exists([i], z3.And(0 <= i, i < L.n, L.a[i] == n))


def forall_net(body):
    q = z3.Const("q!net", Net)
    return z3.ForAll([q], body(q))


S.forall_int_backup = S.forall_int


def _in_members(cx, self, upto, q):
    j = z3.Int("j!m")
    items = cx.get(self, "_items")
    from pyvc.values import SV
    wj = cx.get(SV(TObj("AddressBase"), items.a[j]), "_wildcard")
    return z3.Exists([j], z3.And(0 <= j, j < S._t(upto), _mem_net(SList(TNet, WIPN_LEN(wj.val.t), WIPN_ARR(wj.val.t)), q)))


# quantify over networks, not integers, in the `group` clause
d.ensures[2] = ("group", lambda cx, result, self: z3.Implies(
    z3.And(_wild(cx, self).isnone, S._t(cx.get(self, "_type")) == "addrgroup"),
    forall_net(lambda q: _mem_net(result, q) == _in_members(cx, self, S.length(cx.get(self, "_items")), q))))
d.loop(0, lambda cx, k, v: z3.And(
    S.forall(0, k, lambda j: z3.Not(cx.get(_item(cx, v.self, j), "_wildcard").isnone)),
    forall_net(lambda q: _mem_net(v.ipnets, q) == _in_members(cx, v.self, k, q))))

# ---------------------------------------------------------------- subnet_of in its three public forms
s1 = contract("cisco_acl.address_base.AddressBase.subnet_of", dict(self=TObj("AddressBase"), other=TObj("AddressBase")), TBool, props=("C13",))
s1.may_raise("TypeError", None, exact=False)
s1.ensure("exact", lambda cx, result, self, other: S._t(result) == z3.And(
    IPN_LEN(other.t) > 0, IPN_LEN(self.t) > 0, S.forall_in(ipn(self), lambda b: S.exists_in(ipn(other), lambda t: S.net_sub(b, t)))))

s2 = contract("cisco_acl.functions.subnet_of", dict(top=TObj("AddressBase"), bottom=TObj("AddressBase")), TBool, props=("C13",))
s2.may_raise("TypeError", None, exact=False)
s2.ensure("exact", lambda cx, result, top, bottom: S._t(result) == S.forall_in(ipn(bottom), lambda b: S.exists_in(ipn(top), lambda t: S.net_sub(b, t))))
s2.loop(0, lambda cx, k, v: S.forall(0, k, lambda i: S.exists_in(v.tops_, lambda t: S.net_sub(S.at(v.bottoms_, i), t))))
s2.loop(1, lambda cx, k, v: S.forall(0, k, lambda j: S.Not(S.net_sub(v.bottom_, S.at(v.tops_, j)))))

# ---------------------------------------------------------------- `in` between two address-group members
c1 = contract("cisco_acl.address_base.AddressBase.__contains__", dict(self=TObj("AddressAg"), other=TObj("AddressAg")), TBool, props=("C13",))
c1.require("other has a network", lambda cx, self, other: z3.Not(_ipnet_of(cx, other)[0]))
c1.may_raise("TypeError", lambda cx, self, other: _ipnet_of(cx, self)[0])
c1.ensure("exact", lambda cx, result, self, other: S._t(result) == S.net_sub(_ipnet_of(cx, other)[1], _ipnet_of(cx, self)[1]))


# ---------------------------------------------------------------- `in` with a grouped left operand: every member must be inside (C13, last clause)
def _member(cx, other, j):
    from pyvc.values import SV
    return SV(TObj("AddressAg"), cx.get(other, "_items").a[j])


c2 = contract("cisco_acl.address_base.AddressBase.__contains__#group", dict(self=TObj("AddressAg"), other=TObj("AddressAg")), TBool, props=("C13",),
              ghost={"loop_var_types": {"other_ipnet": TOpt(TNet)}})
c2.require("other is a group with members", lambda cx, self, other: z3.And(_ipnet_of(cx, other)[0], cx.get(other, "_items").n > 0))
c2.may_raise("TypeError", None)
c2.ensure("every member inside", lambda cx, result, self, other: S._t(result) == S.forall(
    0, cx.get(other, "_items").n, lambda j: S.net_sub(_ipnet_of(cx, _member(cx, other, j))[1], _ipnet_of(cx, self)[1])))
c2.loop(0, lambda cx, k, v: S.forall(0, k, lambda j: S.net_sub(_ipnet_of(cx, _member(cx, v.other, j))[1], _ipnet_of(cx, v.self)[1])))
