"""C15, C17 - list primitives of cisco_acl.group.Group that the model's sort/reverse/append/clear operations rest on:
append puts the item last and keeps every other position, reverse mirrors the positions, clear leaves no item."""
import z3
from pyvc import spec as S
from pyvc.contract import contract, schema
from pyvc.values import TInt, TBool, TNone, TList, TObj
from . import schemas  # noqa

schema("Group", items=TList(TObj("AceBase")))
G = dict(self=TObj("Group"))


def _items(cx, self):
    return cx.get(self, "items")


ap = contract("cisco_acl.group.Group.append", dict(self=TObj("Group"), item=TObj("AceBase")), TNone, props=("C15", "C17"),
              modifies=["Group.items"])
ap.ensure("one longer", lambda cx, result, self, item: S.eq(S.length(_items(cx, self)), S.length(_items(cx.old, self)) + 1))
ap.ensure("item last", lambda cx, result, self, item: S.eq(S.at(_items(cx, self), S.length(_items(cx.old, self))), item))
ap.ensure("prefix kept", lambda cx, result, self, item: S.forall(0, S.length(_items(cx.old, self)),
          lambda i: S.eq(S.at(_items(cx, self), i), S.at(_items(cx.old, self), i))))

rv = contract("cisco_acl.group.Group.reverse", G, TNone, props=("C15", "C17"), modifies=["Group.items"])
rv.ensure("same length", lambda cx, result, self: S.eq(S.length(_items(cx, self)), S.length(_items(cx.old, self))))
rv.ensure("mirrored", lambda cx, result, self: S.forall(0, S.length(_items(cx.old, self)),
          lambda i: S.eq(S.at(_items(cx, self), i), S.at(_items(cx.old, self), S.length(_items(cx.old, self)) - 1 - i))))

cl = contract("cisco_acl.group.Group.clear", G, TNone, props=("C15", "C17"), modifies=["Group.items"])
cl.ensure("empty", lambda cx, result, self: S.eq(S.length(_items(cx, self)), 0))

ln = contract("cisco_acl.group.Group.__len__", G, TInt, props=("C15", "C17"))
ln.ensure("length", lambda cx, result, self: S.eq(result, S.length(_items(cx, self))))
