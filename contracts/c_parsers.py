"""C01 / C09 - parsers._parse_dstport_option: ports are never taken for options and vice versa."""
import z3
from pyvc import spec as S
from pyvc import loader
from pyvc.contract import contract
from pyvc.values import TStr, TList, SList, WS_LEN, WS_ARR

OPERATORS = ("eq", "gt", "lt", "neq", "range")


def known_names():
    """every name of every table in the current source (independent of all_known_names: C09 proves those two agree)"""
    c = loader.module_constants("cisco_acl.port_name")
    names = set()
    for k, v in c.items():
        if isinstance(v, dict) and "_NAME_PORT__" in k and "IOS_15" not in k:
            names |= set(v)
    return sorted(names)


def is_port_token(t):
    return z3.Or(z3.StrToInt(t) >= 0, *[t == n for n in known_names()])


def is_operator(t):
    return z3.Or(*[t == o for o in OPERATORS])


def toks(s):
    return SList(TStr, WS_LEN(S._t(s)), WS_ARR(S._t(s)))


d = contract("cisco_acl.parsers._parse_dstport_option", dict(line=TStr), None, props=("C01", "C09"),
             ghost={"loop_var_types": {"options": TList(TStr), "dstports": TList(TStr)}})


def _split_ok(cx, result, line):
    L, D, O = toks(line), toks(result["dstport"]), toks(result["option"])
    i = z3.Int("i!sp")
    first_is_op = z3.And(L.n > 0, is_operator(L.a[0]))
    return [
        # nothing lost, nothing invented, order kept: dstport tokens followed by option tokens are the input tokens
        z3.And(D.n + O.n == L.n, z3.ForAll([i], z3.Implies(z3.And(0 <= i, i < D.n), D.a[i] == L.a[i])),
               z3.ForAll([i], z3.Implies(z3.And(0 <= i, i < O.n), O.a[i] == L.a[D.n + i]))),
        # without a leading operator everything is an option
        z3.Implies(z3.Not(first_is_op), D.n == 0),
        # with one: the operator and then only digits / known names ...
        z3.Implies(first_is_op, z3.And(D.n >= 1, z3.ForAll([i], z3.Implies(z3.And(1 <= i, i < D.n), is_port_token(D.a[i]))))),
        # ... and the run is maximal: the first option is not a port token
        z3.Implies(z3.And(first_is_op, O.n > 0), z3.Not(is_port_token(O.a[0]))),
    ]


for _i, _lab in enumerate(["concatenation", "no operator", "ports only", "maximal run"]):
    d.ensure(_lab, lambda cx, result, line, _i=_i: _split_ok(cx, result, line)[_i])


def _inv(cx, k, v):
    i = z3.Int("i!inv")
    L = toks(cx.entry("line"))
    return z3.And(v.dstports.n == k + 1, v.dstports.a[0] == L.a[0], v.options.n == 0, v.items.n == L.n - 1,
                  z3.ForAll([i], z3.Implies(z3.And(0 <= i, i < L.n - 1), v.items.a[i] == L.a[i + 1])),
                  z3.ForAll([i], z3.Implies(z3.And(1 <= i, i <= k), z3.And(v.dstports.a[i] == L.a[i], is_port_token(L.a[i])))))


d.loop(0, _inv)
