"""Views of the library's objects as reference-level semantics (what the parsed entry *says*, field by field)."""
from spec.sets import AceSem, cube_of_prefix, cube


def addr_cubes(addr):
    """address set of an Address/AddressAg through its derived prefixes (ipnets); group members included"""
    return tuple(cube_of_prefix(int(n.network_address), n.prefixlen) for n in addr.ipnets())


def addr_cubes_wildcard(addr):
    """address set through the wildcard text (base, mask) - a second, independent observer of the same object"""
    out = []
    for w in addr.wildcards():
        b, m = w.split()
        out.append(cube(_ip(b), _ip(m)))
    return tuple(out)


def _ip(s):
    v = 0
    for p in s.split("."):
        v = v * 256 + int(p)
    return v


def port_set(port):
    if not port.operator:
        return None
    return frozenset(port.ports)


def ace_sem(ace) -> AceSem:
    proto = None if ace.protocol.name == "ip" else frozenset([ace.protocol.number])
    return AceSem(ace.action, proto, addr_cubes(ace.srcaddr), addr_cubes(ace.dstaddr), port_set(ace.srcport), port_set(ace.dstport),
                  frozenset(ace.option.flags), frozenset(ace.option.logs), ace.srcaddr.addrgroup, ace.dstaddr.addrgroup)
