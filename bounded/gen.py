"""Small-scope enumerators for the bounded stand-ins: the ACE grammar of C01 (`gen_ace`), ACLs, configurations."""
from __future__ import annotations

import itertools
import random

ACTIONS = ["permit", "deny"]

# (token, needs tcp/udp?) per platform; numbers without a name and names that exist on one platform only are included
PROTOS = {
    "ios": ["ip", "tcp", "udp", "icmp", "6", "17", "1", "47", "gre", "esp", "ahp", "ospf", "eigrp", "pim", "200", "255", "igmp", "nos", "pcp"],
    "nxos": ["ip", "tcp", "udp", "icmp", "6", "17", "1", "47", "gre", "esp", "ahp", "ospf", "eigrp", "pim", "200", "255", "igmp", "nos", "pcp"],
}

ADDRS = {
    # native and accepted foreign spellings; each entry: text
    "ios": ["any", "host 10.0.0.1", "10.0.0.1 0.0.0.0", "10.0.0.0 0.0.0.255", "10.0.0.5 0.0.0.3", "10.0.0.0 0.0.1.3",
            "10.1.2.3 0.255.0.255", "0.0.0.0 255.255.255.255", "1.2.3.4 255.255.255.255", "10.0.0.1/32", "10.0.0.0/24",
            "0.0.0.0/0", "192.168.0.0 0.0.255.255", "172.16.0.0 0.15.255.255", "10.0.0.0 0.0.0.254", "10.1.1.0 128.0.0.255", "1.2.3.4 255.0.0.254",
            "10.0.0.0 0.0.1.0", "0.0.0.0 0.255.255.255", "0.0.0.0 127.255.255.255", "128.0.0.0 127.255.255.255", "0.0.0.0 0.0.0.255"],
    "nxos": ["any", "10.0.0.1/32", "10.0.0.0/24", "0.0.0.0/0", "host 10.0.0.1", "10.0.0.1 0.0.0.0", "10.0.0.0 0.0.0.255",
             "10.0.0.5 0.0.0.3", "10.0.0.0 0.0.1.3", "10.1.2.3 0.255.0.255", "0.0.0.0 255.255.255.255", "192.168.0.0/16",
             "172.16.0.0/12", "10.0.0.0 0.0.0.254", "10.1.1.0 128.0.0.255", "1.2.3.4 255.0.0.254", "10.0.0.0 0.0.1.0",
             "0.0.0.0/8", "0.0.0.0 0.255.255.255", "0.0.0.0/1", "128.0.0.0/1", "0.0.0.0/24"],
}

PORTS_TCP = {
    "ios": ["", "eq 80", "eq www", "eq 80 443", "eq www 443 22", "neq 80", "neq 1 65535", "gt 1023", "gt 65535", "gt 65534", "lt 1", "lt 2",
            "lt 1024", "range 20 21", "range 21 20", "range 1 65535", "range ftp-data ftp", "eq 65535", "eq 1", "eq bgp", "eq syslog",
            "range 80 80", "eq 514", "neq telnet"],
    "nxos": ["", "eq 80", "eq www", "neq 80", "gt 1023", "gt 65535", "gt 65534", "lt 1", "lt 2", "lt 1024", "range 20 21", "range 21 20",
             "range 1 65535", "range ftp-data ftp", "eq 65535", "eq 1", "eq bgp", "eq drip", "range 80 80", "eq 514", "neq telnet"],
}
PORTS_UDP = {
    "ios": ["", "eq 53", "eq domain", "eq 67 68", "neq 53", "gt 1023", "lt 1024", "range 67 68", "range bootps bootpc", "eq syslog", "eq ntp",
            "eq 514", "eq non500-isakmp", "gt 65535", "lt 1"],
    "nxos": ["", "eq 53", "eq domain", "neq 53", "gt 1023", "lt 1024", "range 67 68", "range bootps bootpc", "eq syslog", "eq ntp", "eq 514",
             "eq non500-isakmp", "gt 65535", "lt 1"],
}
OPTIONS_TCP = ["", "ack", "syn", "ack syn", "fin psh urg", "rst", "log", "ack log", "log-input", "syn log-input", "ack fin psh rst syn urg"]
OPTIONS_OTHER = ["", "log", "log-input"]
SEQS = ["", "1", "10", "4294967295"]
SPACES = [lambda s: s, lambda s: "  " + s.replace(" ", "  ") + " ",
          lambda s: "\t" + s.replace(" ", " \t    ") + "   "]      # column-aligned text: tabs and runs of blanks, well over 100 characters


def _line(seq, action, proto, src, sport, dst, dport, opt):
    return " ".join(x for x in [seq, action, proto, src, sport, dst, dport, opt] if x)


def ports_for(proto, platform):
    if proto in ("tcp", "6"):
        return PORTS_TCP[platform]
    if proto in ("udp", "17"):
        return PORTS_UDP[platform]
    return [""]


def options_for(proto):
    return OPTIONS_TCP if proto in ("tcp", "6") else OPTIONS_OTHER


def gen_ace(platform: str, tier: str = "quick", seed: int = 0):
    """yield extended ACE lines: each value of each dimension at least once against a default, all pairs of the
    address/port dimensions for tcp, and (thorough) a seeded sample of the full product"""
    seen = set()

    def emit(*parts, space=0):
        l = SPACES[space](_line(*parts))
        if l not in seen:
            seen.add(l)
            return [l]
        return []

    A = ADDRS[platform]
    # each-choice on every dimension
    for proto in PROTOS[platform]:
        for action in ACTIONS:
            yield from emit("", action, proto, "any", "", "any", "", "")
        for sp in ports_for(proto, platform):
            yield from emit("", "permit", proto, "any", sp, "any", "", "")
            yield from emit("", "permit", proto, "any", "", "any", sp, "")
            yield from emit("10", "deny", proto, "host 10.0.0.1" if platform == "ios" else "10.0.0.1/32", sp, "any", sp, "")
        for opt in options_for(proto):
            yield from emit("", "permit", proto, "any", "", "any", "", opt)
            if proto in ("tcp", "6"):
                yield from emit("", "permit", proto, "any", "", "any", "eq 80", opt)
                yield from emit("", "permit", proto, "any", "eq www", "any", "eq www 443" if platform == "ios" else "eq www", opt)
    for a in A:
        for b in A[::2] if tier == "quick" else A:
            yield from emit("", "permit", "ip", a, "", b, "", "")
            yield from emit("", "permit", "tcp", a, "eq 80", b, "gt 1023", "")
    for seq in SEQS:
        for sp in (0, 1, 2):
            yield from emit(seq, "permit", "tcp", A[1], "eq 80", A[3], "range 20 21", "ack log", space=sp)
            yield from emit(seq, "deny", "ip", A[0], "", A[4], "", "log", space=sp)
    # entries longer than 100 characters without any padding (a device has no such limit)
    if platform == "ios":
        many = " ".join(str(p) for p in (20, 21, 22, 23, 25, 53, 80, 110, 143, 443))
        yield from emit("4294967295", "permit", "tcp", "10.0.0.0 0.0.0.255", f"eq {many}", "192.168.0.0 0.0.255.255", f"eq {many}", "ack fin psh rst syn urg log")
    yield from emit("4294967295", "permit", "tcp", A[3], "range 1024 65535", A[4], "range 1024 65535", "ack fin psh rst syn urg log-input" if platform == "ios" else "ack fin psh rst syn urg log")
    # pairs srcport x dstport for tcp and udp
    for proto in ("tcp", "udp"):
        P = ports_for(proto, platform)
        for sp, dp in itertools.product(P, P if tier != "quick" else P[::2]):
            yield from emit("", "permit", proto, "any", sp, "any", dp, "")
    if tier == "thorough":
        rnd = random.Random(seed)
        for _ in range(20000):
            proto = rnd.choice(PROTOS[platform])
            yield from emit(rnd.choice(SEQS), rnd.choice(ACTIONS), proto, rnd.choice(A), rnd.choice(ports_for(proto, platform)),
                            rnd.choice(A), rnd.choice(ports_for(proto, platform)), rnd.choice(options_for(proto)),
                            space=rnd.choice((0, 0, 1, 2)))


VERSIONS = ["0", "15", "16", "9"]
SWITCHES = [(False, False), (True, False), (False, True), (True, True)]   # (port_nr, protocol_nr)
