#!/usr/bin/env python3
"""development aid: tools/dev_prove.py <contract-module> <prop> [target-substring] [timeout]
generates and discharges the obligations of one contract module and prints every result (nothing is written)"""
import importlib
import os
import sys
import time

ROOT = os.path.dirname(os.path.dirname(os.path.abspath(__file__)))
sys.path.insert(0, ROOT)
sys.path.insert(0, os.environ.get("VERIF_REPO", "/repo"))


def main():
    mod, prop = sys.argv[1], sys.argv[2]
    sub = sys.argv[3] if len(sys.argv) > 3 else ""
    tmo = int(sys.argv[4]) if len(sys.argv) > 4 else 20
    from pyvc import VC, smt, loader
    from pyvc import contract as C
    importlib.import_module("contracts." + mod)
    eng = VC()
    t0 = time.time()
    for c in list(C.REGISTRY.values()):
        if c.verify and prop in c.props and sub in c.target:
            try:
                ok = eng.verify_target(c)
            except loader.LoadError as ex:
                print("MOVED", c.target, ex)
                ok = False
            print("target", c.target, "supported" if ok else "UNSUPPORTED")
    for t, why in eng.unsupported:
        print("UNSUPPORTED", t, why)
    print(f"{len(eng.obligations)} obligations generated in {time.time() - t0:.1f}s; lemmas used: {sorted(getattr(eng, 'engine_lemmas', []))}")
    smt.discharge(eng.obligations, timeout_s=tmo)
    for o in eng.obligations:
        print(f"{o.result:8} {o.seconds:6.1f}s {o.solver or '-':14} {o.oid}  {o.note[:100] if o.result != 'PROVED' else ''}")
    bad = [o for o in eng.obligations if o.result != "PROVED"]
    print(f"{len(eng.obligations) - len(bad)}/{len(eng.obligations)} proved")
    for o in bad:
        if o.model:
            print("MODEL", o.oid, str(o.model)[:600])


if __name__ == "__main__":
    main()
