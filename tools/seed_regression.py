#!/usr/bin/env python3
"""tools/seed_regression.py [pattern]: apply every stored seeded change to a scratch worktree of /repo HEAD (never to /repo itself),
run the check(s) recorded in its meta.json and report whether at least one VIOLATION line appears.  Worktrees live under /tmp and are removed."""
import glob
import json
import os
import subprocess
import sys

ROOT = os.path.dirname(os.path.dirname(os.path.abspath(__file__)))


def main():
    pat = sys.argv[1] if len(sys.argv) > 1 else ""
    out = []
    for d in sorted(glob.glob(os.path.join(ROOT, "seeded", "*"))):
        sid = os.path.basename(d)
        if pat not in sid:
            continue
        meta = json.load(open(os.path.join(d, "meta.json")))
        checks = list(meta.get("checks_run", {})) or [meta["breaks_property"]]
        wt = f"/tmp/seedreg_{sid}"
        subprocess.run(["git", "-C", "/repo", "worktree", "add", "-q", "--detach", wt, "HEAD"], check=True)
        try:
            r = subprocess.run(["git", "-C", wt, "apply", os.path.join(d, "patch.diff")], capture_output=True, text=True)
            if r.returncode:
                out.append((sid, "PATCH-DOES-NOT-APPLY", ""))
                continue
            caught = {}
            for c in checks[:1]:
                r = subprocess.run([os.path.join(ROOT, ".venv/bin/python"), os.path.join(ROOT, "tools", "try_seed.py"), wt, c], capture_output=True, text=True)
                caught[c] = sum(1 for l in r.stdout.splitlines() if "VIOLATION" in l)
            out.append((sid, "caught" if any(caught.values()) else "MISSED", caught))
        finally:
            subprocess.run(["git", "-C", "/repo", "worktree", "remove", "--force", wt])
        print(out[-1], flush=True)
    missed = [o for o in out if o[1] != "caught"]
    print(f"{len(out) - len(missed)}/{len(out)} seeds caught; not caught: {[o[0] for o in missed]}")
    return 1 if missed else 0


if __name__ == "__main__":
    sys.exit(main())
