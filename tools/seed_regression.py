#!/usr/bin/env python3
"""tools/seed_regression.py [pattern]: apply every stored seeded change to a scratch worktree of /repo HEAD (never to /repo itself),
run the check(s) recorded in its meta.json and report whether at least one VIOLATION line appears.  Worktrees live under /tmp and are removed."""
import glob
import json
import os
import subprocess
import sys

ROOT = os.path.dirname(os.path.dirname(os.path.abspath(__file__)))


def one(d):
    sid = os.path.basename(d)
    meta = json.load(open(os.path.join(d, "meta.json")))
    checks = list(meta.get("checks_run", {})) or [meta["breaks_property"]]
    wt = f"/tmp/seedreg_{sid}"
    out_dir = f"/tmp/seedreg_out_{sid}"
    subprocess.run(["git", "-C", "/repo", "worktree", "add", "-q", "--detach", wt, "HEAD"], check=True)
    try:
        r = subprocess.run(["git", "-C", wt, "apply", os.path.join(d, "patch.diff")], capture_output=True, text=True)
        if r.returncode:
            return (sid, "PATCH-DOES-NOT-APPLY", {}, [])
        caught, how = {}, []
        env = dict(os.environ, VERIF_OUT=out_dir, VERIF_EVIDENCE_DIR=out_dir + "/evidence")
        for c in checks[:1]:
            r = subprocess.run([os.path.join(ROOT, ".venv/bin/python"), os.path.join(ROOT, "tools", "try_seed.py"), wt, c], capture_output=True, text=True, env=env)
            lines = [l.strip() for l in r.stdout.splitlines() if "VIOLATION" in l]
            caught[c] = len(lines)
            for l in lines:
                name = l.split("replay=")[-1].split()[0].split("/")[-1]
                how.append(("bounded" if name.startswith("bounded_") else "table" if name.startswith("table_") else "deductive")
                           + (":no-input" if l.endswith("no-failing-input-found") else ""))
        return (sid, "caught" if any(caught.values()) else "MISSED", caught, sorted(set(how)))
    finally:
        subprocess.run(["git", "-C", "/repo", "worktree", "remove", "--force", wt])
        subprocess.run(["rm", "-rf", out_dir])


def main():
    import concurrent.futures as cf
    pat = sys.argv[1] if len(sys.argv) > 1 else ""
    match = (lambda n: n.startswith(pat[1:])) if pat.startswith("^") else (lambda n: pat in n)
    dirs = [d for d in sorted(glob.glob(os.path.join(ROOT, "seeded", "*"))) if os.path.isdir(d) and match(os.path.basename(d))]
    out = []
    with cf.ThreadPoolExecutor(int(os.environ.get("SEEDREG_JOBS", "3"))) as ex:
        for res in ex.map(one, dirs):
            out.append(res)
            print(res, flush=True)
    missed = [o for o in out if o[1] != "caught"]
    ded = [o[0] for o in out if any(h.startswith(("deductive", "table")) for h in o[3])]
    print(f"{len(out) - len(missed)}/{len(out)} seeds caught; not caught: {[o[0] for o in missed]}")
    print(f"{len(ded)} seeds are caught (also) by a failing deductive / table obligation: {ded}")
    path = os.path.join(ROOT, "seeded", "REGRESSION.json")
    merged = {e["seed"]: e for e in (json.load(open(path)) if os.path.exists(path) else [])}
    head = subprocess.run(["git", "-C", "/repo", "log", "-1", "--format=%h"], capture_output=True, text=True).stdout.strip()
    for o in out:
        merged[o[0]] = dict(seed=o[0], verdict=o[1], violation_lines=o[2], by=o[3], repo_head=head)
    json.dump([merged[k] for k in sorted(merged)], open(path, "w"), indent=1)
    return 1 if missed else 0


if __name__ == "__main__":
    sys.exit(main())
