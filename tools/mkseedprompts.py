#!/usr/bin/env python3
"""tools/mkseedprompts.py <scratch-dir> <property> [<property> ...]
Creates one scratch worktree of /repo HEAD per property under <scratch-dir> (outside /repo and /verif) and writes the task text for the
independent sub-agent that is to break that property (<scratch-dir>/<property>.prompt.txt).  The agent sees the property text and the list of
places earlier seeds already used (taken from seeded/*/), nothing of /verif.  Remove the worktrees afterwards:
    git -C /repo worktree remove --force <scratch-dir>/<property>; git -C /repo worktree prune"""
import glob
import json
import os
import re
import subprocess
import sys

ROOT = os.path.dirname(os.path.dirname(os.path.abspath(__file__)))


def earlier(pid):
    out = []
    for d in sorted(glob.glob(os.path.join(ROOT, "seeded", "*"))):
        mp = os.path.join(d, "meta.json")
        if not os.path.exists(mp):
            continue
        m = json.load(open(mp))
        if m.get("breaks_property") != pid:
            continue
        patch = open(os.path.join(d, "patch.diff")).read()
        files = sorted(set(re.findall(r"^\+\+\+ b/cisco_acl/(\S+)", patch, re.M)))
        funcs = sorted(set(re.findall(r"^@@.*@@\s+(?:def|class)\s+(\w+)", patch, re.M)))
        idea = re.sub(r"^[RS0-9-]+-C\d\d-", "", os.path.basename(d)).replace("-", " ")
        out.append(f"{', '.join(files)} [{', '.join(funcs[:3])}] ({idea})")
    return "; ".join(out)


def main():
    scratch, pids = sys.argv[1], sys.argv[2:]
    assert not os.path.abspath(scratch).startswith(("/repo", "/verif"))
    os.makedirs(scratch, exist_ok=True)
    props = {json.loads(l)["id"]: json.loads(l) for l in open(os.path.join(ROOT, "properties.jsonl"))}
    for pid in pids:
        wt = os.path.join(scratch, pid)
        subprocess.run(["git", "-C", "/repo", "worktree", "add", "-q", "--detach", wt, "HEAD"], check=True)
        p = props[pid]
        txt = f"""You are testing how good an (unseen) verification suite is. Work ONLY inside the git worktree {wt} (a checkout of the Python library vladimirs-git/cisco-acl, package directory `cisco_acl/`, tests in `tests/`). Never touch /repo or /verif, never run `git stash`, never commit, never use `pkill`. Interpreter: /venv/bin/python (run scripts from inside the worktree so that `import cisco_acl` resolves to the worktree: `cd {wt} && /venv/bin/python demo.py`). Keep your scratch files inside the worktree, not in /tmp.

The property under attack ({pid} - {p['title']}):
"{p['statement']}"
Quantified over: {p['quantifier']['text']}

Task: write ONE small, realistic change to the library source under cisco_acl/ (the kind of edit a maintainer could plausibly make: a refactoring, an optimisation, a 'clean-up', a caching idea, an off-by-one, a changed default, a reordered statement, a rewritten loop or comparison) that makes the library VIOLATE this property for at least one input/history, silently (no new exception for everyday use), while the existing test suite still passes unedited:
    cd {wt} && /venv/bin/python -m pytest -q -p no:cacheprovider -x --deselect tests/test__package.py::test__last_modified_date
(must end with `327 passed, 1 deselected`).
Earlier attempts already used these places (file [function] (idea)); choose a DIFFERENT function and mechanism: {earlier(pid)}.
The violation must be one that the property statement itself decides (do not rely on behaviour the statement leaves unspecified). Prefer subtle changes that only show for particular inputs (boundaries, rare operand shapes, second use of an object, particular platform/version, order of operations, rarely used keyword arguments or setters), not ones that break everything.

Deliver, inside {wt} (all uncommitted):
1. the change itself applied to the working tree (only files under cisco_acl/), plus `MUTATION.diff` = output of `git diff -- cisco_acl`;
2. `demo.py`: a self-contained script with its own plain-Python oracle (do not import anything from /verif) that exits 1 and prints what is wrong when the property is violated, and exits 0 on the pristine library (`git checkout -- cisco_acl`, run, then re-apply with `git apply MUTATION.diff`); confirm both;
3. `NOTES.md`: the change, why it breaks the property, what is needed to see it, what still behaves as before, confirmation of demo and test-suite results, and a section `## Side findings (pristine library, this property)` listing anything the PRISTINE library already does that contradicts the property (with the exact reproducing call), or 'none'.
Final answer: the diff, a short explanation, the confirmations, and the side findings."""
        open(os.path.join(scratch, f"{pid}.prompt.txt"), "w").write(txt)
        print("prompt written:", os.path.join(scratch, f"{pid}.prompt.txt"))


if __name__ == "__main__":
    main()
