#!/usr/bin/env python3
"""Regenerate MANIFEST.json from the table below (kept in one place so that it always validates)."""
import json
import os
import subprocess

ROOT = os.path.dirname(os.path.dirname(os.path.abspath(__file__)))
TB = "z3 5.1 and cvc5 (solvers), the pyvc VC generator and its CPython/built-in models (DESIGN.md section 3), spec/ reference semantics"

CHECKS = {
    "C01": dict(
        level="other", design_ref="DESIGN.md 5/C01",
        technique="contract on parsers._parse_dstport_option discharged by own VC generator; bounded contract checking of Ace(line) against an independent Cisco reader + exact set algebra (regex front end is outside the deductive subset)",
        text="Discharged for all token lists: the destination-port/option splitter loses and invents nothing, keeps order, and the port run is maximal and consists of "
             "digits and names of the current tables only. Contract on Ace.__init__/line: Sem(ace) equals the independent reader's meaning of the text field by field (action, protocol, address sets through "
             "prefixes and through wildcard text, port sets, flag/log tokens, sequence) and the rendered line read independently denotes the same packets. Checked "
             "natively (bounded, not proved) on the gen_ace grammar x platforms x version tables x switches.",
        note="Oracle: spec/cisco_ref.py, spec/ref_tables.py, spec/sets.py (hand written, independent). Known finding: protocol 0 <-> ip conflation (tests pin it)."),
    "C03": dict(
        level="other", design_ref="DESIGN.md 5/C03",
        technique="contracts on Ace.shadow_of and its six field tests + helpers.subnet_of discharged by own VC generator (z3/cvc5); lemmas in SMT; bounded pair checking with exact set algebra",
        text="Proof obligations (all object states satisfying the class invariants): shadow_of == True implies same action and field-wise inclusion of protocol, "
             "address-network, port and flag sets (sound), a skipped address kind involved forces False (skip), helpers.subnet_of is exact; lemmas L13.sound, L13.bits.*, "
             "L3.product, L3.skipmono lift this to packet sets and to monotonicity in skip. Bounded (not proved): the object views are established by Ace(line) - all "
             "ordered pairs of 47 ACE classes (groups with members, empty groups, non-contiguous wildcards, empty port sets, flags) x 5 skip lists x 2 platforms.",
        note="Assumed: Inv(Port), Inv(Address) class invariants; Protocol.name ip<=>0 (C09); AddressBase.ipnets ghost value; IPv4Network.subnet_of = prefix containment; "
             "match-any flag semantics. " + TB),
    "C04": dict(
        level="other", design_ref="DESIGN.md 5/C04",
        technique="SMT lemma L4.firstmatch over C03's discharged soundness contract + bounded contract checking of Acl.delete_shadow",
        text="Lemma (proved for arbitrary rule lists and packets): when every removed rule has a rule above it that matches every packet it matches, the first matching "
             "rule of a packet is never removed, so every decision is unchanged. Its hypothesis is C03's proved soundness plus the contract of delete_shadow, which is "
             "checked natively (bounded) on all ACLs of <= 3/4 items over an 11-kind alphabet, flat / numbered / grouped: report == shading() before, subsequence, only "
             "covered ACEs removed (decided by set algebra), remarks/order/numbers/grouping kept (a block that remains keeps its own number, note and identifier), second "
             "call returns {}; families with address groups, empty port sets, 256-network wildcards, TCP flags after a log keyword, three-operand neq.",
        note="delete_shadow's text-index algorithm itself is not proved (object-graph bookkeeping, copy()). " + TB),
    "C11": dict(
        level="other", design_ref="DESIGN.md 5/C11",
        technique="contracts (exact/skip clauses) on Ace.shadow_of and field tests discharged by own VC generator; bounded exactness and report checking",
        text="Proof obligations: on group-free entries with non-empty bottom port sets shadow_of is True whenever action, protocol, address networks, ports and flags "
             "are field-wise included and no skipped kind is involved, for every skip list (exact + skip clauses; helpers.subnet_of exact). Bounded: all ordered pairs "
             "of group-free classes x 5 skip lists decided by set algebra; Acl.shading == specification from real pairwise answers on all short ACLs.",
        note="L13.exact (network-wise containment of two single wildcards <=> set inclusion) is covered by the bounded pairs only. " + TB),
    "C05": dict(
        level="other", design_ref="DESIGN.md 5/C05",
        technique="contracts + loop invariants on wildcard.py kernels (list level and 64-bit word level) discharged by own VC generator; 32-bit SMT lemmas; syntactic frame obligation for memoisation; bounded contract checking of the text front end",
        text="Discharged for all inputs: Wildcard._prefixlen_idx, _ncw_bits (raises iff count > limit), _create_ncwb (prefix length = 32 - trailing ones; ncwb = exactly "
             "the wildcard bit positions above, descending; never more than the limit), _create_prefix (base masked), the network generator _ipnets (2^k networks, "
             "u-th network = prefix with the u-th 0/1 tuple spread over the ncwb positions; both loops by invariant; IPv4Network cannot raise). Lemmas L5.exact/"
             "disjoint/nohost/single/count: those networks cover W(base, mask) exactly, without overlap. Memoisation: frame obligation (memoised code reads no object "
             "state). Bounded (labelled): Wildcard(line) on 500+ masks x bases x limits, ipnet-iff-contiguous, and all reassignment histories of length <= 3.",
        note="Not proved: _create_ipnet / invert_mask / is_mask / fprefix / fsubnet (dotted-quad text), Wildcard.line.fset composition. Assumed: IPv4Address/IPv4Network "
             "codecs, str.split, itertools.product = all 0/1 tuples once, lru_cache = first result per key. " + TB),
    "C13": dict(
        level="other", design_ref="DESIGN.md 5/C13",
        technique="contracts on helpers/functions/AddressBase subnet_of, AddressBase.ipnets, __contains__ discharged by own VC generator; SMT lemmas L13.*; bounded spelling pairs",
        text="Discharged: the three subnet_of forms return exactly `every bottom network inside some top network` (helpers: and both non-empty); AddressBase.ipnets is the "
             "single network / the wildcard's networks / the union over group members (loop invariant); member `in` member is prefix containment, a group `in` a member is True exactly when every member of the group is inside. Lemmas L13.sound, "
             "L13.bits.sound/exact, L13.closed, L13.exact (single wildcards: set inclusion => network-wise containment) and L5.exact connect this to address sets. "
             "Bounded (labelled): all ordered pairs of 25 spellings per platform against exact set algebra; seeded wildcard pairs over the whole word; groups with gaps; member/group `in`.",
        note="Address classification by line.fset and AddrGroup.__contains__ (user __eq__) are bounded only. " + TB),
    "C08": dict(
        level="other", design_ref="DESIGN.md 5/C08",
        technique="contracts on Port._items_to_ports/_ports_to_items, the text path of the setters (operands as numbers or port keywords) and the range-string encoder, discharged by own VC "
                  "generator (z3/cvc5); decoder by bounded contract checking",
        text="Proof obligations (unbounded, all operands): Port._items_to_ports yields exactly the Cisco port set of each operator in ascending order; "
             "Port._ports_to_items is its inverse on every operator-shaped list (meaning, text, index safety; the neq removal loop by invariant); "
             "Port._line__items_to_ints / Port.line.fset / items, ports and sport setters on operands written as numbers or as keywords of the (assumed) table of the expression (refusals exactly as the grammar requires; own value assigned back keeps "
             "operator, operands and port set); helpers.ports_to_string encodes exactly the given set. Over an abstract text model (tokens as ghost lists). "
             "Bounded stand-in (not counted as proved): range-string decoder and codec round trip on all subsets of three 10-element universes with an independent decoder, "
             "and the setters natively (named ports included) on boundary operands with all view histories of length <= 2.",
        note="Assumes pyvc's models of range/list/comprehension/list.remove (remove lemma discharged each run); operands valid as produced by the line setter; "
             "string/split/int text path and set iteration order are outside the deductive part (bounded). " + TB),
    "C09": dict(
        level="proof", design_ref="DESIGN.md 5/C09",
        technique="finite domain enumerated completely over the constant tables extracted from the source (one obligation per entry) + contract on port_name._swap for an arbitrary dict discharged by own VC generator",
        text="Every fact of the statement is a finite obligation over the tables read from the current source with ast (not imported): each (name, number) equals the "
             "hand-transcribed standard, render->parse closure per table, every table name known to the dstport/option splitter, no collision with operators / address / "
             "log / option keywords, ip<=>0 per platform, rendering getters write no field; `_swap` (first name of a number wins; closure) is proved for arbitrary dicts. "
             "The real Port / Protocol / PortName classes are additionally run over every (platform, version, protocol, name, number, switch), and every named number goes "
             "through range_ports() on three platforms (the generated keyword is read back by the same platform as that number).",
        note="The standard itself is spec/ref_tables.py (hand transcribed). SwVersion.major assumed. " + TB),
    "C12": dict(
        level="other", design_ref="DESIGN.md 5/C12",
        technique="contracts on AceGroup._line_to_oace (ghost log) and helpers.is_line_for_acl (loop invariant + decreases) discharged by own VC generator (z3 + cvc5 for strings); bounded accounting identity with a capturing log handler",
        text="Discharged: on every path of _line_to_oace a non-empty line that yields no item either starts with a documented ignorable prefix or produced a warning whose "
             "text contains the line (NetmaskValueError / TypeError propagate), and a kept item comes from a line of the documented shape; is_line_for_acl decides exactly "
             "that shape and terminates with a bounded stack; Acl.line.fset (the loop over the body lines, callee by contract, the log as ghost heap state): every body line is "
             "represented by a stored object, or carries a documented prefix, or was warned about; every stored object stands for a body line of the documented shape; no more "
             "objects than body lines (assumed: helpers.lines_wo_spaces, Acl._parse_type_name, Acl.items.fset of an ungrouped ACL). Bounded (labelled): Acl / AceGroup / AddrGroup built from all sequences of <= 3/4 lines over valid, ignorable "
             "and invalid kinds, checked against the accounting identity with captured log records.",
        note="_line_to_ace (regex front end) is an assumed contract; item ORDER and the AceGroup / AddrGroup line setters are bounded only. " + TB),
    "C10": dict(
        level="proof", design_ref="DESIGN.md 5/C10",
        technique="contracts + loop invariants + frame conditions on the real resequence methods and the decorator wrapper, discharged by own VC generator (z3/cvc5)",
        text="Every obligation generated from the current source of helpers.check_start_step_sequence._wrapper, helpers.init_int, AddrGroup.resequence and "
             "AceGroup.resequence (both call forms, recursion through the wrapper's real body) is discharged for all starts/steps/tree shapes: exact error conditions, "
             "step forced to 0 when start is 0, leaf numbers follow the ghost render-order numbering, only _sequence of visited nodes is written, returned value is the "
             "last number and <= 4294967295. Lemmas give the closed form start+i*step. A bounded end-to-end run through Acl.line (all trees <= 4/6 leaves x boundary "
             "integers) backs the ghost tree model and the rendering glue; it is labelled bounded and not counted in obligations/discharged.",
        note="Assumes: item graph is a finite tree of non-empty groups with distinct nodes (precondition); ghost numbering == render order of Acl.line (validated on every "
             "enumerated tree, not proved); Python ints mathematical. " + TB),
    "C15": dict(
        level="other", design_ref="DESIGN.md 5/C15",
        technique="contracts on AceGroup/Acl.tcam_count (ghost recursive sum, loop invariant) and the three __lt__ discharged by own VC generator; SMT lemma for sort; bounded group/ungroup/reorder/sort",
        text="Discharged: tcam_count == 1 + sum over ACEs of |src members| x |dst members| (1 for a plain address, empty group counts 1) for any nesting; Ace/Remark/AceGroup "
             "`<` is decided by the sequence numbers whenever they differ; lemma L15.sort (induction step: the ascending arrangement of distinct numbers is unique). "
             "Bounded (labelled): group/ungroup keep the multiset and, for distinct headings, the text; blocks move as units; resequence+shuffle+sort restores the order; "
             "TCAM unchanged - on all item lists of <= 4/5 items over 9 kinds, flat, grouped, and built from objects with a top level that mixes plain entries and blocks.",
        note="Known finding: a repeated heading remark is dropped by group() (pinned by tests). Group.append/reverse/clear/__len__ proved (contracts/c_listops.py); Acl.group/_ungroup and the *args list methods not proved. " + TB),
    "C19": dict(
        level="other", design_ref="DESIGN.md 5/C19",
        technique="SMT lemma L19.replace + bounded contract checking of Ace/AceGroup/Acl.ungroup_ports with the independent reader",
        text="Lemma (proved): replacing a rule by adjacent same-action rules whose match sets have the rule's set as union keeps every first-match decision. Bounded "
             "(labelled): ungroup_ports on 11 x 11 port expressions x 2 option sets: one port per side, other fields kept, union of the pieces' packet sets == original, "
             "no needless split; pieces stand where the original stood at every position, flat and grouped; pieces carry group members / note / switches, also on a second "
             "split after those were changed.",
        note="Known finding: multi-operand neq is split into pieces whose union is all ports (pinned by tests). ungroup_ports is object-graph code (copy(), setters): not proved. " + TB),
    "C02": dict(
        level="other", design_ref="DESIGN.md 5/C02",
        technique="bounded contract checking of the platform setters with the independent reader on both platforms + exact set algebra",
        text="Contract on Acl/Ace/Address/AddrGroup.platform.fset, checked natively (bounded): per rule the packet sets before and after are equal (an eq-multi rule "
             "becomes adjacent single-port rules whose union is the original), remarks / name / sequence numbers / group members kept, only target-platform syntax, "
             "there-back-there == there; all ACLs of <= 2/3 items over 19/16 line kinds per direction plus seeded longer ones with switch settings; single objects too.",
        note="No deductive obligation: the setters are data()/__init__ round trips on object graphs. Supporting kernels are proved elsewhere (C09 names, C19 lemma, C05/C13 addresses)."),
    "C06": dict(
        level="other", design_ref="DESIGN.md 5/C06",
        technique="contract on the text normaliser of every line setter (helpers.replace_spaces / init_line: same words, in order) discharged by own VC generator; "
                  "bounded contract checking: parser fixed point at 12 object levels and for the config-level functions",
        text="X(obj.line, same configuration) renders the identical text and exports identical data (one step for native input; stable from the first re-parse for foreign "
             "spellings), for Port, Protocol, Option, Wildcard, Address, AddressAg, AddrGroup, Remark, Ace, AceGroup, Acl and acls/aces/addrgroups, over the gen_ace "
             "grammar x versions x switches, address spellings, odd remarks, standard ACLs, indent settings.",
        note="The fixed-point statement itself is bounded (regex constructors); the deductive part covers only the normaliser they all start with. Meaning of the rendered text is C01."),
    "C07": dict(
        level="other", design_ref="DESIGN.md 5/C07",
        technique="bounded contract checking of acls()/addrgroups() against an independent line-oriented configuration reading",
        text="Assembled configurations (<= 3 ACLs incl. standard, <= 2 address groups, <= 2 interfaces with in/out bindings to different ACLs, noise sections, comments, "
             "indent 1..4, seeded section order, name filter): every ACL once with name, type, entries in order, in/out interfaces, exactly the defined group members.",
        note="Bounded only (regex section parser). One defect found and fixed (bindings)."),
    "C14": dict(
        level="other", design_ref="DESIGN.md 5/C14",
        technique="contract on address_base.collapse_ (work-list loop invariant: covered set unchanged) discharged by own VC generator; bounded contract checking of "
                  "address.collapse / address_ag.collapse with exact trie/cube algebra",
        text="Proof obligations: collapse_ refuses non-contiguous wildcards, its work-list loop keeps the covered address set on all four paths, one result object per finished "
             "network, sorted() permutes (assumed: ipnets() ghost value, copy() returns a new object, prefix setter; termination not proved). Bounded: all lists of <= 3/4 networks from the 31 prefixes of a /28 plus /0 and both /1 (any order, duplicates, nesting, adjacency), both classes, both platforms: "
             "covered set equal, never longer, sorted, notes empty, class/platform kept; non-contiguous wildcards and foreign types refused with TypeError.",
        note="Networks are abstract values in the list-level VCs; engine lemmas engine.net.* tie them to bits and are cross-checked against CPython ipaddress. Termination observed only."),
    "C16": dict(
        level="other", design_ref="DESIGN.md 5/C16",
        technique="bounded contract checking of copy()/data() (equality, disjoint reachable mutable state by id, mutate-then-observe) and of identifier/note stability",
        text="13 object kinds x 2 platforms x {copy, Class(**data())}: equal text and data, no shared mutable state except notes, changing either side never changes the "
             "other; 18 in-place transformations (also from a grouped ACL) keep uuid and note of all items, groups and nested objects.",
        note="Not applicable to deduction: aliasing through **data()/__dict__.update needs an ownership logic the verifier does not have. Three defects found here were fixed in /repo."),
    "C17": dict(
        level="other", design_ref="DESIGN.md 5/C17",
        technique="contracts on the list primitives Group.append/reverse/clear/__len__ discharged by own VC generator; bounded model-based contract checking: per-operation contract View' == Model_op(View) from all states reached by short operation sequences",
        text="20 operations (with arguments) from 5 seed ACLs: all sequences of <= 2/3 operations plus seeded random sequences of 3..8; after every step the rendered text "
             "re-parses to itself and, read independently, is exactly the rule list predicted by a reference model (blocks, numbers, splits, shadow removal).",
        note="Whole-history quantifier: only the per-operation base case is checkable; the discharged obligations cover the list layer (Group.append/reverse/clear/__len__) only, insert/pop/sort take *args and stay bounded."),
    "C18": dict(
        level="other", design_ref="DESIGN.md 5/C18",
        technique="contract on functions._split_range_for_ace (list of lists, loop invariant) discharged by own VC generator; bounded contract checking of range_ports / "
                  "range_protocols against a reference parse of the request",
        text="Proof obligations (range/eq policy): every chunk non-empty, request tokens only, every non-empty request token in a chunk, range tokens alone, ports-per-line "
             "limit. Bounded: comma lists of <= 3/4 elements (numbers, a-b ranges, empty elements, full ranges) x side x template operator x ports-per-line 1..4 x both policies x platforms: "
             "valid lines, only the generated field differs, limit respected, policy respected, union == request; refusals only where no valid line exists.",
        note="The port_range=False branch (netports / vhelpers) and the ACE construction are bounded only. One defect found and fixed (full-range requests)."),
    "C20": dict(
        level="other", design_ref="DESIGN.md 5/C20",
        technique="safety/termination obligations of the text kernels under contract (own VC generator) + bounded exception-class / time-limit / re-acceptance checking on generated text",
        text="Discharged: helpers.is_line_for_acl terminates (length decreases) without recursion and without index errors. Bounded (labelled): 14 entry points x 2 platforms "
             "on token soups, truncated / permuted / corrupted valid texts, empty and very long inputs: and configuration-structured texts (indentation width/character/depth, comment lines, the parser's own string constants as lines): returns or raises "
             "ValueError/TypeError within 30 CPU seconds; returned text is accepted again; indentation does not change what acls()/addrgroups() return.",
        note="Known findings: Acl(''), Remark(''), standard entries with address-like options, a line equal to the parser's reserved key, unbounded recursion depth of "
             "ConfigParser._get_indented_dic, IOS group member with mask 0. Regex run time only by CPU-time limit."),
}

NA_REASON = "check not built yet (framework under construction; see DESIGN.md section 7 build order)"


def main():
    props = [json.loads(l) for l in open(os.path.join(ROOT, "properties.jsonl"))]
    repo_commits = subprocess.run(["git", "-C", "/repo", "log", "--format=%h %s"], capture_output=True, text=True).stdout.splitlines()
    checks = []
    for p in props:
        pid = p["id"]
        if pid not in CHECKS:
            continue
        c = CHECKS[pid]
        checks.append({
            "property_id": pid,
            "quick_cmd": f"./check {pid} quick",
            "thorough_cmd": f"./check {pid} thorough",
            "evidence_file": f"evidence/{pid}.json",
            "replay_cmd_template": f"./check {pid} --replay {{path}}",
            "engine": "pyvc",
            "level_claimed": {"category": c["level"], "text": c["text"], "design_ref": c["design_ref"]},
            "level_note": c["note"],
            "technique": c["technique"],
        })
    m = {
        "version": 1,
        "setup_cmd": "./setup.sh",
        "hooks": {
            "guard": "CISCO_ACL_VERIF",
            "enable": "no hooks are compiled into /repo: contracts are sidecar files under /verif/contracts, read against the functions that pyvc extracts "
                      "from /repo's working tree on every run; bounded monitors import cisco_acl from /repo inside the check process",
            "baseline_off_cmd": "cd /repo && /venv/bin/python -m pytest -ra -q -p no:cacheprovider --timeout=900 --continue-on-collection-errors",
            "source_commits": [],
            "add_only": True,
        },
        "engines": [
            {"name": "pyvc", "path": "pyvc/", "serves_properties": sorted(CHECKS),
             "kind_free_text": "contract-based deductive verifier built for this task: ast -> symbolic execution against sidecar contracts -> z3/cvc5; "
                               "plus bounded contract checking on the real classes as labelled stand-in"},
        ],
        "checks": checks,
        "notes": "fix: commits in /repo: " + "; ".join(c for c in repo_commits if " fix:" in c),
        "not_applicable": [{"property_id": p["id"], "reason": NA_REASON} for p in props if p["id"] not in CHECKS],
    }
    json.dump(m, open(os.path.join(ROOT, "MANIFEST.json"), "w"), indent=1)
    try:
        import jsonschema
        jsonschema.validate(m, json.load(open("/root/.vp/MANIFEST.schema.json")))
        for c in checks:
            ev = os.path.join(ROOT, c["evidence_file"])
            if os.path.exists(ev):
                jsonschema.validate(json.load(open(ev)), json.load(open("/root/.vp/EVIDENCE.schema.json")))
        print("MANIFEST ok:", len(checks), "checks")
    except ImportError:
        print("written (jsonschema unavailable)")


if __name__ == "__main__":
    main()
