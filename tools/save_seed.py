#!/usr/bin/env python3
"""tools/save_seed.py <seed-id> <worktree> <property> <caught-by (comma list)> <missed-before (text)>
Stores a confirmed seeded change under seeded/<seed-id>/ (patch.diff, demo.py, NOTES.md, meta.json) after re-confirming:
demo fails with the change, passes without it, the existing test suite passes with the change."""
import json
import os
import shutil
import subprocess
import sys

ROOT = os.path.dirname(os.path.dirname(os.path.abspath(__file__)))


def sh(cmd, cwd):
    return subprocess.run(cmd, shell=True, cwd=cwd, capture_output=True, text=True)


def main():
    sid, wt, prop, caught, missed = sys.argv[1:6]
    d = os.path.join(ROOT, "seeded", sid)
    os.makedirs(d, exist_ok=True)
    diff = sh("git diff -- cisco_acl", wt).stdout
    assert diff.strip(), "no change in worktree"
    open(os.path.join(d, "patch.diff"), "w").write(diff)
    shutil.copy(os.path.join(wt, "demo.py"), os.path.join(d, "demo.py"))
    notes = open(os.path.join(wt, "NOTES.md")).read() if os.path.exists(os.path.join(wt, "NOTES.md")) else ""
    open(os.path.join(d, "NOTES.md"), "w").write(notes)
    with_change = sh("/venv/bin/python demo.py", wt).returncode
    # no `git stash` here: the stash stack is shared by all worktrees of a repository
    sh("git checkout -- cisco_acl", wt)
    without = sh("/venv/bin/python demo.py", wt).returncode
    sh(f"git apply {os.path.join(d, 'patch.diff')}", wt)
    tests = sh("/venv/bin/python -m pytest -q -p no:cacheprovider --deselect tests/test__package.py::test__last_modified_date 2>&1 | tail -1", wt).stdout.strip()
    checks = {}
    for c in caught.split(","):
        r = subprocess.run([os.path.join(ROOT, "tools", "try_seed.py"), wt, c], capture_output=True, text=True)
        viol = [l.strip() for l in r.stdout.splitlines() if "VIOLATION" in l]
        checks[c] = {"violation_lines": len(viol), "first": viol[0][:160] if viol else None}
    meta = {"seed": sid, "breaks_property": prop, "needs_to_manifest": notes[:1500], "demo_exit_with_change": with_change, "demo_exit_without_change": without,
            "test_suite_with_change": tests, "checks_run": checks, "missed_before_strengthening": missed,
            "how_to_rerun": f"git -C /repo apply /verif/seeded/{sid}/patch.diff; ./check {caught.split(',')[0]} quick; git -C /repo checkout -- .  "
                            "(or: tools/try_seed.py <scratch worktree with the patch> <check>)"}
    json.dump(meta, open(os.path.join(d, "meta.json"), "w"), indent=1)
    print(sid, "demo", with_change, without, "|", tests, "|", {k: v["violation_lines"] for k, v in checks.items()})


if __name__ == "__main__":
    main()
