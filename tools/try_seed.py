#!/usr/bin/env python3
"""Run checks against a scratch worktree that carries a seeded change (never against /repo):
     tools/try_seed.py /tmp/wt/C05 C05 [C17 ...]      -> prints which checks raise a VIOLATION
"""
import os
import subprocess
import sys
import time

ROOT = os.path.dirname(os.path.dirname(os.path.abspath(__file__)))


def run(wt, prop, tier="quick"):
    env = dict(os.environ, VERIF_REPO=wt, VERIF_EVIDENCE_DIR=os.environ.get("VERIF_EVIDENCE_DIR", "/tmp/seed_evidence"))
    t0 = time.time()
    r = subprocess.run([os.path.join(ROOT, "check"), prop, tier], capture_output=True, text=True, env=env, cwd=ROOT)
    lines = [l for l in r.stdout.splitlines() if l.startswith(("VIOLATION", "KNOWN-FINDING", "[" + prop))]
    return r.returncode, lines, time.time() - t0


if __name__ == "__main__":
    wt = sys.argv[1]
    for prop in sys.argv[2:]:
        rc, lines, dt = run(wt, prop)
        print(f"== {prop} on {wt}: exit {rc} ({dt:.0f}s)")
        for l in lines:
            print("   ", l[:200])
