"""C15 - Grouping, ungrouping and sorting never lose, duplicate or split entries; TCAM estimate."""
import itertools
import os
import random
import sys
import time

sys.path.insert(0, os.path.dirname(os.path.dirname(os.path.abspath(__file__))))
import z3
from pyvc.driver import run, pmap
import shadow_common as sc

KINDS = {
    "H1": "remark = H1", "H2": "remark = H2, note", "H2b": "remark = H2, other note", "H1again": "remark = H1", "r": "remark plain", "a": "permit tcp any any eq 80",
    "b": "deny ip host 10.0.0.1 any", "g": "permit ip object-group G1 object-group G2", "g1": "permit ip object-group G1 any", "e": "permit ip object-group EMPTY any",
    "m": "permit tcp object-group G1 eq 20 21 any eq 80 443 8080",          # several ports per side: still one entry in the estimate
}


def lemmas():
    """L15.sort: a list whose elements carry pairwise different numbers and are compared by number is sorted by any correct
    sort into the unique ascending arrangement (two ascending permutations of the same distinct keys are equal, position-wise)."""
    A = z3.Array("A", z3.IntSort(), z3.IntSort())   # keys in numbered order (strictly ascending)
    B = z3.Array("B", z3.IntSort(), z3.IntSort())   # keys after sort() of a permutation
    n, i, j, k = z3.Ints("n i j k")
    pa = z3.Function("pa", z3.IntSort(), z3.IntSort())   # position in A of B[i]
    pb = z3.Function("pb", z3.IntSort(), z3.IntSort())
    ascA = z3.ForAll([i, j], z3.Implies(z3.And(0 <= i, i < j, j < n), A[i] < A[j]))
    ascB = z3.ForAll([i, j], z3.Implies(z3.And(0 <= i, i < j, j < n), B[i] < B[j]))
    perm = z3.And(z3.ForAll([i], z3.Implies(z3.And(0 <= i, i < n), z3.And(0 <= pa(i), pa(i) < n, A[pa(i)] == B[i], pb(pa(i)) == i))),
                  z3.ForAll([i], z3.Implies(z3.And(0 <= i, i < n), z3.And(0 <= pb(i), pb(i) < n, B[pb(i)] == A[i], pa(pb(i)) == i))))
    # step of the induction on k: if the first k positions agree, position k agrees
    agree = z3.ForAll([i], z3.Implies(z3.And(0 <= i, i < k), z3.And(A[i] == B[i], pa(i) == i, pb(i) == i)))
    return [("L15.sort.step", [ascA, ascB, perm, 0 <= k, k < n, agree,
                               # instances: where does A[k] sit in B, where does B[k] sit in A
                               z3.substitute_vars(perm.arg(0).body(), k), z3.substitute_vars(perm.arg(1).body(), k),
                               z3.substitute_vars(agree.body(), pa(k)), z3.substitute_vars(agree.body(), pb(k)),
                               z3.substitute_vars(perm.arg(0).body(), pb(k)), z3.substitute_vars(perm.arg(1).body(), pa(k)),
                               z3.Implies(k < pb(k), B[k] < B[pb(k)]), z3.Implies(k < pa(k), A[k] < A[pa(k)])],
             z3.And(A[k] == B[k]), {})]


def tcam_ref(lines, platform):
    n = 1
    for l in lines:
        toks = l.split()
        if "remark" in toks[:2]:
            continue
        c = 1
        for i, t in enumerate(toks):
            if t in ("object-group", "addrgroup"):
                c *= max(len(sc.GROUPS[platform][toks[i + 1]]), 1)
        n += c
    return n


def build(kinds, platform="ios"):
    import cisco_acl
    lines = [KINDS[k] for k in kinds]
    acl = cisco_acl.Acl("ip access-list extended A", platform="ios")
    items = []
    for l in lines:
        items.append(cisco_acl.Remark(l) if l.startswith("remark") else sc.make_ace(l, "ios"))
    acl.items = items
    return acl, lines


def flat_lines(acl):
    import cisco_acl
    out = []
    for o in acl.items:
        out.extend(x.line for x in o.items) if isinstance(o, cisco_acl.AceGroup) else out.append(o.line)
    return out


def check_group(arg):
    import cisco_acl
    kinds, seed = arg
    acl, lines = build(kinds)
    inputs = dict(lines=lines)
    fails = []
    heads = [l for l in lines if l.startswith("remark =")]
    dup_heading = len(heads) != len(set(heads))

    def bad(kind, what):
        fails.append(dict(key=f"bounded/Acl.group:{kind}{':dup-heading' if dup_heading else ''}", what=what, inputs=inputs,
                          cmd=("import sys; sys.path.insert(0, 'props'); import C15\n"
                               f"fails, _ = C15.check_group({arg!r})\nprint([f['what'] for f in fails]); sys.exit(1 if fails else 0)\n")))
    text0 = acl.line
    lines_raw, lines = lines, flat_lines(acl)       # compare rendered text with rendered text (names vs numbers)
    tcam0 = acl.tcam_count()
    if tcam0 != tcam_ref(lines_raw, "ios"):
        bad("tcam", f"tcam_count() = {tcam0}, formula gives {tcam_ref(lines_raw, 'ios')}")
    acl.group("=")
    if sorted(flat_lines(acl)) != sorted(lines):
        bad("multiset", f"group() changed the entries: {flat_lines(acl)} vs {lines}")
    elif not dup_heading and acl.line != text0:
        bad("text", f"group() changed the rendered text although headings are distinct: {flat_lines(acl)}")
    if acl.tcam_count() != tcam0:
        bad("tcam-group", f"tcam_count changed by grouping: {acl.tcam_count()} vs {tcam0}")
    # a block moves as a unit: permute the top-level items, inner order intact
    blocks = [[x.line for x in o.items] if isinstance(o, cisco_acl.AceGroup) else [o.line] for o in acl.items]
    rnd = random.Random(seed)
    perm = list(range(len(acl.items)))
    rnd.shuffle(perm)
    acl.items = [acl.items[i] for i in perm] if False else acl.items   # setter regroups; reorder in place instead
    its = list(acl.items)
    acl.items.clear()
    acl.items.extend(its[i] for i in perm)
    got_blocks = [[x.line for x in o.items] if isinstance(o, cisco_acl.AceGroup) else [o.line] for o in acl.items]
    if got_blocks != [blocks[i] for i in perm]:
        bad("block", f"after reordering the top-level items a block was split or changed: {got_blocks}")
    if acl.tcam_count() != tcam0:
        bad("tcam-perm", "tcam_count changed by reordering")
    # the same through the library's own reordering operations (a second, freshly grouped ACL)
    def units(a):
        return [[strip(x.line) for x in o.items] if isinstance(o, cisco_acl.AceGroup) else [strip(o.line)] for o in a.items]
    acl2, _ = build(kinds)
    acl2.group("=")
    acl2.resequence(10, 10)
    u0 = units(acl2)
    headless = bool(u0) and len(u0) > 1 and not u0[0][0].startswith("remark =")
    try:
        acl2.reverse()
        if units(acl2) != u0[::-1]:
            bad("block:reverse()", f"after reverse() the units are {units(acl2)}, expected {u0[::-1]}")
        acl2.reverse()
        if units(acl2) != u0:
            bad("block:reverse()-twice", f"reverse() twice is not the identity: {units(acl2)} vs {u0}")
        acl2.reverse()
        acl2.sort()
        if units(acl2) != u0:
            bad("sort:after-reverse()", f"resequence(); reverse(); sort() does not restore the numbered order: {units(acl2)} vs {u0}")
        acl2.sort(reverse=True)
        if units(acl2) != u0[::-1]:
            bad("block:sort(reverse=True)", f"after sort(reverse=True) the units are {units(acl2)}, expected {u0[::-1]}")
        acl2.sort()
        its = list(acl2.items)
        rnd2 = random.Random(seed + 1)
        perm2 = list(range(len(its)))
        rnd2.shuffle(perm2)
        acl2.items = [its[i] for i in perm2]
        if units(acl2) != [u0[i] for i in perm2]:
            moved_headless = headless and perm2[0] != 0
            bad("block:items-assigned" + (":heading-less-first-block-moved" if moved_headless else ""),
                f"after `acl.items = <its own top-level items in the order {perm2}>` the units are {units(acl2)}, expected {[u0[i] for i in perm2]}")
        else:
            acl2.sort()
            if units(acl2) != u0:
                bad("sort:after-items-assigned", f"sort() after assigning the permuted items does not restore the numbered order: {units(acl2)} vs {u0}")
    except Exception as ex:
        bad("reorder-error", f"a reordering operation raised {type(ex).__name__}: {ex}")
    # resequence, shuffle, sort restores the numbered order
    for start, step in ((10, 10), (5, 5), (95, 10), (1, 3)):     # numbers with different digit counts as well
        acl.resequence(start, step)
        numbered = flat_lines(acl)
        tops = list(acl.items)
        for _ in range(3):
            rnd.shuffle(tops)
            acl.items.clear()
            acl.items.extend(tops)
            acl.sort()
            if flat_lines(acl) != numbered:
                bad("sort", f"sort() after resequence({start}, {step}) does not restore the numbered order: {flat_lines(acl)} vs {numbered}")
                break
    if acl.tcam_count() != tcam0:
        bad("tcam-seq", "tcam_count changed by renumbering/sorting")
    # a top level that mixes plain entries with blocks (an ACL built from objects: a heading and the line after it form a block, the other lines stay plain)
    try:
        objs, k = [], 0
        while k < len(lines_raw):
            if lines_raw[k].startswith("remark =") and k + 1 < len(lines_raw) and not lines_raw[k + 1].startswith("remark ="):
                objs.append(cisco_acl.AceGroup(items=[cisco_acl.Remark(lines_raw[k]), cisco_acl.Remark(lines_raw[k + 1]) if lines_raw[k + 1].startswith("remark") else
                                                    sc.make_ace(lines_raw[k + 1], "ios")], platform="ios"))
                k += 2
            else:
                objs.append(cisco_acl.Remark(lines_raw[k]) if lines_raw[k].startswith("remark") else sc.make_ace(lines_raw[k], "ios"))
                k += 1
        if any(isinstance(o, cisco_acl.AceGroup) for o in objs) and not all(isinstance(o, cisco_acl.AceGroup) for o in objs):
            acl3 = cisco_acl.Acl(name="A", items=objs, platform="ios")
            tcam3 = acl3.tcam_count()
            if tcam3 != tcam0:
                bad("tcam-mixed", f"tcam_count() of the same entries with a mixed top level = {tcam3}, flat = {tcam0}")
            for start, step in ((10, 10), (95, 10)):
                acl3.resequence(start, step)
                numbered3 = flat_lines(acl3)
                tops3 = list(acl3.items)
                for _ in range(3):
                    rnd.shuffle(tops3)
                    acl3.items.clear()
                    acl3.items.extend(tops3)
                    acl3.sort()
                    if flat_lines(acl3) != numbered3:
                        bad("sort-mixed", f"sort() after resequence({start}, {step}) on a top level of plain entries and blocks does not restore the numbered order: {flat_lines(acl3)} vs {numbered3}")
                        break
            if sorted(strip(l) for l in flat_lines(acl3)) != sorted(strip(l) for l in lines):
                bad("multiset-mixed", f"resequence / sort on a mixed top level changed the entries: {flat_lines(acl3)}")
    except Exception as ex:
        bad("mixed-error", f"an operation on an ACL with a mixed top level raised {type(ex).__name__}: {ex}")
    acl.ungroup()
    # the same on the flat ACL: every item is a top-level item
    for start, step in ((5, 5), (95, 10)):
        acl.resequence(start, step)
        numbered = flat_lines(acl)
        tops = list(acl.items)
        rnd.shuffle(tops)
        acl.items.clear()
        acl.items.extend(tops)
        acl.sort()
        if flat_lines(acl) != numbered:
            bad("sort-flat", f"sort() after resequence({start}, {step}) on the ungrouped ACL does not restore the numbered order: {flat_lines(acl)} vs {numbered}")
            break
    if sorted(strip(l) for l in flat_lines(acl)) != sorted(lines):
        bad("multiset-ungroup", f"ungroup() changed the entries: {flat_lines(acl)}")
    return fails, 1


def strip(line):
    t = line.split()
    return " ".join(t[1:] if t and t[0].isdigit() else t)


def main(chk):
    chk.prove(["c_group", "c_listops"])
    chk.lemmas(lemmas())
    n = 4 if chk.tier == "quick" else 5
    t0 = time.time()
    kinds = list(KINDS)
    seqs = [s for k in range(1, n + 1) for s in itertools.product(kinds, repeat=k)]
    if chk.tier == "quick":
        seqs = [s for i, s in enumerate(seqs) if len(s) <= 3 or i % 4 == 0]
    cases = [(s, (chk.seed + i) % 7) for i, s in enumerate(seqs)]
    res = pmap(check_group, cases)
    viol = 0
    for fails, _ in res:
        for f in fails:
            viol += 1
            chk.finding(f["key"], f["what"], inputs=f["inputs"], cmd=f.get("cmd"), key=f["key"])
    chk.add_bounded("group / ungroup / reorder / resequence+sort / tcam_count on real ACLs", len(cases), len(cases),
                    f"all item lists of <= {n} items over {len(kinds)} kinds (two distinct headings, a repeated heading, plain remark, ACEs with address groups incl. empty) "
                    "- every heading placement; one seeded permutation of the top-level items per list", viol, time.time() - t0, [list(cases[200][0])], exhaustive=False)
    chk.assumptions += ["list.sort orders by __lt__ when that is a strict total order (distinct sequence numbers: proved for the three classes)",
                        "Acl.group / ungroup / Group list methods are object-graph bookkeeping: bounded stand-in only"]
    return chk.finish("other",
                      "Deductive: AceGroup/Acl.tcam_count equal 1 + the sum over ACEs of |src members| x |dst members| (ghost recursive sum, loop invariant, recursion by "
                      "contract); Ace/Remark/AceGroup.__lt__ order by sequence number whenever the numbers differ; lemma L15.sort (sorting distinct numbers restores the "
                      "numbered order, induction step). Bounded (labelled): group/ungroup/reorder/sort/TCAM on all short item lists.",
                      trusted_base=["z3 5.1.0", "pyvc"])


if __name__ == "__main__":
    run("C15", main)
