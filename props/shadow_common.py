"""Shared by C03 / C11 / C04: ACE classes with address groups, real objects, reference semantics, pair checks."""
import itertools
import os
import sys

sys.path.insert(0, os.path.dirname(os.path.dirname(os.path.abspath(__file__))))
from spec import cisco_ref, sets
from spec.sets import cube_of_prefix

GROUPS_IOS = {
    "G1": ["10.0.0.0 0.0.0.255", "10.0.1.0 0.0.0.255"],
    "G2": ["10.0.0.0 0.0.1.255"],
    "G3": ["host 10.0.0.1"],
    "GNC": ["10.0.0.0 0.0.1.3"],
    "GD": ["10.1.0.0 0.0.0.255"],
    "GGAP": ["10.2.0.0 0.0.0.3", "10.2.0.252 0.0.0.3"],
    "GEDGE": ["10.3.0.0 0.0.0.255", "10.3.2.0 0.0.0.255"],
    "GALL3": ["10.3.0.0 0.0.0.255", "10.3.1.0 0.0.0.255", "10.3.2.0 0.0.0.255"],
    "EMPTY": [],
}
GROUPS_NXOS = {
    "G1": ["10.0.0.0/24", "10.0.1.0/24"],
    "G2": ["10.0.0.0/23"],
    "G3": ["10.0.0.1/32"],
    "GNC": ["10.0.0.0 0.0.1.3"],
    "GD": ["10.1.0.0/24"],
    "GGAP": ["10.2.0.0/30", "10.2.0.252/30"],
    "GEDGE": ["10.3.0.0/24", "10.3.2.0/24"],
    "GALL3": ["10.3.0.0/24", "10.3.1.0/24", "10.3.2.0/24"],
    "EMPTY": [],
}

ACES_IOS = [
    "permit ip any any", "deny ip any any", "permit tcp any any", "permit udp any any", "permit icmp any any", "permit 47 any any",
    "permit ip host 10.0.0.1 any", "permit ip 10.0.0.0 0.0.0.255 any", "permit ip 10.0.0.0 0.0.1.255 any",
    "permit ip 10.0.0.0 0.0.1.3 any", "permit ip 10.0.0.0 0.0.3.3 any", "permit ip 10.0.1.0 0.0.0.3 any", "permit ip 10.0.0.0 0.0.0.3 any",
    "permit ip any 10.0.0.0 0.0.0.255", "permit ip any 10.0.0.0 0.0.1.3", "permit ip any host 10.0.0.1",
    "permit ip object-group G1 any", "permit ip object-group G2 any", "permit ip object-group G3 any", "permit ip object-group GNC any",
    "permit ip object-group EMPTY any", "permit ip any object-group G1", "permit ip any object-group G2",
    "permit tcp any any eq 80", "permit tcp any any eq 80 443", "permit tcp any any range 80 90", "permit tcp any any gt 1023",
    "permit tcp any any lt 1", "permit tcp any any gt 65535", "permit tcp any any lt 0", "permit tcp any lt 0 any", "permit tcp any any gt 65534", "permit tcp any any neq 80", "permit tcp any any range 1 65535",
    "permit tcp any eq 80 any", "permit tcp any lt 1 any", "permit tcp any range 80 90 any", "permit tcp any eq 80 any eq 80",
    "permit udp any any eq 53", "permit udp any any range 1 65535",
    "permit tcp any any ack", "permit tcp any any ack syn", "permit tcp any any syn", "permit tcp any any eq 80 ack", "permit tcp any any log",
    "permit tcp any any eq 80 log", "deny tcp any any eq 80", "deny tcp any any", "deny ip 10.0.0.0 0.0.1.3 any",
    "permit tcp host 10.0.0.1 eq 80 10.0.0.0 0.0.0.255 eq 443 ack",
    "permit tcp any any syn fin", "permit tcp any any fin", "permit tcp any any ack syn fin", "permit 200 any any", "permit 201 any any", "permit 4 any any",
    "permit ipip any any", "permit udp any any", "permit 17 any any eq 53",
    "permit ip object-group G3 object-group GD", "permit ip host 10.0.0.1 host 10.0.0.1", "permit ip host 10.0.0.1 10.1.0.0 0.0.0.255", "permit ip object-group G1 object-group G2",
    # a group whose members leave a gap, and a network that starts in one member and ends in the other
    "permit ip object-group GGAP any", "permit ip 10.2.0.0 0.0.0.255 any", "permit ip 10.2.0.0 0.0.0.3 any",
    # a bottom group whose lowest and highest members are covered by the top group, the middle one is not
    "permit ip object-group GEDGE any", "permit ip object-group GALL3 any",
    # TCP flags written after a log keyword
    "permit tcp any any log syn", "permit tcp any any ack log rst",
    # the other log keyword, alone, after and before a flag
    "permit tcp any any log-input", "permit tcp any any syn log-input", "permit tcp any any log-input ack",
    # neq with three operands that leave gaps of one port between them, and the ports in the gaps
    "permit tcp any any neq 1 3 5", "permit tcp any any eq 2", "permit tcp any any neq 2", "permit tcp any any neq 1 3 4", "permit tcp any any eq 4", "permit tcp any any range 2 4",
    # wildcards with many non-contiguous bits and a lowest mask bit of 0 (256 networks), hosts inside and outside them
    "permit ip 10.0.0.1 0.0.255.0 any", "permit ip host 10.0.5.1 any", "permit ip host 10.0.5.2 any", "permit ip 10.0.0.0 0.0.4.0 any",
    "permit ip 10.0.0.0 128.0.0.255 any", "permit ip 138.0.0.0 0.0.0.255 any", "permit ip 10.0.0.0 0.0.1.0 any", "permit ip 10.0.1.0 0.0.0.0 any",
]


def to_nxos(line):
    rep = {"host 10.0.0.1": "10.0.0.1/32", "10.0.0.0 0.0.0.255": "10.0.0.0/24", "10.0.0.0 0.0.1.255": "10.0.0.0/23",
           "10.0.1.0 0.0.0.3": "10.0.1.0/30", "10.0.0.0 0.0.0.3": "10.0.0.0/30", "object-group": "addrgroup", "eq 80 443": "eq 443", "neq 1 3 5": "neq 3", "neq 1 3 4": "neq 5", "permit ipip": "permit 94", "138.0.0.0 0.0.0.255": "138.0.0.0/24",
           "10.0.1.0 0.0.0.0": "10.0.1.0/32", "10.1.0.0 0.0.0.255": "10.1.0.0/24",
           "10.2.0.0 0.0.0.255": "10.2.0.0/24", "10.2.0.0 0.0.0.3": "10.2.0.0/30", "host 10.0.5.1": "10.0.5.1/32", "host 10.0.5.2": "10.0.5.2/32"}
    for a, b in rep.items():
        line = line.replace(a, b)
    return line


ACES = {"ios": ACES_IOS, "nxos": [to_nxos(l) for l in ACES_IOS]}
GROUPS = {"ios": GROUPS_IOS, "nxos": GROUPS_NXOS}
SKIPS = [(), ("addrgroup",), ("nc_wildcard",), ("addrgroup", "nc_wildcard"), ("nc_wildcard", "addrgroup")]


def group_cubes(platform):
    out = {}
    for name, members in GROUPS[platform].items():
        cubes = []
        for m in members:
            c, _, _ = cisco_ref.read_address(m.split(), 0, platform, None)
            cubes.extend(c)
        out[name] = cubes
    return out


def make_ace(line, platform, **kw):
    """real Ace with the members of referenced address groups attached"""
    import cisco_acl
    ace = cisco_acl.Ace(line, platform=platform, **kw)
    for addr in (ace.srcaddr, ace.dstaddr):
        if addr.addrgroup:
            addr.items = [cisco_acl.Address(m, platform=platform) for m in GROUPS[platform][addr.addrgroup]]
    return ace


def ref_sem(line, platform):
    return cisco_ref.read_ace(line, platform, group_cubes(platform)).sem


def involves(line, kind, platform):
    """is a skipped address kind involved in this entry?  (from the text, independent of the library's typing)"""
    toks = line.split()
    if kind == "addrgroup":
        return "object-group" in toks or "addrgroup" in toks
    # nc_wildcard: an `A.B.C.D W.X.Y.Z` pair whose mask is not contiguous
    k = 0
    while k < len(toks):
        if toks[k] == "host":
            k += 2                                  # `host A.B.C.D`: the next token is an address, not a mask
        elif cisco_ref.is_ip(toks[k]) and k + 1 < len(toks) and cisco_ref.is_ip(toks[k + 1]):
            m = cisco_ref.parse_ip(toks[k + 1])
            if m & (m + 1):
                return True
            k += 2
        else:
            k += 1
    return False


def group_free(line):
    return "object-group" not in line and "addrgroup" not in line


def bottom_ports_nonempty(sem):
    return (sem.sports is None or len(sem.sports) > 0) and (sem.dports is None or len(sem.dports) > 0)


def config_text(platform, lines):
    """a device configuration that defines every group of GROUPS and one ACL with the given entries (IOS object-groups spell members with
    subnet masks, so the non-contiguous GNC cannot be written there: entries that use it are left out)"""
    out = []
    for name, members in GROUPS[platform].items():
        if platform == "ios" and name == "GNC":
            continue
        out.append(f"object-group network {name}" if platform == "ios" else f"object-group ip address {name}")
        for m in members:
            toks = m.split()
            if platform == "ios" and len(toks) == 2 and toks[0] != "host":
                m = toks[0] + " " + ".".join(str(255 - int(x)) for x in toks[1].split("."))
            out.append(" " + m)
    out.append("ip access-list extended A" if platform == "ios" else "ip access-list A")
    kept = [l for l in lines if not (platform == "ios" and "GNC" in l.split())]
    out += [" " + l for l in kept]
    return "\n".join(out), kept
