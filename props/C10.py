"""C10 - Resequencing numbers every line start, start+step, ... and changes nothing else."""
import itertools
import sys
import os
import time

sys.path.insert(0, os.path.dirname(os.path.dirname(os.path.abspath(__file__))))
import z3
from pyvc.driver import run, pmap

MAX = 4294967295


# ---------------------------------------------------------------------------------------------- lemmas
def lemmas():
    a = z3.Function("leaf_number", z3.IntSort(), z3.IntSort())
    s, d, i = z3.Ints("s d i")
    out = []
    # L10.closedform: numbers that start at s and grow by d per leaf are s + i*d  (induction: base + step)
    out.append(("L10.closedform.base", [a(0) == s], a(0) == s + 0 * d, {}))
    out.append(("L10.closedform.step", [i >= 0, a(i) == s + i * d, a(i + 1) == a(i) + d], a(i + 1) == s + (i + 1) * d, {"i": i, "s": s, "d": d}))
    # L10.max: with d >= 0 the last number is the maximum, so result <= MAX bounds every number
    n = z3.Int("n")
    out.append(("L10.max", [d >= 0, 0 <= i, i <= n], s + i * d <= s + n * d, {"i": i, "n": n, "d": d}))
    return out


# ---------------------------------------------------------------------------------------------- bounded stand-in
def shapes(max_leaves, max_depth=3):
    """all ordered trees: a shape is a tuple of children; a child is 'L' (leaf) or a non-empty tuple (group)"""
    def forests(n, depth):
        # forests with exactly n leaves
        if n == 0:
            yield ()
            return
        for first in range(1, n + 1):
            for rest in forests(n - first, depth):
                if first == 1:
                    yield ("L",) + rest
                if depth > 1:
                    for g in forests(first, depth - 1):
                        if g:
                            yield (g,) + rest
    for n in range(1, max_leaves + 1):
        yield from forests(n, max_depth)


def build(shape, cisco_acl, counter, platform):
    """real objects for a shape; returns (items, leaves in render order)"""
    items, leaves = [], []
    for ch in shape:
        if ch == "L":
            k = next(counter)
            if k % 3 == 2:
                o = cisco_acl.Remark(f"{k * 7 % 50 or ''} remark text{k}".strip(), platform=platform)
            else:
                o = cisco_acl.Ace(f"{k * 11 % 97 or ''} permit tcp any host 10.0.0.{k} eq {k + 1}".strip(), platform=platform)
            items.append(o)
            leaves.append(o)
        else:
            sub, subleaves = build(ch, cisco_acl, counter, platform)
            g = cisco_acl.AceGroup(platform=platform)
            g.items.extend(sub)   # direct list access allows nested groups (the items setter would reject AceGroup)
            items.append(g)
            leaves.extend(subleaves)
    return items, leaves


def strip_seq(line):
    toks = line.split()
    while toks and toks[0].isdigit():
        toks = toks[1:]
    return " ".join(toks)


def expected(start, step, nleaves):
    """(raises, numbers, result) by the property statement"""
    if not 0 <= start <= MAX:
        return True, None, None
    if start and step < 1:
        return True, None, None
    if start == 0:
        return False, [0] * nleaves, 0
    nums = [start + i * step for i in range(nleaves)]
    if nums[-1] > MAX:
        return True, None, None
    return False, nums, nums[-1]


def check_ghost_model(shape, start, step):
    """the ghost vocabulary of the AceGroup.resequence contract has a model on this tree (precondition is satisfiable)"""
    # FN/LN from render order; verify sibling and group axioms by direct evaluation
    counter = itertools.count()

    def walk(sh):
        out = []
        for ch in sh:
            if ch == "L":
                i = next(counter)
                out.append(("L", start + i * step, start + i * step, None))
            else:
                sub = walk(ch)
                out.append(("G", sub[0][1], sub[-1][2], sub))
        return out

    def ok(nodes):
        for a, b in zip(nodes, nodes[1:]):
            if b[1] != a[2] + step:
                return False
        for nd in nodes:
            if nd[1] > nd[2] and step >= 0:
                return False
            if nd[0] == "G" and not ok(nd[3]):
                return False
        return True
    return ok(walk(shape))


STARTS = [0, 1, 10, MAX - 2, MAX - 1, MAX, MAX + 1, -1]
STEPS = [-1, 0, 1, 2, 10, 2 ** 31]


def _one_shape(arg):
    """bounded contract check of Acl.resequence on one (platform, shape, reduced?) cell"""
    import cisco_acl
    platform, shape, reduced = arg
    evals = distinct = 0
    fails, samples = [], []
    nleaves = str(shape).count("'L'")
    for start, step in itertools.product(STARTS, STEPS):
        if reduced and (start not in (0, 10, MAX - 1) or step not in (0, 1, 10)):
            continue
        evals += 1
        items, leaves = build(shape, cisco_acl, itertools.count(1), platform)
        acl = cisco_acl.Acl("ip access-list extended A" if platform == "ios" else "ip access-list A", platform=platform)
        acl.items.extend(items)
        before = [strip_seq(o.line) for o in leaves]
        before_text = [strip_seq(s) for s in acl.line.split("\n")[1:]]
        exp_raise, exp_nums, exp_res = expected(start, step, nleaves)
        try:
            res = acl.resequence(start=start, step=step)
            raised = None
        except Exception as ex:  # ValueError is the documented one; any other type is a violation
            res, raised = None, ex
        inputs = dict(shape=repr(shape), start=start, step=step, platform=platform)
        what = None
        if exp_raise:
            if raised is None:
                what = f"no error although the statement requires one (returned {res})"
            elif not isinstance(raised, ValueError):
                what = f"wrong exception type {type(raised).__name__}"
        else:
            if raised is not None:
                what = f"unexpected {type(raised).__name__}: {raised}"
            else:
                nums = [o.sequence for o in leaves]
                text_nums = []
                for s in acl.line.split("\n")[1:]:
                    t = s.split()
                    text_nums.append(int(t[0]) if t and t[0].isdigit() else 0)
                after = [strip_seq(o.line) for o in leaves]
                after_text = [strip_seq(s) for s in acl.line.split("\n")[1:]]
                if nums != exp_nums:
                    what = f"leaf numbers {nums} != {exp_nums}"
                elif text_nums != exp_nums:
                    what = f"rendered numbers {text_nums} != {exp_nums}"
                elif res != exp_res:
                    what = f"returned {res} != {exp_res}"
                elif after != before or after_text != before_text:
                    what = "something other than the numbers changed"
                elif max(nums + [0]) > MAX:
                    what = "number above 4294967295 left behind"
                if not check_ghost_model(shape, start, step):
                    what = what or "ghost numbering model does not satisfy the tree axioms (contract precondition unsatisfiable)"
                distinct += 1
        if what:
            code = ("import sys; sys.path.insert(0,'props'); import C10, itertools, cisco_acl\n"
                    f"shape={shape!r}; start={start}; step={step}; platform={platform!r}\n"
                    "items, leaves = C10.build(shape, cisco_acl, itertools.count(1), platform)\n"
                    "acl = cisco_acl.Acl('ip access-list extended A' if platform == 'ios' else 'ip access-list A', platform=platform); acl.items.extend(items)\n"
                    "exp = C10.expected(start, step, len(leaves))\n"
                    "try:\n    r = acl.resequence(start=start, step=step); got=(False,[o.sequence for o in leaves], r)\n"
                    "except ValueError: got=(True,None,None)\n"
                    "print('expected', exp, 'got', got); sys.exit(0 if got==exp else 1)\n")
            fails.append(dict(what=what, inputs=inputs, cmd=code, key=f"bounded/Acl.resequence:{'raise' if exp_raise else 'numbers'}"))
        elif len(samples) < 1 and not exp_raise:
            samples.append(dict(inputs, numbers=[o.sequence for o in leaves], returned=res))
    return evals, distinct, fails, samples


DUP_SHAPES = [("A", "B", "A"), ("A", "A"), ("R", "R"), ("A", "R", "B", "A"), ("A", ("B", "A"), "A"), (("A", "B"), ("A", "B")), ("B", ("A", "A"))]
DUP_LINES = {"A": "permit tcp any any eq 80", "B": "deny ip any any", "R": "remark same text"}


def _dup_case(arg):
    import cisco_acl
    platform, kinds, first, second = arg

    def mk(k):
        if isinstance(k, tuple):
            g = cisco_acl.AceGroup(platform=platform)
            g.items.extend(mk(x) for x in k)
            return g
        l = DUP_LINES[k]
        return cisco_acl.Remark(l, platform=platform) if l.startswith("remark") else cisco_acl.Ace(l, platform=platform)
    acl = cisco_acl.Acl("ip access-list extended A" if platform == "ios" else "ip access-list A", platform=platform)
    acl.items.extend(mk(k) for k in kinds)

    def leaves(items):
        out = []
        for o in items:
            out.extend(leaves(o.items) if isinstance(o, cisco_acl.AceGroup) else [o])
        return out
    lv = leaves(acl.items)
    inputs = dict(platform=platform, kinds=list(kinds), first=list(first), second=list(second))
    try:
        acl.resequence(*first)
        r = acl.resequence(*second)
    except Exception as ex:
        return False, f"{type(ex).__name__}: {ex}", inputs
    want = [second[0] + i * second[1] for i in range(len(lv))]
    got = [o.sequence for o in lv]
    if got != want or r != want[-1]:
        return False, f"after resequence{first} then resequence{second}: numbers {got} (returned {r}), expected {want}", inputs
    return True, "", inputs


PREV_PATTERNS = ("target", "ends-match-middle-shifted", "ends-match-middle-unnumbered", "first-matches", "last-matches", "ends-unnumbered-middle-numbered", "all-equal-start")


def _prev_case(arg):
    """a previous numbering that agrees with the requested one in some places only (first and last line, or none, or all): every line is renumbered all the same"""
    import cisco_acl
    platform, shape, start, step, pattern = arg
    items, leaves = build(shape, cisco_acl, itertools.count(1), platform)
    acl = cisco_acl.Acl("ip access-list extended A" if platform == "ios" else "ip access-list A", platform=platform)
    acl.items.extend(items)
    n = len(leaves)
    target = [0] * n if start == 0 else [start + i * step for i in range(n)]
    prev = list(target)
    mid = range(1, n - 1)
    if pattern == "ends-match-middle-shifted":
        prev = [t + (3 if i in mid else 0) for i, t in enumerate(target)]
    elif pattern == "ends-match-middle-unnumbered":
        prev = [0 if i in mid else t for i, t in enumerate(target)]
    elif pattern == "first-matches":
        prev = [t if i == 0 else 7 * (i + 1) for i, t in enumerate(target)]
    elif pattern == "last-matches":
        prev = [t if i == n - 1 else 7 * (i + 1) for i, t in enumerate(target)]
    elif pattern == "ends-unnumbered-middle-numbered":
        prev = [(25 + i) if i in mid else 0 for i in range(n)]
    elif pattern == "all-equal-start":
        prev = [start] * n
    for o, q in zip(leaves, prev):
        o.sequence = q
    inputs = dict(platform=platform, shape=repr(shape), start=start, step=step, pattern=pattern, previous_numbers=prev)
    try:
        r = acl.resequence(start=start, step=step)
    except Exception as ex:
        return False, f"{type(ex).__name__}: {ex}", inputs
    got = [o.sequence for o in leaves]
    text_nums = []
    for s_ in acl.line.split("\n")[1:]:
        t_ = s_.split()
        text_nums.append(int(t_[0]) if t_ and t_[0].isdigit() else 0)
    if got != target or text_nums != target or r != (target[-1] if target else 0):
        return False, f"previous numbers {prev}, resequence({start}, {step}): numbers {got}, rendered {text_nums}, returned {r}; expected {target}", inputs
    return True, "", inputs


def bounded(chk):
    import cisco_acl
    from pyvc.driver import pmap
    max_leaves = 4 if chk.tier == "quick" else 6
    starts, steps = STARTS, STEPS
    t0 = time.time()
    all_shapes = list(shapes(max_leaves))
    cells = [("ios", sh, chk.tier == "quick" and str(sh).count("'L'") > 3) for sh in all_shapes]
    cells += [("nxos", sh, chk.tier == "quick") for sh in all_shapes]
    cells += [("asa", sh, True) for sh in all_shapes[::3]]        # the third platform the classes accept (same numbering rules)
    evals = distinct = viol = 0
    samples = []
    for ev, di, fails, smp in pmap(_one_shape, cells):
        evals += ev
        distinct += di
        samples += smp
        for f in fails:
            viol += 1
            chk.finding("bounded/Acl.resequence", f["what"], inputs=f["inputs"], cmd=f["cmd"], key=f["key"])
    chk.add_bounded("Acl.resequence end-to-end (real objects, rendered text)", evals, distinct,
                    f"all ordered trees with <= {max_leaves} leaves and nesting depth <= 3 ({len(all_shapes)} shapes) x start in {starts} x step in {steps} x platforms",
                    viol, time.time() - t0, samples, exhaustive=True)
    # previous numberings that agree with the requested one in places
    t0 = time.time()
    pshapes = [sh for sh in shapes(4) if str(sh).count("'L'") >= 3][:: (1 if chk.tier == "thorough" else 2)]
    pcases = [(p_, sh, st_, sp_, pat) for p_ in ("ios", "nxos") for sh in pshapes for st_, sp_ in ((10, 10), (5, 1), (0, 10), (100, 7)) for pat in PREV_PATTERNS]
    pv = 0
    for ok, what, inputs in pmap(_prev_case, pcases):
        if not ok:
            pv += 1
            chk.finding("bounded/Acl.resequence", what, inputs=inputs, key="bounded/Acl.resequence:numbers:previous-numbering",
                        cmd=("import sys; sys.path.insert(0, 'props'); import C10\n"
                             f"ok, what, _ = C10._prev_case({(inputs['platform'], eval(inputs['shape']), inputs['start'], inputs['step'], inputs['pattern'])!r})\n"
                             "print(what); sys.exit(0 if ok else 1)\n"))
    chk.add_bounded("Acl.resequence over previous numberings that agree with the requested one in places (first / last / all lines)", len(pcases), len(pcases),
                    f"{len(pshapes)} trees of 3..4 leaves x 4 (start, step) x {len(PREV_PATTERNS)} previous-numbering patterns x 2 platforms", pv, time.time() - t0,
                    [list(map(str, pcases[9]))], exhaustive=True)
    # duplicate entries + a previous numbering (a renumbered entry may then compare equal to a not yet renumbered one)
    t0 = time.time()
    dres = pmap(_dup_case, [(p_, sh, a, b) for p_ in ("ios", "nxos") for sh in DUP_SHAPES
                            for a in itertools.product((10, 20, 30), (10, 20)) for b in itertools.product((5, 10, 20, 30, 40), (1, 10, 20))])
    dv = 0
    for ok, what, inputs in dres:
        if not ok:
            dv += 1
            chk.finding("bounded/Acl.resequence", what, inputs=inputs, key="bounded/Acl.resequence:numbers:duplicates",
                        cmd=("import sys; sys.path.insert(0, 'props'); import C10\n"
                             f"ok, what, _ = C10._dup_case({(inputs['platform'], tuple(inputs['kinds']), tuple(inputs['first']), tuple(inputs['second']))!r})\n"
                             "print(what); sys.exit(0 if ok else 1)\n"))
    chk.add_bounded("Acl.resequence twice on ACLs with duplicate entries (inside and outside groups)", len(dres), len(dres),
                    f"{len(DUP_SHAPES)} shapes with repeated lines x first (start, step) in {{10,20,30}}x{{10,20}} x second in {{5..40}}x{{1,10,20}} x platforms",
                    dv, time.time() - t0, [dict(kinds=list(DUP_SHAPES[0]))], exhaustive=True)
    # address groups
    t0 = time.time()
    evals = distinct = viol = 0
    samples = []
    for platform in ("ios", "nxos"):
        for n in range(1, 5):
            for start, step in itertools.product(starts, steps):
                evals += 1
                head = "object-group network G" if platform == "ios" else "object-group ip address G"
                body = [f"host 10.0.0.{i + 1}" if platform == "ios" else f"{(i * 10) or ''} 10.0.{i}.0/24".strip() for i in range(n)]
                ag = cisco_acl.AddrGroup("\n".join([head] + body), platform=platform)
                before = [strip_seq(o.line) for o in ag.items]
                exp_raise, exp_nums, exp_res = expected(start, step, n)
                try:
                    res = ag.resequence(start=start, step=step)
                    raised = None
                except Exception as ex:
                    res, raised = None, ex
                what = None
                if exp_raise:
                    if not isinstance(raised, ValueError):
                        what = f"expected ValueError, got {raised!r} / returned {res}"
                else:
                    if raised is not None:
                        what = f"unexpected {type(raised).__name__}: {raised}"
                    else:
                        nums = [o.sequence for o in ag.items]
                        if nums != exp_nums or res != exp_res:
                            what = f"numbers {nums} result {res} != {exp_nums} {exp_res}"
                        elif [strip_seq(o.line) for o in ag.items] != before:
                            what = "something other than the numbers changed"
                        distinct += 1
                if what:
                    viol += 1
                    chk.finding("bounded/AddrGroup.resequence", what, inputs=dict(n=n, start=start, step=step, platform=platform),
                                key="bounded/AddrGroup.resequence")
                elif len(samples) < 2 and not exp_raise:
                    samples.append(dict(n=n, start=start, step=step, platform=platform, numbers=[o.sequence for o in ag.items]))
    chk.add_bounded("AddrGroup.resequence end-to-end", evals, distinct, "groups of 1..4 members x the same start/step grid x platforms",
                    viol, time.time() - t0, samples, exhaustive=True)


def check_edge(arg):
    """containers the numbering rule does not mention: a group without entries inside an ACL, an explicitly empty list of items"""
    import cisco_acl
    kind, platform = arg
    head = "ip access-list extended A" if platform == "ios" else "ip access-list A"
    fails = []

    def bad(what):
        fails.append(dict(key=f"bounded/Acl.resequence:{kind}", what=what, inputs=dict(kind=kind, platform=platform),
                          cmd=("import sys; sys.path.insert(0, 'props'); import C10\n"
                               f"fails, _ = C10.check_edge({arg!r})\nprint([f['what'] for f in fails]); sys.exit(1 if fails else 0)\n")))
    acl = cisco_acl.Acl(head + "\n permit ip any any\n deny ip any any", platform=platform)
    try:
        if kind == "empty-group":
            acl.items.insert(1, cisco_acl.AceGroup("", platform=platform))
            last = acl.resequence(10, 10)
            nums = [o.sequence for o in acl.items if not isinstance(o, cisco_acl.AceGroup)]
            if nums != sorted(nums) or len(set(nums)) != len(nums) or nums[0] != 10 or last < nums[-1]:
                bad(f"entries around an empty group are numbered {nums}, returned {last}")
        else:
            last = acl.resequence(10, 10)
            last2 = acl.resequence(500, 5, items=[])
            nums = [o.sequence for o in acl.items]
            if nums != [10, 20]:
                bad(f"resequence(500, 5, items=[]) renumbered the entries of the ACL: {nums} (returned {last2})")
    except (ValueError, TypeError):
        pass
    except Exception as ex:
        bad(f"{type(ex).__name__}: {str(ex)[:80]}")
    return fails, 1


def main(chk):
    chk.prove(["c_sequence"])
    chk.lemmas(lemmas())
    bounded(chk)
    t0 = time.time()
    ecases = [(k, p) for k in ("empty-group", "explicit-empty-items") for p in ("ios", "nxos")]
    res = pmap(check_edge, ecases)
    viol = 0
    for fails, _ in res:
        for f in fails:
            viol += 1
            chk.finding(f["key"], f["what"], inputs=f["inputs"], cmd=f["cmd"], key=f["key"])
    chk.add_bounded("containers outside the contract's precondition (`tree of non-empty groups`): an empty nested group, an explicitly empty items list", len(ecases), len(ecases),
                    "2 shapes x 2 platforms", viol, time.time() - t0, [list(ecases[0])], exhaustive=True)
    chk.assumptions += [
        "Python ints are mathematical integers (z3 Int); left-to-right evaluation; enumerate/len/isinstance/dict/kwargs.get built-in models (pyvc.builtins_)",
        "AceGroup.resequence precondition `tree`: the item graph is a finite tree of non-empty groups with pairwise distinct nodes (ghost functions FN/LN/UG/IDXL); the bounded run shows a model of these axioms exists for every enumerated tree",
        "meta-argument not machine checked: ghost numbering FN/LN == render order of Acl.line (validated on every enumerated tree by comparing the rendered text)",
        "the `h.check_start_step_sequence` decorator is resolved by executing the wrapper's real body with `method` bound to the raw method's contract",
        "z3 5.1 / cvc5 are trusted",
    ]
    return chk.finish(
        "proof",
        "Deductive: helpers.check_start_step_sequence._wrapper (exact raise conditions, step forced to 0 for start 0, result <= MAX), "
        "helpers.init_int, AddrGroup.resequence and AceGroup.resequence (both call forms; recursion through the real wrapper body) are "
        "verified for all inputs by pyvc (loop invariants, frame: only _sequence of visited nodes is written). Lemmas give the closed "
        "form start+i*step. Bounded stand-in (labelled bounded, not counted as proved): end-to-end through Acl.line / AddrGroup on all "
        "small trees x boundary integers, which also validates the ghost tree model.",
        trusted_base=["z3 5.1.0", "cvc5 1.0.3 (fallback)", "pyvc VC generator (/verif/pyvc)", "CPython semantics listed under assumptions"])


if __name__ == "__main__":
    run("C10", main)
