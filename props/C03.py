"""C03 - Shadow detection is sound: a reported shadow is really covered."""
import itertools
import os
import sys
import time

sys.path.insert(0, os.path.dirname(os.path.dirname(os.path.abspath(__file__))))
import z3
from pyvc.driver import run, pmap
from pyvc.values import Net
from spec import sets
import shadow_common as sc

BV = 64


def mask_of(plen):
    t = z3.BitVecVal(0, BV)
    for c in range(32, -1, -1):
        t = z3.If(plen == c, z3.BitVecVal((0xFFFFFFFF << (32 - c)) & 0xFFFFFFFF, BV), t)
    return t


def in_net(x, n):
    return (x & mask_of(Net.plen(n))) == Net.addr(n)


def wf(n):
    return z3.And(Net.plen(n) >= 0, Net.plen(n) <= 32, z3.ULE(Net.addr(n), 0xFFFFFFFF), (Net.addr(n) & mask_of(Net.plen(n))) == Net.addr(n))


def net_sub_def(b, t):
    """ipaddress.IPv4Network.subnet_of (assumed contract on the dependency; audited on CPython by C13's bounded part)"""
    return z3.And(Net.plen(t) <= Net.plen(b), (Net.addr(b) & mask_of(Net.plen(t))) == Net.addr(t))


def lemmas():
    out = []
    b, t = z3.Consts("b t", Net)
    x = z3.BitVec("x", BV)
    xin = z3.ULE(x, 0xFFFFFFFF)
    # L13.bits.sound: subnet_of => address inclusion
    out.append(("L13.bits.sound", [wf(b), wf(t), net_sub_def(b, t), xin, in_net(x, b)], in_net(x, t), {"x": x}))
    # L13.bits.exact: address inclusion => subnet_of  (witnesses: the lowest and the highest address of b)
    lo = Net.addr(b)
    hi = Net.addr(b) | (~mask_of(Net.plen(b)) & z3.BitVecVal(0xFFFFFFFF, BV))
    out.append(("L13.bits.exact", [wf(b), wf(t), z3.Implies(in_net(lo, b), in_net(lo, t)), z3.Implies(in_net(hi, b), in_net(hi, t))],
                net_sub_def(b, t), {}))
    # L13.sound: (forall bottom exists top: bottom inside top) => union(bottoms) inside union(tops)   [uninterpreted membership]
    INN = z3.Function("in_net_u", z3.IntSort(), Net, z3.BoolSort())
    SUB = z3.Function("net_sub", Net, Net, z3.BoolSort())
    B = z3.Array("B", z3.IntSort(), Net)
    T = z3.Array("T", z3.IntSort(), Net)
    nb, nt, i, j, a = z3.Ints("nb nt i j a")
    n1, n2 = z3.Consts("n1 n2", Net)
    sub_means = z3.ForAll([n1, n2, a], z3.Implies(z3.And(SUB(n1, n2), INN(a, n1)), INN(a, n2)))
    all_cov = z3.ForAll([i], z3.Implies(z3.And(0 <= i, i < nb), z3.Exists([j], z3.And(0 <= j, j < nt, SUB(B[i], T[j])))))
    out.append(("L13.sound", [sub_means, all_cov, 0 <= i, i < nb, INN(a, B[i])], z3.Exists([j], z3.And(0 <= j, j < nt, INN(a, T[j]))), {}))
    # L3.product: field-wise inclusion => packet-set inclusion (a packet is a tuple of independent fields)
    ma = [z3.Bool(f"bottom_matches_{f}") for f in ("proto", "src", "dst", "sport", "dport", "flags")]
    mb = [z3.Bool(f"top_matches_{f}") for f in ("proto", "src", "dst", "sport", "dport", "flags")]
    out.append(("L3.product", [z3.Implies(p, q) for p, q in zip(ma, mb)] + ma, z3.And(*mb), {}))
    # L3.skipmono: the proved characterisation result == base and not blocked(skip) is antitone in skip
    base, g1, g2, inv_g, inv_n, n1_, n2_ = z3.Bools("base ag_in_skip ag_in_skip2 group_involved nc_involved nc_in_skip nc_in_skip2")
    r1 = z3.And(base, z3.Not(z3.Or(z3.And(g1, inv_g), z3.And(n1_, inv_n))))
    r2 = z3.And(base, z3.Not(z3.Or(z3.And(g2, inv_g), z3.And(n2_, inv_n))))
    out.append(("L3.skipmono", [z3.Implies(g1, g2), z3.Implies(n1_, n2_), r2], r1, {}))
    return out


# ---------------------------------------------------------------------------------------------- bounded pairs
def check_pair(arg):
    platform, i, j = arg
    top_l, bot_l = sc.ACES[platform][i], sc.ACES[platform][j]
    top, bot = sc.make_ace(top_l, platform), sc.make_ace(bot_l, platform)
    st, sb = sc.ref_sem(top_l, platform), sc.ref_sem(bot_l, platform)
    fails = []
    results = {}
    for skip in sc.SKIPS:
        try:
            r = bot.shadow_of(top, skip=list(skip))
        except Exception as ex:
            fails.append(dict(key=f"bounded/shadow_of:error:{type(ex).__name__}", what=f"{bot_l!r}.shadow_of({top_l!r}, skip={list(skip)}) raised {type(ex).__name__}: {ex}",
                              inputs=dict(top=top_l, bottom=bot_l, skip=list(skip), platform=platform)))
            continue
        results[skip] = r
        if r:
            w = None
            if st.action != sb.action:
                w = {"field": "action"}
            else:
                w = sets.sem_subset(sb, st)
            if w is not None:
                fld = w.get("field")
                kind = "emptytop" if fld in ("sport", "dport") and ((st.sports is not None and not st.sports) or (st.dports is not None and not st.dports)) else fld
                fails.append(dict(key=f"bounded/shadow_of:unsound:{kind}",
                                  what=f"{bot_l!r} reported in the shadow of {top_l!r} (skip={list(skip)}) but packet {w} matches only the bottom entry",
                                  inputs=dict(top=top_l, bottom=bot_l, skip=list(skip), platform=platform, witness=w)))
    # adding skip options can only turn answers from true to false
    for s1, s2 in itertools.product(sc.SKIPS, sc.SKIPS):
        if set(s1) <= set(s2) and s1 in results and s2 in results and results[s2] and not results[s1]:
            fails.append(dict(key="bounded/shadow_of:skip-not-monotone",
                              what=f"{bot_l!r}.shadow_of({top_l!r}): skip={list(s1)} -> False but skip={list(s2)} -> True",
                              inputs=dict(top=top_l, bottom=bot_l, skip_small=list(s1), skip_large=list(s2), platform=platform)))
            break
    for f in fails:
        f["cmd"] = ("import sys; sys.path.insert(0, 'props'); import C03\n"
                    f"fails, _ = C03.check_pair({arg!r})\nprint([f['what'] for f in fails]); sys.exit(1 if fails else 0)\n")
    return fails, 1


def check_group_history(arg):
    """query, edit the members of a referenced address group in place, query again: answers equal those of fresh objects"""
    import cisco_acl
    platform, top_l, bot_l, m1, m2 = arg
    fails = []

    def mk(line, members):
        a = cisco_acl.Ace(line, platform=platform)
        for addr in (a.srcaddr, a.dstaddr):
            if addr.addrgroup:
                addr.items = [cisco_acl.Address(m, platform=platform) for m in members]
        return a
    top, bot = mk(top_l, m1), mk(bot_l, m1)
    bot.shadow_of(top)
    for ace in (top, bot):
        for addr in (ace.srcaddr, ace.dstaddr):
            if addr.addrgroup:
                addr.items.clear()
                addr.items.extend(cisco_acl.Address(m, platform=platform) for m in m2)
    got = bot.shadow_of(top)
    want = mk(bot_l, m2).shadow_of(mk(top_l, m2))
    if got != want:
        fails.append(dict(key="bounded/shadow_of:stale-after-group-edit",
                          what=f"{bot_l!r}.shadow_of({top_l!r}) after changing the group members in place from {m1} to {m2}: {got}, fresh objects: {want}",
                          inputs=dict(platform=platform, top=top_l, bottom=bot_l, members_before=m1, members_after=m2),
                          cmd=("import sys; sys.path.insert(0, 'props'); import C03\n"
                               f"fails, _ = C03.check_group_history({arg!r})\nprint([f['what'] for f in fails]); sys.exit(1 if fails else 0)\n")))
    return fails, 1


def check_group_rename(arg):
    """ask, then point an entry (or its address) at ANOTHER group, or at a plain address, by reassigning the text: nothing of the previous group's members
    may take part in the next answer (the new group's members were never given: it denotes no address until they are)"""
    import cisco_acl
    platform, route, side = arg
    g = "object-group" if platform == "ios" else "addrgroup"
    member = "10.0.0.0 0.0.0.255" if platform == "ios" else "10.0.0.0/24"
    host = "host 10.0.0.1" if platform == "ios" else "10.0.0.1/32"
    mk = (lambda a: f"permit ip {a} any") if side == "src" else (lambda a: f"permit ip any {a}")
    top = cisco_acl.Ace(mk(f"{g} A"), platform=platform)
    addr = getattr(top, side + "addr")
    addr.items = [cisco_acl.Address(member, platform=platform)]
    bot = cisco_acl.Ace(mk(host), platform=platform)
    fails = []
    first = bot.shadow_of(top)
    if route == "ace.line":
        top.line = mk(f"{g} B")
    elif route == "addr.line":
        getattr(top, side + "addr").line = f"{g} B"
    elif route == "addr.line-plain":
        getattr(top, side + "addr").line = "10.9.0.0 0.0.0.255" if platform == "ios" else "10.9.0.0/24"
    elif route == "ace.line-plain":
        top.line = mk("10.9.0.0 0.0.0.255" if platform == "ios" else "10.9.0.0/24")
    got = bot.shadow_of(top)
    left = [m.line for m in getattr(top, side + "addr").items]
    if not first:
        fails.append(("setup", f"{mk(host)!r} not reported under {mk(g + ' A')!r} with member {member}"))
    if got or left:
        fails.append(("stale-members", f"{platform}: after `{route}` pointed the {side} address of {mk(g + ' A')!r} at {top.line!r}, it still carries the members {left} of group A; "
                                       f"{mk(host)!r}.shadow_of(it) = {got}"))
    return [dict(key=f"bounded/shadow_of:group-renamed:{k}:{route}", what=w, inputs=dict(platform=platform, route=route, side=side),
                 cmd=("import sys; sys.path.insert(0, 'props'); import C03\n"
                      f"fails, _ = C03.check_group_rename({arg!r})\nprint([f['what'] for f in fails]); sys.exit(1 if fails else 0)\n")) for k, w in fails], 1


def check_config_row(arg):
    """the same pairs with entries and group members as `acls()` loads them from a device configuration (members attached by the library itself)"""
    import logging
    import cisco_acl
    logging.disable(logging.CRITICAL)
    platform, i = arg
    cfg, kept = sc.config_text(platform, sc.ACES[platform])
    fails = []
    try:
        items = [o for o in cisco_acl.acls(cfg, platform=platform)[0].items if isinstance(o, cisco_acl.Ace)]
        if len(items) != len(kept):
            raise ValueError(f"{len(items)} entries loaded from {len(kept)} lines")
    except Exception as ex:
        return [dict(key="bounded/config:not-loaded", what=f"acls() on the {platform} configuration with {len(kept)} entries: {type(ex).__name__}: {str(ex)[:150]}",
                     inputs=dict(platform=platform), cmd=None)], 1
    top, top_l = items[i], kept[i]
    st = sc.ref_sem(top_l, platform)
    n = 0
    for bot, bot_l in zip(items, kept):
        n += 1
        sb = sc.ref_sem(bot_l, platform)
        try:
            r = bot.shadow_of(top)
        except Exception as ex:
            fails.append(dict(key=f"bounded/config:shadow_of:error:{type(ex).__name__}", what=f"loaded {bot_l!r}.shadow_of({top_l!r}) raised {type(ex).__name__}: {ex}",
                              inputs=dict(top=top_l, bottom=bot_l, platform=platform)))
            continue
        if r:
            w = {"field": "action"} if st.action != sb.action else sets.sem_subset(sb, st)
            if w is not None:
                fails.append(dict(key=f"bounded/config:shadow_of:unsound:{w.get('field')}",
                                  what=f"loaded from a configuration: {bot_l!r} reported in the shadow of {top_l!r} but packet {w} matches only the bottom entry",
                                  inputs=dict(top=top_l, bottom=bot_l, platform=platform, witness=w)))
    for f in fails:
        f["cmd"] = ("import sys; sys.path.insert(0, 'props'); import C03\n"
                    f"fails, _ = C03.check_config_row({arg!r})\nprint([f['what'] for f in fails][:5]); sys.exit(1 if fails else 0)\n")
    return fails[:3], n


def bounded_config(chk):
    t0 = time.time()
    cases = [(p, i) for p in ("ios", "nxos") for i in range(len(sc.config_text(p, sc.ACES[p])[1]))]
    res = pmap(check_config_row, cases)
    viol = 0
    for fails, _ in res:
        for f in fails:
            viol += 1
            chk.finding(f["key"], f["what"], inputs=f["inputs"], cmd=f.get("cmd"), key=f["key"])
    chk.add_bounded("Ace.shadow_of on entries and group members loaded by acls() from a configuration (groups on one and on both sides)", sum(n for _, n in res), len(cases),
                    "all ordered pairs of the ACE classes per platform, members attached by the library", viol, time.time() - t0, [dict(platform=cases[0][0], top_index=cases[0][1])], exhaustive=True)


def replay_port_sound(model, ob):
    """focused native search for the `port sound` clause: a top with an operator and an empty port set"""
    side = "src" if "srcport" in ob.target else "dst"
    pool = ["", "eq 80", "lt 1", "gt 65535", "range 80 90"]
    for tp, bp in itertools.product(pool, pool):
        mk = (lambda p: f"permit tcp any {p} any".replace("  ", " ")) if side == "src" else (lambda p: f"permit tcp any any {p}".strip())
        top, bot = sc.make_ace(mk(tp), "ios"), sc.make_ace(mk(bp), "ios")
        r = getattr(bot, f"_shadow_of__{side}port")(top)
        ts, bs = sc.ref_sem(mk(tp), "ios"), sc.ref_sem(mk(bp), "ios")
        w = sets.ports_subset(getattr(bs, side[0] + "ports"), getattr(ts, side[0] + "ports"))
        if r and w is not None:
            cmd = ("import sys; from cisco_acl import Ace\n"
                   f"r = Ace({mk(bp)!r}).shadow_of(Ace({mk(tp)!r})); print('shadow_of ->', r); sys.exit(1 if r else 0)\n")
            return dict(violates=True, inputs=dict(top=mk(tp), bottom=mk(bp)), observed=True, expected=False, cmd=cmd,
                        what=f"{mk(bp)!r} is reported in the shadow of {mk(tp)!r} although port {w} is matched only by the bottom entry",
                        key=f"ace.Ace._shadow_of__{side}port/post[sound]")
    return dict(violates=False)


def replay_addr_skip(model, ob):
    side = "src" if "srcaddr" in ob.target else "dst"
    pool = ["any", "10.0.0.0 0.0.1.3", "10.0.0.0 0.0.3.3", "object-group G1", "10.0.0.0 0.0.0.255"]
    for ta, ba in itertools.product(pool, pool):
        mk = (lambda a: f"permit ip {a} any") if side == "src" else (lambda a: f"permit ip any {a}")
        top, bot = sc.make_ace(mk(ta), "ios"), sc.make_ace(mk(ba), "ios")
        for skip in sc.SKIPS:
            r = getattr(bot, f"_shadow_of__{side}addr")(other=top, skip=list(skip))
            blocked = any(sc.involves(mk(x), k, "ios") for k in skip for x in (ta, ba))
            if r and blocked:
                cmd = ("import sys; sys.path.insert(0, 'props'); import shadow_common as sc\n"
                       f"r = sc.make_ace({mk(ba)!r}, 'ios').shadow_of(sc.make_ace({mk(ta)!r}, 'ios'), skip={list(skip)!r}); print('shadow_of ->', r); sys.exit(1 if r else 0)\n")
                return dict(violates=True, inputs=dict(top=mk(ta), bottom=mk(ba), skip=list(skip)), observed=True, expected=False, cmd=cmd,
                            what=f"skip={list(skip)} involves a skipped address kind, yet {mk(ba)!r}.shadow_of({mk(ta)!r}) is True",
                            key=f"ace.Ace._shadow_of__{side}addr/post[skip]")
    return dict(violates=False)


def attach_replays():
    from pyvc import contract as C
    for side in ("src", "dst"):
        C.REGISTRY[f"cisco_acl.ace.Ace._shadow_of__{side}port"].replay = replay_port_sound
        C.REGISTRY[f"cisco_acl.ace.Ace._shadow_of__{side}addr"].replay = replay_addr_skip


def bounded(chk, prop_filter=None):
    t0 = time.time()
    cases = []
    for platform in ("ios", "nxos"):
        n = len(sc.ACES[platform])
        idx = range(n) if (chk.tier == "thorough" or platform == "ios") else range(0, n, 2)
        cases += [(platform, i, j) for i in idx for j in idx]
    res = pmap(check_pair, cases)
    viol = 0
    for fails, _ in res:
        for f in fails:
            viol += 1
            chk.finding(f["key"], f["what"], inputs=f["inputs"], cmd=f.get("cmd"), key=f["key"])
    chk.add_bounded("Ace.shadow_of on ordered pairs of ACE classes (with address groups and members) x 5 skip lists", len(cases) * len(sc.SKIPS),
                    len(cases), f"{len(sc.ACES['ios'])} ACE classes per platform (protocols, contiguous/non-contiguous wildcards, groups incl. empty, "
                    "all operators incl. empty port sets, flags, logs, both actions), all ordered pairs", viol, time.time() - t0,
                    [dict(top=sc.ACES[c[0]][c[1]], bottom=sc.ACES[c[0]][c[2]]) for c in cases[:3]], exhaustive=True)


def bounded_histories(chk):
    t0 = time.time()
    M = {"ios": [["10.0.0.0 0.0.0.3"], ["10.0.0.0 0.0.0.3", "192.168.1.0 0.0.0.255"], ["10.0.0.0 0.0.0.255"], []],
         "nxos": [["10.0.0.0/30"], ["10.0.0.0/30", "192.168.1.0/24"], ["10.0.0.0/24"], []]}
    cases = []
    for p in ("ios", "nxos"):
        g = "object-group G1" if p == "ios" else "addrgroup G1"
        net = "10.0.0.0 0.0.0.255" if p == "ios" else "10.0.0.0/24"
        for top_l, bot_l in ((f"permit ip {net} any", f"permit ip {g} any"), (f"permit ip {g} any", f"permit ip {net} any"),
                             (f"permit ip any {g}", f"permit ip any {g}"), (f"permit ip {g} any", f"permit ip {g} any")):
            for m1, m2 in itertools.permutations(M[p], 2):
                cases.append((p, top_l, bot_l, m1, m2))
    res = pmap(check_group_history, cases)
    viol = 0
    for fails, _ in res:
        for f in fails:
            viol += 1
            chk.finding(f["key"], f["what"], inputs=f["inputs"], cmd=f.get("cmd"), key=f["key"])
    rcases = [(p, r, sd) for p in ("ios", "nxos") for r in ("ace.line", "addr.line", "addr.line-plain", "ace.line-plain") for sd in ("src", "dst")]
    for fails, _ in pmap(check_group_rename, rcases):
        for f in fails:
            viol += 1
            chk.finding(f["key"], f["what"], inputs=f["inputs"], cmd=f.get("cmd"), key=f["key"])
    chk.add_bounded("shadow_of after an entry / its address was pointed at another group or a plain address by reassigning the text", len(rcases), len(rcases),
                    "4 routes x 2 sides x 2 platforms", 0, 0.0, [list(rcases[0])], exhaustive=True)
    chk.add_bounded("shadow_of before and after in-place edits of address-group members", len(cases), len(cases),
                    "4 ACE pairs with groups x all ordered pairs of 4 member lists x 2 platforms", viol, time.time() - t0, [list(cases[1][1:])], exhaustive=True)


def main(chk):
    chk.prove(["c_helpers", "c_shadow", "c_option"])
    attach_replays()
    chk.replay_refuted()
    chk.lemmas(lemmas())
    bounded(chk)
    bounded_histories(chk)
    bounded_config(chk)
    chk.assumptions += [
        "object views: Inv(Port) (no operator => no ports) is a proved postcondition of Port.line.fset (C08, clause `Inv(Port) of c_shadow`, operands written as numbers or as keywords of the assumed table); Inv(Address) (regex classification in the address line setter) rests on the C06/C01 bounded monitors",
        "assumed contracts: Protocol.name.fget (ip <=> 0, decided by C09), AddressBase.ipnets (ghost value; see C13/C05)",
        "ipaddress.IPv4Network.subnet_of == prefix containment (L13.bits lemmas are stated over that definition)",
        "flag tokens have the legacy match-any meaning; log tokens do not affect matching; which words of an option text are flags is proved for Option.line.fset "
        "(every word that is not `log` / `log-input` is a flag, wherever it stands), over the whitespace-token model of the text",
    ]
    return chk.finish(
        "other",
        "Deductive: Ace.shadow_of and its six field tests are verified against the statement (sound, skip, exact clauses) over object views; "
        "helpers.subnet_of exact; lemmas L13.sound / L13.bits.* / L3.product / L3.skipmono carry the field-level facts to packet sets. "
        "Bounded (labelled): real Ace objects built from text, with group members, all ordered pairs of the class list x skip lists, decided by exact set algebra.",
        trusted_base=["z3 5.1.0", "cvc5 (fallback)", "pyvc", "spec/sets.py", "spec/cisco_ref.py"])


if __name__ == "__main__":
    run("C03", main)
