"""C18 - Generated port/protocol ranges cover exactly the requested set."""
import itertools
import os
import sys
import time

sys.path.insert(0, os.path.dirname(os.path.dirname(os.path.abspath(__file__))))
from pyvc.driver import run, pmap
from spec import cisco_ref, sets, portsem

ELEMS = ["1", "2", "3", "5", "7", "21-23", "79-81", "65534-65535", ""]
TEMPLATES = {"none": "permit tcp any any", "eq": None, "range": None}


def request_set(req):
    out = set()
    for e in req.split(","):
        if not e:
            continue
        if "-" in e:
            a, b = e.split("-")
            out |= set(range(int(a), int(b) + 1))
        else:
            out.add(int(e))
    return frozenset(out)


def template(side, op):
    if op == "none":
        return "permit tcp any any"
    if op == "ip":
        return "permit ip any any"          # a protocol that cannot carry ports: the request cannot be honoured
    expr = {"eq": "eq 9", "range": "range 8 9"}[op]
    return f"permit tcp any {expr} any" if side == "src" else f"permit tcp any any {expr}"


def check_ports(arg):
    import cisco_acl
    req, side, op, count, policy, platform, port_nr = arg
    line = template(side, op)
    kwargs = {("srcports" if side == "src" else "dstports"): req}
    inputs = dict(request=req, side=side, template=line, port_count=count, port_range=policy, platform=platform, port_nr=port_nr)
    fails = []

    def bad(kind, what):
        fails.append(dict(key=f"bounded/range_ports:{kind}", what=what, inputs=inputs,
                          cmd=("import sys; sys.path.insert(0, 'props'); import C18\n"
                               f"fails, _ = C18.check_ports({arg!r})\nprint([f['what'] for f in fails]); sys.exit(1 if fails else 0)\n")))
    want = request_set(req)
    has_range = any("-" in e for e in req.split(","))
    try:
        lines = cisco_acl.range_ports(line=line, platform=platform, port_nr=port_nr, port_count=count, port_range=policy, **kwargs)
    except ValueError as ex:
        # accepted only where the requested combination has no valid line under the template's operator
        impossible = (op == "eq" and policy and has_range) or (op in ("range", "ip")) or (platform == "nxos" and count > 1)
        if not impossible and want:
            bad("refused", f"well-formed request refused: ValueError: {ex}")
        return fails, 1
    except Exception as ex:
        bad("error", f"{type(ex).__name__}: {ex}")
        return fails, 1
    tref = cisco_ref.read_ace(line, platform).sem
    union = set()
    for l in lines:
        try:
            r = cisco_ref.read_ace(l, platform).sem
        except cisco_ref.RefError as ex:
            bad("syntax", f"generated line {l!r} is not valid on {platform}: {ex}")
            continue
        gen = r.sports if side == "src" else r.dports
        other_t = tref.dports if side == "src" else tref.sports
        other_g = r.dports if side == "src" else r.sports
        if (r.action, r.proto, r.src, r.dst, r.flags, r.logs) != (tref.action, tref.proto, tref.src, tref.dst, tref.flags, tref.logs) or other_t != other_g:
            bad("other-field", f"generated line {l!r} differs from the template {line!r} outside the generated field")
        if gen is None:
            bad("no-ports", f"generated line {l!r} has no port expression on the {side} side")
            continue
        union |= gen
        toks = l.split()
        ops = [i for i, t in enumerate(toks) if t in ("eq", "neq", "gt", "lt", "range")]
        if ops:
            i = ops[0] if side == "src" or len(ops) == 1 else ops[-1]
            operands = []
            for t in toks[i + 1:]:
                if t in ("any", "host", "log") or "." in t or t in ("eq", "range"):
                    break
                operands.append(t)
            if toks[i] == "eq" and len(operands) > max(count, 1):
                bad("limit", f"line {l!r} lists {len(operands)} ports, limit {count}")
            if toks[i] in ("eq", "neq") and platform == "nxos" and len(operands) > 1:
                bad("platform-syntax", f"line {l!r} lists {len(operands)} ports after `{toks[i]}`: NX-OS takes one")
            # port keywords must be the platform's own
            from spec import ref_tables as R_
            known = R_.REF_KEYWORDS[("UDP" if tref.proto == 17 else "TCP") + "_NAME_PORT__" + {"ios": "IOS_16", "nxos": "NXOS", "asa": "ASA"}[platform]]
            for t in operands:
                if not t.isdigit() and t not in known:
                    bad("platform-syntax", f"line {l!r} uses the port keyword {t!r}, which {platform} does not have")
            if policy is False and toks[i] == "range" and op != "range":
                bad("policy", f"port_range=False but line {l!r} uses `range`")
    if op == "ip" and want:
        bad("set", f"template {line!r} cannot carry ports, yet the request {req!r} was answered with {lines[:3]} instead of an error")
        return fails, 1
    if not fails and frozenset(union) != want and op in ("none", "range"):
        d1, d2 = sorted(want - union)[:5], sorted(union - want)[:5]
        bad("set" if op == "none" else "set:template-with-range-operator", f"generated lines denote a different port set: missing {d1}, extra {d2}; lines {lines[:4]}")
    if op == "eq" and not fails and not frozenset(union) >= want:
        bad("set", f"requested ports missing: {sorted(want - union)[:5]}")
    return fails, 1


def check_protocols(arg):
    import cisco_acl
    req, platform, protocol_nr = arg[:3]
    with_ports = len(arg) > 3 and arg[3]
    if with_ports:
        return check_protocols_ports(arg)
    fails = []
    want = request_set(req)
    try:
        lines = cisco_acl.range_protocols(protocols=req, line="permit ip host 10.0.0.1 any log", platform=platform, protocol_nr=protocol_nr)
    except Exception as ex:
        return [dict(key="bounded/range_protocols:error", what=f"{type(ex).__name__}: {ex}", inputs=dict(request=req, platform=platform))], 1
    got = set()
    for l in lines:
        try:
            r = cisco_ref.read_ace(l, platform)
        except cisco_ref.RefError as ex:
            fails.append(dict(key="bounded/range_protocols:syntax", what=f"{l!r}: {ex}", inputs=dict(request=req, platform=platform)))
            continue
        if r.sem.proto is None:
            # the library renders protocol 0 as `ip` (known finding of C01): accept only for the requested number 0
            got.add(0)
        else:
            got |= r.sem.proto
        if (r.sem.action, r.sem.src, r.sem.dst, r.sem.logs) != ("permit", (sets.cube(0x0A000001, 0),), (sets.cube(0, sets.M32),), frozenset(["log"])):
            fails.append(dict(key="bounded/range_protocols:other-field", what=f"{l!r} differs from the template outside the protocol", inputs=dict(request=req)))
    if frozenset(got) != want:
        fails.append(dict(key="bounded/range_protocols:set", what=f"request {req!r} generated protocols {sorted(got)[:10]}.., expected {sorted(want)[:10]}..",
                          inputs=dict(request=req, platform=platform, protocol_nr=protocol_nr),
                          cmd=("import sys; sys.path.insert(0, 'props'); import C18\n"
                               f"fails, _ = C18.check_protocols({arg!r})\nprint([f['what'] for f in fails]); sys.exit(1 if fails else 0)\n")))
    return fails, 1


def check_protocols_ports(arg):
    """template with port clauses: tcp/udp lines keep them (only the protocol differs), whatever was generated before them"""
    import cisco_acl
    req, platform, protocol_nr = arg[:3]
    fails = []
    want = request_set(req)
    shape = arg[3] if isinstance(arg[3], str) else "both"
    template, want_ports = {"both": ("permit tcp any eq 1024 any eq 8080", (frozenset([1024]), frozenset([8080]))),
                            "src": ("permit tcp any eq 1024 any", (frozenset([1024]), None)),
                            "dst": ("permit tcp any any eq 8080", (None, frozenset([8080]))),
                            "src-range": ("permit tcp any range 1024 1030 any", (frozenset(range(1024, 1031)), None))}[shape]
    inputs = dict(request=req, platform=platform, protocol_nr=protocol_nr, template=template)
    try:
        lines = cisco_acl.range_protocols(protocols=req, line=template, platform=platform, protocol_nr=protocol_nr)
    except Exception as ex:
        return [dict(key="bounded/range_protocols:error", what=f"{type(ex).__name__}: {ex}", inputs=inputs)], 1
    got = set()
    for l in lines:
        try:
            r = cisco_ref.read_ace(l, platform)
        except cisco_ref.RefError as ex:
            fails.append(dict(key="bounded/range_protocols:syntax", what=f"{l!r}: {ex}", inputs=inputs))
            continue
        got |= r.sem.proto if r.sem.proto is not None else {0}
        toks_ = l.split()
        ptok_ = toks_[2] if toks_ and toks_[0].isdigit() else toks_[1]
        if any(t in ("eq", "neq", "gt", "lt", "range") for t in toks_) and ptok_ not in ("tcp", "udp"):
            # device syntax: a port operator is only accepted after the protocol keyword tcp / udp (a protocol number takes no ports)
            fails.append(dict(key="bounded/range_protocols:platform-syntax", what=f"request {req!r} (protocol_nr={protocol_nr}): {l!r} puts a port operator after the protocol {ptok_!r}; "
                                                                                  f"ports are only valid after the keyword tcp / udp", inputs=inputs,
                              cmd=("import sys; sys.path.insert(0, 'props'); import C18\n"
                                   f"fails, _ = C18.check_protocols({arg!r})\nprint([f['what'] for f in fails]); sys.exit(1 if fails else 0)\n")))
        if r.sem.proto is not None and r.sem.proto <= {6, 17} and (r.sem.sports, r.sem.dports) != want_ports:
            fails.append(dict(key="bounded/range_protocols:other-field:ports", what=f"request {req!r}: {l!r} lost the port clauses of the template {template!r}",
                              inputs=inputs, cmd=("import sys; sys.path.insert(0, 'props'); import C18\n"
                                                  f"fails, _ = C18.check_protocols({arg!r})\nprint([f['what'] for f in fails]); sys.exit(1 if fails else 0)\n")))
    if frozenset(got) != want:
        fails.append(dict(key="bounded/range_protocols:set", what=f"request {req!r} generated protocols {sorted(got)[:10]}.., expected {sorted(want)[:10]}..", inputs=inputs))
    return fails, 1


def main(chk):
    # deductive part: the request splitter under the range/eq policy (contracts/c_split.py)
    chk.prove(["c_split"])
    chk.replay_refuted()
    t0 = time.time()
    maxlen = 3 if chk.tier == "quick" else 4
    reqs = sorted({",".join(c) for n in range(1, maxlen + 1) for c in itertools.product(ELEMS, repeat=n)})
    reqs = [r for r in reqs if r.strip(",")]
    if chk.tier == "quick":
        reqs = reqs[::2]
    cases = []
    for i, r in enumerate(reqs):
        for side, op in (("src", "none"), ("dst", "none"), ("dst", "eq"), ("src", "range")):
            if op != "none" and i % 5:
                continue
            for count in (1, 2, 3, 4):
                if i % 3 and count in (3, 4):
                    continue
                for policy in (True, False):
                    for platform in ("ios", "nxos"):
                        if platform == "nxos" and i % 4:
                            continue
                        cases.append((r, side, op, count, policy, platform, bool(i % 2)))
    for r in ("80", "20,30", "21-23"):
        for platform in ("ios", "nxos"):
            cases.append((r, "src", "ip", 1, True, platform, True))
            cases.append((r, "dst", "range", 2, True, platform, True))
    # ports whose keyword differs between the platforms, rendered as names
    for r in ("135", "37,514", "135-136", "3949", "15001,15002", "22,135"):
        for platform in ("ios", "nxos"):
            for count in (1, 2):
                cases.append((r, "dst", "none", count, True, platform, False))
                cases.append((r, "src", "none", count, False, platform, False))
    # ranges whose ends have different digit counts (9-10, 98-101, 2-11: text order and number order of the ends disagree), expanded and kept
    for r in ("9-10", "98-101", "2-11", "80-443", "5,9998-10001,6", "99-100,7", "8-12,1000-1002"):
        for policy in (True, False):
            for side in ("src", "dst"):
                for count in (1, 3):
                    cases.append((r, side, "none", count, policy, "ios", True))
            cases.append((r, "dst", "none", 1, policy, "nxos", True))
    # requests that contain the full range (the dependency answers those in a brief form)
    for r in (("1-65535", "1-65535,5", "5,1-65535", "2-65535", "1-65534") if chk.tier == "thorough" else ("1-65535,5", "1-65535")):
        for policy in (True, False):
            cases.append((r, "src" if policy else "dst", "none", 10, policy, "ios", policy))
    cases.sort(key=lambda c: 0 if "65535" in c[0] and not c[4] else 1)     # the long ones first
    res = pmap(check_ports, cases)
    viol = 0
    for fails, _ in res:
        for f in fails:
            viol += 1
            chk.finding(f["key"], f["what"], inputs=f["inputs"], cmd=f.get("cmd"), key=f["key"])
    chk.add_bounded("range_ports: valid lines, only the generated field differs, ports-per-line limit, range policy, union == request", len(cases), len(cases),
                    f"comma lists of <= {maxlen} elements over {ELEMS} x side x template operator x port_count 1..4 x both policies x platforms x port_nr",
                    viol, time.time() - t0, [list(cases[100])], exhaustive=False)
    t0 = time.time()
    preqs = ["0", "1", "6", "17", "0-3", "1,6,17", "250-255", "1-3,6,47-51", "255", "41,89", "0-255"]
    cases = [(r, p, nr) for r in preqs for p in ("ios", "nxos") for nr in (False, True)]
    cases += [(r, p, nr, True) for r in ["6", "17", "1,6", "1-6", "2-3,17", "6,17,47", "1,6,17", "6,1", "1-17"] for p in ("ios", "nxos") for nr in (False, True)]
    cases += [(r, p, nr, shp) for r in ["6", "17", "6,17", "1,6,17"] for p in ("ios", "nxos") for nr in (False, True) for shp in ("src", "dst", "src-range")]
    res = pmap(check_protocols, cases)
    viol = 0
    for fails, _ in res:
        for f in fails:
            viol += 1
            chk.finding(f["key"], f["what"], inputs=f["inputs"], cmd=f.get("cmd"), key=f["key"])
    chk.add_bounded("range_protocols: one valid line per protocol, set == request", len(cases), len(cases), f"{len(preqs)} requests x platforms x protocol_nr", viol,
                    time.time() - t0, [list(cases[3])], exhaustive=False)
    chk.assumptions += ["requests are well-formed comma lists; netports.itcp/iip and vhelpers.vlist are dependencies (not verified)",
                        "functions._split_range_for_ace is proved for port_range=True over an abstract text model (comma tokens = ghost CSV_LEN/CSV_ARR, the assumed "
                        "model of str.split(','); a single port = a decimal token, ISDIGIT; the only law used: ''.isdigit() is False); the port_range=False branch "
                        "(netports.itcp, vhelpers flatten/to_multi) and the ACE construction in _range__port / range_protocols are bounded only"]
    return chk.finish("other", "Deductive: functions._split_range_for_ace (range/eq policy): every chunk non-empty, request tokens only, every non-empty request token in "
                      "some chunk, a range token alone in its chunk, no chunk longer than a positive ports-per-line limit (loop invariant over a list of lists). "
                      "Bounded (labelled): range_ports / range_protocols end to end against a reference parse of the request and the independent reader.",
                      trusted_base=["z3 5.1.0", "pyvc", "spec/cisco_ref.py", "spec/portsem.py"])


if __name__ == "__main__":
    run("C18", main)
