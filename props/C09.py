"""C09 - Port/protocol names are pure spelling of their standard numbers (finite domain, enumerated completely)."""
import ast
import itertools
import os
import sys
import time

sys.path.insert(0, os.path.dirname(os.path.dirname(os.path.abspath(__file__))))
import z3
from pyvc.driver import run, pmap
from pyvc import loader
from pyvc.engine import Obligation
from spec import ref_tables as R

PLATFORMS = ("asa", "ios", "nxos")
VERSIONS = ("0", "15", "16", "9", "15.2(4)M", "12")


def expected_table(consts, platform, version, proto):
    """which constant table the statement requires (independent restatement of the selection rule)"""
    major15 = version.split(".")[0].split("(")[0] == "15"
    fam = "TCP" if proto in ("tcp", "6") else "UDP"
    if platform == "asa":
        return consts[f"{fam}_NAME_PORT__ASA"]
    if platform == "nxos":
        return consts[f"{fam}_NAME_PORT__NXOS"]
    return consts[f"{fam}_NAME_PORT__IOS_15" if major15 else f"{fam}_NAME_PORT__IOS_16"]


def table_facts():
    """finite facts over the constant tables extracted from the current source (not imported): one obligation each"""
    pn = loader.module_constants("cisco_acl.port_name")
    pr = loader.module_constants("cisco_acl.protocol")
    hl = loader.module_constants("cisco_acl.helpers")
    op = loader.module_constants("cisco_acl.option")
    facts = []

    def fact(oid, ok, why=""):
        facts.append((oid, bool(ok), why))
    tables = {k: v for k, v in pn.items() if isinstance(v, dict) and "_NAME_PORT__" in k}
    all_names = set()
    for tname, tab in sorted(tables.items()):
        ref = R.REF_TCP if tname.startswith("TCP") else R.REF_UDP
        for name, nr in tab.items():
            all_names.add(name)
            fact(f"table/{tname}[{name}]=standard", ref.get(name) == nr and 1 <= nr <= 65535,
                 f"{name} -> {nr}, reference says {ref.get(name)}")
        # (a') the platform offers exactly the reference keywords (no keyword of another platform or software family)
        if tname in R.REF_KEYWORDS:
            extra, missing = sorted(set(tab) - R.REF_KEYWORDS[tname]), sorted(R.REF_KEYWORDS[tname] - set(tab))
            fact(f"table/{tname}:keywords", not extra and not missing, f"keywords not of this platform: {extra}; missing: {missing}")
        # (b) render -> parse closure inside the table: the name chosen for a number maps back to it (first name wins = _swap, proved)
        first = {}
        for name, nr in tab.items():
            first.setdefault(nr, name)
        for nr, name in first.items():
            fact(f"table/{tname}[{nr}]:closure", tab[name] == nr)
    # (e) every name of every table is a known name for the dstport/option splitter -- evaluated on the real function's source
    src_tables = set()
    modname, fdef, _ = loader.find_function("cisco_acl.port_name.all_known_names")
    for n in ast.walk(fdef):
        if isinstance(n, ast.Name) and n.id in tables:
            src_tables.add(n.id)
    known = set()
    for t in src_tables:
        known |= set(tables[t])
    for name in sorted(all_names):
        fact(f"known_names[{name}]", name in known, f"{name} missing from all_known_names() (reads {sorted(src_tables)})")
    # (f) no name collides with an operator, an address keyword, a log keyword, an option keyword, or is all digits
    reserved = set(hl["OPERATORS"]) | set(R.ADDRESS_KEYWORDS) | set(op["LOGS"]) | set(pr["OPTIONS"]) | {"permit", "deny", "remark"}
    for name in sorted(all_names | set(pr["PROTOCOLS_ANY"])):
        fact(f"nocollision[{name}]", name not in reserved and not name.isdigit() and " " not in name and name == name.lower())
    # protocols
    for plat in PLATFORMS:
        p2n = pr["PROTOCOL_TO_NR"][plat]
        n2p = pr["NR_TO_PROTOCOL"][plat]
        for name, nr in p2n.items():
            want = 0 if name == "ip" else R.REF_PROTO.get(name)
            fact(f"proto/{plat}[{name}]=standard", want == nr and 0 <= nr <= 255, f"{name} -> {nr}, reference {want}")
        for nr, name in n2p.items():
            fact(f"proto/{plat}[{nr}]:closure", pr["PROTOCOLS_ANY"].get(name) == nr)
        # (g) name == "ip" <=> number == 0
        fact(f"proto/{plat}:ip<=>0", n2p.get(0) == "ip" and all(v != "ip" for k, v in n2p.items() if k != 0))
    for name, nr in pr["PROTOCOLS_ANY"].items():
        want = 0 if name == "ip" else R.REF_PROTO.get(name)
        fact(f"proto/ANY[{name}]=standard", want == nr)
    # (d) frame: the getters that render text assign no field
    for q in ("cisco_acl.port.Port.line.fget", "cisco_acl.protocol.Protocol.line.fget", "cisco_acl.protocol.Protocol.name.fget",
              "cisco_acl.port_name.PortName.names", "cisco_acl.port_name.PortName.ports"):
        modname, fdef, _ = loader.find_function(q)
        writes = [ast.unparse(t) for n in ast.walk(fdef) if isinstance(n, (ast.Assign, ast.AugAssign))
                  for t in (n.targets if isinstance(n, ast.Assign) else [n.target]) if isinstance(t, ast.Attribute)]
        fact(f"frame/{q.split('.', 1)[1]}", not writes, f"writes {writes}")
    return facts, tables, pr


def check_constructor(arg):
    """through the real classes, exhaustively: every (platform, version, protocol, name) and every switch setting"""
    import cisco_acl
    from cisco_acl.port_name import PortName
    kind, platform, version, proto, consts_tab = arg
    fails = []

    def bad(key, what):
        fails.append(dict(key=f"bounded/{key}", what=what, inputs=dict(platform=platform, version=version, protocol=proto),
                          cmd=("import sys; sys.path.insert(0, 'props'); import C09\n"
                               f"fails, _ = C09.check_constructor({arg!r})\nprint([f['what'] for f in fails][:5]); sys.exit(1 if fails else 0)\n")))
    n = 0
    if kind == "port":
        pnm = PortName(protocol=proto, platform=platform, version=version)
        names = pnm.names()
        if names != consts_tab:
            bad("PortName.names:selection", f"names() for {platform}/{version}/{proto} is not the table the statement requires")
        ref = R.REF_TCP if proto in ("tcp", "6") else R.REF_UDP
        ports = pnm.ports()
        for name, nr in names.items():
            n += 1
            for port_nr in (False, True):
                try:
                    p = cisco_acl.Port(f"eq {name}", platform=platform, version=version, protocol=proto, port_nr=port_nr)
                except Exception as ex:
                    bad("Port(name):rejected", f"Port('eq {name}') on {platform}/{version}/{proto}: {type(ex).__name__}: {ex}")
                    continue
                if p.items != [ref.get(name)]:
                    bad("Port(name):number", f"'eq {name}' denotes {p.items}, standard number {ref.get(name)}")
                want_line = f"eq {nr}" if port_nr else f"eq {ports[nr]}"
                if p.line != want_line:
                    bad("Port.line:spelling", f"Port('eq {name}', port_nr={port_nr}).line = {p.line!r}, expected {want_line!r}")
                # the rendered text is accepted back and means the same number; the switch changes text only
                q = cisco_acl.Port(p.line, platform=platform, version=version, protocol=proto, port_nr=port_nr)
                if q.items != p.items or q.line != p.line:
                    bad("Port.line:reparse", f"{p.line!r} re-parses to {q.line!r} {q.items}")
                p.port_nr = not port_nr
                if p.items != [nr] or p.ports != [nr]:
                    bad("Port.port_nr:number", f"switching port_nr changed the number of 'eq {name}' to {p.items}")
        # numbers without a name render as digits and parse back
        for nr in (1, 2, 1023, 1024, 65535, 4444):
            if nr in ports:
                continue
            p = cisco_acl.Port(f"eq {nr}", platform=platform, version=version, protocol=proto)
            if p.line != f"eq {nr}" or p.items != [nr]:
                bad("Port(number)", f"'eq {nr}' renders {p.line!r} {p.items}")
    else:
        for token in list(consts_tab) + [str(k) for k in range(256)]:
            n += 1
            for protocol_nr in (False, True):
                try:
                    pr = cisco_acl.Protocol(token, platform=platform, version=version, protocol_nr=protocol_nr)
                except Exception as ex:
                    bad("Protocol:rejected", f"Protocol({token!r}) on {platform}: {type(ex).__name__}: {ex}")
                    continue
                want = int(token) if token.isdigit() else (0 if token == "ip" else R.REF_PROTO.get(token))
                if pr.number != want:
                    bad("Protocol:number", f"Protocol({token!r}) on {platform} has number {pr.number}, standard {want}")
                q = cisco_acl.Protocol(pr.line, platform=platform, version=version, protocol_nr=protocol_nr)
                if q.number != pr.number or q.line != pr.line:
                    bad("Protocol.line:reparse", f"{pr.line!r} re-parses to {q.line!r}/{q.number}")
                if protocol_nr and pr.line != str(pr.number):
                    bad("Protocol.line:switch", f"protocol_nr=True renders {pr.line!r} for number {pr.number}")
                pr.protocol_nr = not protocol_nr
                if pr.number != want:
                    bad("Protocol.protocol_nr:number", f"switching protocol_nr changed the number of {token!r}")
    return fails, n


def check_splitter(arg):
    """every name known to any platform table is recognised as a port (not as an option) by the dstport/option splitter"""
    from cisco_acl import parsers
    names = arg
    fails = []
    for name in names:
        for opts in ("", "ack log", "log"):
            line = f"eq {name} 443 {opts}".strip()
            got = parsers._parse_dstport_option(line)
            want = dict(dstport=f"eq {name} 443", option=opts)
            if got != want:
                fails.append(dict(key="bounded/_parse_dstport_option", what=f"{line!r} split as {got}", inputs=dict(line=line)))
    return fails, len(names)


def check_generated(arg):
    """lines generated by range_ports() for a platform: the keyword chosen for a number is read back by the parser of the same platform as that number"""
    import cisco_acl
    platform, proto, numbers = arg
    fails = []
    for n in numbers:
        for side in ("srcports", "dstports"):
            for port_nr in (False, True):
                try:
                    lines = cisco_acl.range_ports(**{side: str(n)}, line=f"permit {proto} any any", platform=platform, port_nr=port_nr)
                except Exception as ex:
                    fails.append(dict(key="bounded/range_ports:error", what=f"range_ports({side}={str(n)!r}, platform={platform!r}, port_nr={port_nr}) raised {type(ex).__name__}: {ex}",
                                      inputs=dict(platform=platform, protocol=proto, number=n, side=side)))
                    continue
                for line in lines:
                    try:
                        ace = cisco_acl.Ace(line, platform=platform)
                        got = list((ace.srcport if side == "srcports" else ace.dstport).items)
                    except Exception as ex:
                        got = f"{type(ex).__name__}: {ex}"
                    if got != [n]:
                        fails.append(dict(key="bounded/range_ports:keyword-not-read-back", what=f"range_ports({side}={str(n)!r}, platform={platform!r}, port_nr={port_nr}) generated {line!r}, "
                                          f"which the parser of {platform} reads as {got!r}", inputs=dict(platform=platform, protocol=proto, number=n, side=side),
                                          cmd=("import sys; sys.path.insert(0, 'props'); import C09\n"
                                               f"fails, _ = C09.check_generated({(platform, proto, [n])!r})\nprint([f['what'] for f in fails]); sys.exit(1 if fails else 0)\n")))
    return fails, len(numbers)


def check_container(arg):
    """names rendered for entries that live inside containers (ACL, groups) are those of the container's platform and version, also after
    operations that rebuild the entries"""
    import cisco_acl
    platform, version, grouped, op, tcp_names, udp_names = arg
    head = "ip access-list extended A" if platform == "ios" else "ip access-list A"
    lines = ["remark = H1", "permit tcp any any eq 135", "permit tcp any any eq 514", "remark = H2", "permit tcp any eq 15001 any", "permit udp any any eq 521",
             "permit udp any any eq 514"]
    kw = dict(platform=platform, version=version)
    if grouped:
        kw["group_by"] = "= "
    def entries(o):
        for it in o.items:
            if isinstance(it, cisco_acl.AceGroup):
                yield from entries(it)
            elif isinstance(it, cisco_acl.Ace):
                yield it
    texts = []
    fails = []
    try:
        if op.startswith("objects-"):
            # the container is built first, entry objects made without its version are handed to it afterwards (items assignment / constructor argument)
            objs = [cisco_acl.Remark(l, platform=platform) if l.startswith("remark") else cisco_acl.Ace(l, platform=platform) for l in lines]
            kw2 = {k: v for k, v in kw.items() if k != "group_by"}
            if op == "objects-acegroup-assigned":
                box = cisco_acl.AceGroup(**kw2)
                box.items = objs
            elif op == "objects-acegroup-argument":
                box = cisco_acl.AceGroup(items=objs, **kw2)
            elif op == "objects-acl-assigned":
                box = cisco_acl.Acl(name="A", **kw2)
                box.items = objs
            elif op == "objects-acl-holds-acegroup":
                box = cisco_acl.Acl(name="A", **kw2)
                box.items = [cisco_acl.AceGroup(items=objs, platform=platform)]
            elif op == "objects-version-assigned-later":
                box = cisco_acl.Acl("\n".join([head] + [" " + l for l in lines]), platform=platform)
                box.version = version
            else:
                box = cisco_acl.Acl(name="A", items=objs, **kw2)
            texts = [l for l in box.line.splitlines() if not l.startswith("ip access-list")]
            acl = None
        else:
            acl = cisco_acl.Acl("\n".join([head] + [" " + l for l in lines]), **kw)
        if op == "render":
            texts = acl.line.splitlines()[1:]
        elif op == "platform-same":
            acl.platform = platform
            texts = acl.line.splitlines()[1:]
        elif op == "entry-copy":
            texts = [e.copy().line for e in entries(acl)]
        elif op == "entry-port_nr-toggle":
            for e in entries(acl):
                e.port_nr = True
                e.port_nr = False
            texts = [e.line for e in entries(acl)]
        elif op == "group-copy":
            texts = [l for it in acl.items for l in (it.copy().line.splitlines() if isinstance(it, cisco_acl.AceGroup) else [it.line])]
        elif op == "ungroup_ports":
            acl.ungroup_ports()
            texts = acl.line.splitlines()[1:]
    except (ValueError, TypeError, KeyError) as ex:
        # every operation here only rebuilds entries from what the library itself rendered for this platform and version
        fails.append(dict(key="bounded/container:own-names-refused", what=f"{platform}/{version} ({'grouped' if grouped else 'flat'} ACL, {op}): the library refuses "
                                                                            f"the port names it rendered itself: {type(ex).__name__}: {str(ex)[:120]}",
                          inputs=dict(platform=platform, version=version, grouped=grouped, operation=op),
                          cmd=("import sys; sys.path.insert(0, 'props'); import C09\n"
                               f"fails, _ = C09.check_container({arg!r})\nprint([f['what'] for f in fails][:3]); sys.exit(1 if fails else 0)\n")))
    for t in texts:
        toks = t.split()
        if "remark" in toks[:2]:
            continue
        proto = "tcp" if "tcp" in toks else "udp"
        known = tcp_names if proto == "tcp" else udp_names
        for i, tok in enumerate(toks):
            if tok == "eq":
                for w in toks[i + 1:]:
                    if w in ("any", "log") or "." in w or w == "eq":
                        break
                    if not w.isdigit() and w not in known:
                        fails.append(dict(key="bounded/container:name-not-of-this-version", what=f"{platform}/{version} ({'grouped' if grouped else 'flat'} ACL, {op}): "
                                                                                              f"{t.strip()!r} uses the {proto} port keyword {w!r}, which this platform/version does not have",
                                          inputs=dict(platform=platform, version=version, grouped=grouped, operation=op),
                                          cmd=("import sys; sys.path.insert(0, 'props'); import C09\n"
                                               f"fails, _ = C09.check_container({arg!r})\nprint([f['what'] for f in fails][:3]); sys.exit(1 if fails else 0)\n")))
    return fails[:2], 1


def check_alias(arg):
    """what the public getters hand out is the caller's: editing it must not change what the library knows (run in its own process)"""
    import cisco_acl
    from cisco_acl.port_name import PortName
    platform, version, proto = arg
    fails = []
    ref = R.REF_TCP if proto == "tcp" else R.REF_UDP
    pnm = PortName(protocol=proto, platform=platform, version=version)
    before_names, before_ports = dict(pnm.names()), dict(pnm.ports())
    for getter in ("names", "ports"):
        d = getattr(pnm, getter)()
        if isinstance(d, dict) and d:
            k0 = sorted(d, key=str)[0]
            d[k0] = 8080 if getter == "names" else "zzz"       # change an entry
            d.pop(sorted(d, key=str)[-1])                        # remove an entry
            d["mgmt" if getter == "names" else 64999] = 22 if getter == "names" else "mgmt"   # add a private alias
    # a second object and the classes built afterwards still see the standard tables
    again = PortName(protocol=proto, platform=platform, version=version)
    if again.names() != before_names or again.ports() != before_ports:
        changed = sorted(set(before_names.items()) ^ set(again.names().items()))[:4]
        fails.append(dict(key="bounded/PortName:aliased-table", what=f"editing the dict returned by PortName.names()/ports() on {platform}/{version}/{proto} changed "
                                                                     f"the library's own table: {changed}", inputs=dict(platform=platform, version=version, protocol=proto),
                          cmd=("import sys; sys.path.insert(0, 'props'); import C09\n"
                               f"fails, _ = C09.check_alias({arg!r})\nprint([f['what'] for f in fails][:3]); sys.exit(1 if fails else 0)\n")))
    for name, nr in sorted(before_names.items())[:6] + sorted(before_names.items())[-6:]:
        try:
            p = cisco_acl.Port(f"eq {name}", platform=platform, version=version, protocol=proto)
            if p.items != [ref.get(name)]:
                fails.append(dict(key="bounded/PortName:aliased-table", what=f"after a caller edited a returned table, 'eq {name}' denotes {p.items}, standard {ref.get(name)}",
                                  inputs=dict(platform=platform, version=version, protocol=proto, name=name)))
        except Exception as ex:
            fails.append(dict(key="bounded/PortName:aliased-table", what=f"after a caller edited a returned table, 'eq {name}' is rejected: {ex}",
                              inputs=dict(platform=platform, version=version, protocol=proto, name=name)))
    return fails[:3], 1


def main(chk):
    chk.prove(["c_names", "c_parsers"])
    facts, tables, pr = table_facts()
    for oid, ok, why in facts:
        ob = Obligation(oid=f"cisco_acl.{oid}", kind="table", hyps=(), goal=z3.BoolVal(ok), target="cisco_acl.port_name", note=why)
        ob.result, ob.solver = ("PROVED" if ok else "REFUTED"), "exhaustive evaluation over the constants extracted from the source"
        chk.obligations.append(ob)
        if not ok:
            chk.finding(ob.oid, f"table fact fails: {oid}: {why}", inputs=dict(fact=oid), key=f"table/{oid.split('[')[0].split('/')[0]}",
                        cmd=("import sys; sys.path.insert(0, 'props'); import C09\nf = [x for x in C09.table_facts()[0] if x[0] == %r]\nprint(f); sys.exit(0 if f and f[0][1] else 1)\n" % oid))
    consts = loader.module_constants("cisco_acl.port_name")
    t0 = time.time()
    cases = [("port", p, v, proto, expected_table(consts, p, v, proto)) for p in PLATFORMS for v in VERSIONS for proto in ("tcp", "udp", "6", "17")]
    cases += [("proto", p, "0", "", dict(pr["PROTOCOL_TO_NR"][p])) for p in PLATFORMS]
    res = pmap(check_constructor, cases)
    viol = 0
    for fails, _ in res:
        for f in fails:
            viol += 1
            chk.finding(f["key"], f["what"], inputs=f["inputs"], cmd=f["cmd"], key=f["key"])
    chk.add_bounded("real Port / Protocol / PortName over every (platform, version, protocol, name, number, switch)", sum(d for _, d in res) * 2, sum(d for _, d in res),
                    "3 platforms x 6 version strings x {tcp,udp,6,17} x every table name x port_nr; 3 platforms x (every protocol name + 0..255) x protocol_nr",
                    viol, time.time() - t0, [dict(platform="ios", version="15", protocol="tcp", name="syslog")], exhaustive=True)
    t0 = time.time()
    ccases = [(p, v, g, op, sorted(expected_table(consts, p, v.split(".")[0].split("(")[0], "tcp")), sorted(expected_table(consts, p, v.split(".")[0].split("(")[0], "udp")))
              for p, v in (("ios", "15.2(02)SY"), ("ios", "16.09.06"), ("nxos", "9.3")) for g in (False, True)
              for op in ("render", "platform-same", "entry-copy", "entry-port_nr-toggle", "group-copy", "ungroup_ports") + (
                  ("objects-acegroup-assigned", "objects-acegroup-argument", "objects-acl-assigned", "objects-acl-argument", "objects-acl-holds-acegroup",
                   "objects-version-assigned-later") if not g else ())]
    res = pmap(check_container, ccases)
    viol = 0
    for fails, _ in res:
        for f in fails:
            viol += 1
            chk.finding(f["key"], f["what"], inputs=f["inputs"], cmd=f.get("cmd"), key=f["key"])
    chk.add_bounded("port keywords rendered for entries inside ACLs and groups belong to the container's platform/version, also after rebuilding operations", len(ccases), len(ccases),
                    "3 platform/version pairs x flat/grouped x 6 operations on an ACL with version-specific ports (135, 514, 15001, udp 521)", viol, time.time() - t0,
                    [list(ccases[7][:4])], exhaustive=True)
    t0 = time.time()
    acases = [(p, v, proto) for p in PLATFORMS for v in ("0", "15", "16") for proto in ("tcp", "udp")]
    res = pmap(check_alias, acases)
    viol = 0
    for fails, _ in res:
        for f in fails:
            viol += 1
            chk.finding(f["key"], f["what"], inputs=f["inputs"], cmd=f.get("cmd"), key=f["key"])
    chk.add_bounded("tables handed out by PortName.names()/ports() are copies: editing them changes nothing in the library", len(acases), len(acases),
                    "3 platforms x 3 versions x tcp/udp; change, removal and addition of an entry, then a fresh PortName and Port objects", viol, time.time() - t0,
                    [list(acases[0])], exhaustive=True)
    t0 = time.time()
    named = sorted({v for t in tables.values() for v in t.values()})
    numbers = sorted({m for v in named for m in (v - 1, v, v + 1) if 1 <= m <= 65535} | {1, 65535})
    gcases = [(pl, pr, numbers[i::4]) for pl in ("ios", "nxos", "asa") for pr in ("tcp", "udp") for i in range(4)]
    res = pmap(check_generated, gcases)
    viol = 0
    for fails, _ in res:
        for f in fails:
            viol += 1
            chk.finding(f["key"], f["what"], inputs=f["inputs"], cmd=f.get("cmd"), key=f["key"])
    chk.add_bounded("lines generated by range_ports(): the keyword chosen for a number is read back by the same platform's parser as that number", len(numbers) * 24, len(numbers),
                    "every number named in any table and its neighbours x 3 platforms x tcp/udp x source/destination side x names/numbers", viol, time.time() - t0,
                    [list(gcases[0][:2])], exhaustive=True)
    t0 = time.time()
    names = sorted({n for t in tables.values() for n in t})
    res = pmap(check_splitter, [names[i::8] for i in range(8)])
    viol = 0
    for fails, _ in res:
        for f in fails:
            viol += 1
            chk.finding(f["key"], f["what"], inputs=f["inputs"], key=f["key"])
    chk.add_bounded("parsers._parse_dstport_option keeps every table name on the port side", len(names) * 3, len(names), "all names of all tables x 3 option suffixes",
                    viol, time.time() - t0, [names[0]], exhaustive=True)
    chk.assumptions += ["spec/ref_tables.py is the standard (hand transcribed from the Cisco command references / IANA)",
                        "the keyword `ip` is compared with number 0 as the library defines it (see known finding of C01 for the meaning of protocol 0)",
                        "netports.SwVersion(v).major is the leading integer of the version string"]
    return chk.finish(
        "proof",
        "The domain is finite and enumerated completely: one obligation per table entry over the constants extracted from the current source (standard number, "
        "render->parse closure, known to the splitter, no keyword collision, ip<=>0, getters write nothing), plus port_name._swap verified for an arbitrary dict "
        "(first name wins; closure) by pyvc. The real Port/Protocol/PortName classes are then run over every (platform, version, protocol, name, switch).",
        trusted_base=["z3 5.1.0", "pyvc", "spec/ref_tables.py"])


if __name__ == "__main__":
    run("C09", main)
