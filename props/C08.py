"""C08 - Port operators denote exactly the Cisco port sets; views write back losslessly."""
import itertools
import os
import random
import sys
import time

sys.path.insert(0, os.path.dirname(os.path.dirname(os.path.abspath(__file__))))
from pyvc.driver import run, pmap
from spec import portsem

BOUNDARY = [1, 2, 3, 79, 80, 443, 1023, 1024, 65533, 65534, 65535]


def operand_cases(tier):
    """(operator, operands) over boundary values; eq/neq with 1..3 operands (quick) / up to 10 (thorough)"""
    out = []
    for op in ("gt", "lt"):
        out += [(op, (a,)) for a in BOUNDARY]
    for a, b in itertools.product(BOUNDARY, BOUNDARY):
        if a != b:
            out.append(("range", (a, b)))
    out += [("range", (30, 34)), ("range", (1, 10)), ("range", (60, 70)), ("range", (5, 5))]
    for op in ("eq", "neq"):
        out += [(op, (a,)) for a in BOUNDARY]
        out += [(op, (a, b)) for a, b in itertools.combinations(BOUNDARY, 2)]
        out += [(op, (b, a)) for a, b in list(itertools.combinations(BOUNDARY, 2))[::7]]
        out += [(op, t) for t in list(itertools.combinations(BOUNDARY, 3))[::5]]
        out.append((op, tuple(BOUNDARY[:10])))
        # repeated operands: the *meaning* clauses apply (text stability is only claimed for duplicate-free operands)
        out += [(op, (80, 80)), (op, (5, 5, 9)), (op, (10, 10, 20)), (op, (65535, 65535)), (op, (1, 1))]
        # .. as many repeats as there are holes between the lowest and the highest operand (the length of the list equals the width of the span)
        out += [(op, (1, 1, 3)), (op, (7, 7, 7, 10)), (op, (5, 3, 3)), (op, (20, 20, 21, 21, 24, 25)), (op, (65533, 65535, 65535))]
    # every eq tuple of 3 and 4 operands over a small window that repeats an operand, in every order
    out += [("eq", t) for n in (3, 4) for t in itertools.product((1, 2, 3, 4), repeat=n) if len(set(t)) < n]
    if tier == "thorough":
        rnd = random.Random(int(os.environ.get("VERIF_SEED", "0") or 0))
        for _ in range(400):
            op = rnd.choice(["eq", "neq"])
            out.append((op, tuple(rnd.sample(range(1, 65536), rnd.randint(1, 10)))))
        for _ in range(200):
            out.append(("range", (rnd.randint(1, 65535), rnd.randint(1, 65535))))
            out.append((rnd.choice(["gt", "lt"]), (rnd.randint(1, 65535),)))
    return out


def _semantics_and_views(case):
    """contract of Port(line) and of the three writable views, evaluated natively on the real class"""
    from cisco_acl import Port
    op, operands = case
    line = f"{op} " + " ".join(map(str, operands))
    fails = []
    ref = portsem.P(op, operands)
    try:
        p = Port(line, protocol="tcp", port_nr=True)
    except Exception as ex:
        return [dict(key="bounded/Port(line):error", what=f"Port({line!r}) raised {type(ex).__name__}: {ex}", inputs=dict(line=line))], 0
    if frozenset(p.ports) != ref or len(p.ports) != len(set(p.ports)) and op != "eq":
        fails.append(dict(key=f"bounded/Port.ports:{op}", what=f"Port({line!r}).ports != Cisco set (sizes {len(p.ports)} vs {len(ref)})",
                          inputs=dict(line=line)))
    try:
        dec = portsem.dec_ref(p.sport)
    except ValueError as ex:
        dec = None
    if dec != ref:
        fails.append(dict(key=f"bounded/Port.sport:{op}", what=f"Port({line!r}).sport={p.sport[:60]!r} does not encode the port set",
                          inputs=dict(line=line)))
    elif len(set(operands)) == len(operands) and not portsem.is_compact(p.sport, ref):
        fails.append(dict(key=f"bounded/Port.sport.compact:{op}", what=f"Port({line!r}).sport={p.sport[:60]!r} is not the compact form",
                          inputs=dict(line=line)))
    # self-assignment through the three views, all histories of length <= 2 (+ one of length 3)
    text0, ports0, sport0, items0 = p.line, list(p.ports), p.sport, list(p.items)
    histories = [h for n in (1, 2) for h in itertools.product(("items", "ports", "sport"), repeat=n)] + [("sport", "ports", "items")]
    if len(ports0) > 20000:   # neq / wide gt/lt/range: each ports write-back costs seconds -> length-1 histories + one of length 2
        histories = [("items",), ("ports",), ("sport",), ("sport", "ports")]
    for hist in histories:
        q = Port(line, protocol="tcp", port_nr=True)
        try:
            for n_, view in enumerate(hist):
                val = getattr(q, view)
                if view in ("items", "ports") and len(val) < 2000:
                    # the setters accept a set, a list or a tuple: the expression's own values in any container and order
                    val = [val, tuple(val), set(val), list(reversed(val))][(n_ + len(line)) % 4]
                    if len(set(val)) != len(getattr(q, view)):
                        val = getattr(q, view)          # repeated operands cannot be written as a set
                setattr(q, view, val)
            after = (q.line, frozenset(q.ports), q.sport)
        except Exception as ex:
            after = f"{type(ex).__name__}: {ex}"
        dup = len(set(operands)) != len(operands)
        if dup and not isinstance(after, str) and after[1] == frozenset(ports0):
            continue            # repeated operands: meaning kept is all that is claimed
        if after != (text0, frozenset(ports0), sport0):
            obs = after if isinstance(after, str) else after[0]
            cmd = ("import sys; from cisco_acl import Port\n"
                   f"p = Port({line!r}, protocol='tcp', port_nr=True); b = (p.line, sorted(p.ports), p.sport)\n"
                   "try:\n" + "".join(f"    p.{v} = p.{v}\n" for v in hist) + "    a = (p.line, sorted(p.ports), p.sport)\n"
                   "except Exception as ex:\n    a = repr(ex)\nprint(b[0], '->', a if isinstance(a, str) else a[0]); sys.exit(0 if a == b else 1)\n")
            fails.append(dict(key=f"bounded/Port.{hist[0]}.fset:{op}:{'error' if isinstance(after, str) else 'changed'}",
                              what=f"Port({line!r}) after self-assignment of {'/'.join(hist)}: {obs!r}",
                              inputs=dict(line=line, history=list(hist)), cmd=cmd))
            break
    return fails, 1


def _codec(case):
    """range-string codec on one subset: Dec(ports_to_string(S)) == S; string_to_ports decodes to S, ascending"""
    import cisco_acl.helpers as h
    members = case
    fails = []
    s = h.ports_to_string(list(members))
    try:
        dec = portsem.dec_ref(s)
    except ValueError:
        dec = None
    if dec != frozenset(members):
        fails.append(dict(key="bounded/ports_to_string", what=f"ports_to_string({sorted(members)[:12]}..)={s[:60]!r} decodes to a different set",
                          inputs=dict(members=sorted(members))))
    elif members and not portsem.is_compact(s, frozenset(members)):
        fails.append(dict(key="bounded/ports_to_string.compact", what=f"{s[:60]!r} is not compact", inputs=dict(members=sorted(members))))
    back = h.string_to_ports(s)
    if frozenset(back) != frozenset(members) or len(back) != len(members):
        fails.append(dict(key="bounded/string_to_ports.set", what=f"string_to_ports({s[:60]!r}) is not the encoded set",
                          inputs=dict(string=s)))
    elif list(back) != sorted(back):
        cmd = ("import sys; import cisco_acl.helpers as h\n"
               f"r = h.string_to_ports({s!r}); print(r[:20]); sys.exit(0 if r == sorted(r) else 1)\n")
        fails.append(dict(key="bounded/string_to_ports.ascending", what=f"string_to_ports({s[:60]!r}) = {back[:8]}.. is not ascending "
                          "(the ports/range write-back reads ports[0] and ports[-1] as min and max)", inputs=dict(string=s), cmd=cmd))
    return fails, 1


def codec_cases(tier):
    out = []
    for base in (1, 30, 65526):
        universe = list(range(base, base + 10))
        for mask in range(1, 1 << 10):
            out.append(tuple(u for i, u in enumerate(universe) if mask >> i & 1))
    # runs crossing hash-table growth points
    for lo, n in [(1, 5), (30, 5), (30, 6), (60, 10), (120, 20), (250, 40), (1000, 100), (65500, 36), (1, 65535)]:
        out.append(tuple(range(lo, lo + n)))
    if tier == "thorough":
        rnd = random.Random(int(os.environ.get("VERIF_SEED", "0") or 0) + 1)
        for _ in range(3000):
            k = rnd.randint(1, 40)
            lo = rnd.randint(1, 65535 - 200)
            out.append(tuple(sorted(rnd.sample(range(lo, lo + 200), k))))
    return out


def lemmas():
    """L8.unique: two strictly ascending lists with the same members are the same list.  Proved here: the induction step (if the
    first k positions agree, position k agrees) and the length part (if all common positions agree, the lengths agree);
    the induction over k is the usual meta-argument.  Membership is given by witness functions (pa: position in A of B[j])."""
    import z3
    A = z3.Array("A", z3.IntSort(), z3.IntSort())
    B = z3.Array("B", z3.IntSort(), z3.IntSort())
    n, m, i, j, k = z3.Ints("n m i j k")
    pa = z3.Function("pa", z3.IntSort(), z3.IntSort())
    pb = z3.Function("pb", z3.IntSort(), z3.IntSort())
    strictA = z3.ForAll([i, j], z3.Implies(z3.And(0 <= i, i < j, j < n), A[i] < A[j]))
    strictB = z3.ForAll([i, j], z3.Implies(z3.And(0 <= i, i < j, j < m), B[i] < B[j]))
    a_in_b = z3.ForAll([i], z3.Implies(z3.And(0 <= i, i < n), z3.And(0 <= pb(i), pb(i) < m, B[pb(i)] == A[i])))
    b_in_a = z3.ForAll([j], z3.Implies(z3.And(0 <= j, j < m), z3.And(0 <= pa(j), pa(j) < n, A[pa(j)] == B[j])))
    base = [n >= 0, m >= 0, strictA, strictB, a_in_b, b_in_a]
    agree_k = z3.ForAll([i], z3.Implies(z3.And(0 <= i, i < k), A[i] == B[i]))
    agree_all = z3.ForAll([i], z3.Implies(z3.And(0 <= i, i < n, i < m), A[i] == B[i]))
    return [("L8.unique.step", base + [0 <= k, k < n, k < m, agree_k], A[k] == B[k], {}),
            ("L8.unique.length", base + [agree_all], n == m, {})]


def _ref_ports(op, items):
    """the statement of C08 in plain Python: the ports of `op items` within 1..65535"""
    if op == "eq":
        return sorted(p for p in items if 1 <= p <= 65535)
    if op == "neq":
        return [p for p in range(1, 65536) if p not in items]
    if op == "gt":
        return list(range(max(items[0] + 1, 1), 65536))
    if op == "lt":
        return list(range(1, min(items[0], 65536)))
    return list(range(max(min(items), 1), min(max(items), 65535) + 1))


def replay_items_to_ports(model, ob):
    """run the real Port._items_to_ports at the solver's counterexample (operator and operands of the model)"""
    import cisco_acl
    op = str(model.get("self._operator", "")).strip('"')
    n = int(model.get("items.len", 0))
    items = [int(model.get(f"items[{k}]", 0)) for k in range(n)]
    if op not in ("eq", "neq", "gt", "lt", "range") or not items:
        return None
    port = cisco_acl.Port("", protocol="tcp")
    port._operator = op
    got = port._items_to_ports(list(items))
    want = _ref_ports(op, items)
    if got == want:
        return dict(violates=False)
    diff = sorted(set(got) ^ set(want))
    cmd = ("import sys, cisco_acl\n"
           f"p = cisco_acl.Port('', protocol='tcp'); p._operator = {op!r}; got = p._items_to_ports({items!r})\n"
           f"sys.path.insert(0, 'props'); import C08; want = C08._ref_ports({op!r}, {items!r})\n"
           "print(len(got), len(want), sorted(set(got) ^ set(want))[:5]); sys.exit(0 if got == want else 1)\n")
    return dict(violates=True, inputs=dict(operator=op, operands=items), observed=f"{len(got)} ports, e.g. differing {diff[:5]}", expected=f"{len(want)} ports", cmd=cmd,
                what=f"Port._items_to_ports for `{op} {' '.join(map(str, items))}` returns {len(got)} ports, Cisco's definition within 1..65535 gives {len(want)} "
                     f"(first differences {diff[:5]})", key=ob.oid.split("#")[0])


def _operand_zero(arg):
    """operand 0 (accepted by the line parser) for the operators that range over 1..65535: the port list is Cisco's set within 1..65535"""
    import cisco_acl
    op, platform = arg
    try:
        got = cisco_acl.Port(f"{op} 0", protocol="tcp", platform=platform).ports
    except ValueError:
        return [], 0
    want = _ref_ports(op, [0])
    if list(got) != want:
        return [dict(key=f"bounded/Port.line.fset:{op}:operand-0", what=f"Port('{op} 0', platform={platform!r}).ports has {len(got)} ports, Cisco's definition within 1..65535 gives {len(want)}",
                     inputs=dict(line=f"{op} 0", platform=platform),
                     cmd=("import sys; sys.path.insert(0, 'props'); import C08\n"
                          f"fails, _ = C08._operand_zero({arg!r})\nprint([f['what'] for f in fails]); sys.exit(1 if fails else 0)\n"))], 1
    return [], 1


def main(chk):
    # (a few obligations of the neq write-back loop need 10..40 s when all cores are busy: a wider budget than the default 20 s of the quick tier)
    chk.prove(["c_port", "c_codec", "c_port_text"], timeout_s=45 if chk.tier == "quick" else None)
    chk.lemmas(lemmas())
    from pyvc import contract as C_
    C_.REGISTRY["cisco_acl.port.Port._items_to_ports"].replay = replay_items_to_ports
    chk.replay_refuted()
    for name, fn, cases, bound in [
        ("Port('lt 0' / 'gt 0' / 'neq 0'): meaning only", _operand_zero, [(op, pl) for op in ("lt", "gt", "neq") for pl in ("ios", "nxos", "asa")], "3 operators x 3 platforms"),
        ("Port(line) semantics + self-assignment histories through items/ports/sport", _semantics_and_views, operand_cases(chk.tier),
         "5 operators x boundary operands (eq/neq with 1..3 and 10 operands, both operand orders for range) x all view histories of length <= 2"),
        ("range-string codec (helpers.ports_to_string / string_to_ports)", _codec, codec_cases(chk.tier),
         "all non-empty subsets of three 10-element universes (at 1, 30, 65526) + contiguous runs crossing set-table growth points"),
    ]:
        t0 = time.time()
        res = pmap(fn, cases)
        viol = 0
        for fails, _ in res:
            for f in fails:
                viol += 1
                chk.finding(f["key"].split(":")[0], f["what"], inputs=f["inputs"], cmd=f.get("cmd"), key=f["key"])
        chk.add_bounded(name, len(cases), sum(d for _, d in res), bound, viol, time.time() - t0,
                        [repr(c)[:80] for c in cases[:3]], exhaustive=(chk.tier == "quick"))
    chk.assumptions += [
        "pyvc built-in models: range/list/len/comprehension-as-filter (order preserved, membership <=> source and condition), list.remove",
        "Port._operator is one of helpers.OPERATORS and operands are as produced by Port._line__items_to_ints (precondition `valid`)",
        "the text path of the setters is proved for operands written as numbers or as port keywords, over an abstract text model: a "
        "line is its whitespace tokens (ghost WS_LEN/WS_ARR = assumed model of str.split and ' '.join), a decimal token is ISDIGIT/STRINT with the assumed law "
        "int(str(n)) == n (numeric operands >= 1; 0 for lt/gt/neq), a keyword is a key of the ghost table of the expression; sorted() leaves an ascending list unchanged (assumed)",
        "assumed contracts (contracts/c_port_names.py): PortName(protocol, platform, version) stores its arguments and .names() returns the keyword table of that "
        "platform / software family: a finite map to numbers in 1..65535 whose keys are not decimal texts (every table entry is decided in C09)",
        "helpers.ports_to_string (encoder) is proved: the comma tokens of its result denote exactly the given ports, over the abstract token model "
        "(NUMSTR/RNGSTR shaped strings with LO/HI, ','.join as a ghost token list); helpers.string_to_ports / _port_range_min_max (decoder: sets, named tuples, "
        "set iteration order) is an assumed contract stated semantically, checked natively by the bounded codec clauses",
        "lemma L8.unique (strictly ascending lists with the same members are equal): induction step and length part proved, the induction is a meta-argument; "
        "its instance is assumed at the entry of Port.ports.fset",
        "self-assignment contracts require the class invariant of a non-empty Port (operator in OPERATORS, operands valid, ports == meaning of the operands), which the "
        "contract of Port.line.fset establishes",
        "z3 5.1 / cvc5 trusted",
    ]
    return chk.finish(
        "other",
        "Deductive (all operands, no bound): Port._items_to_ports returns exactly the Cisco port set of every operator, ascending "
        "(sound/complete/ascending clauses), and Port._ports_to_items is its inverse on every op-shaped port list (meaning and text "
        "clauses, index safety, the neq removal loop by invariant); the text path for numeric operands: Port._line__items_to_ints (refusals exactly "
        "as Cisco's grammar requires, operands sorted), Port.line.fset (operator, operands, port list == meaning), and Port.items/ports/sport.fset assigned their "
        "own values keep operator, operands and port set; helpers.ports_to_string encodes exactly the given set (run-length loop by invariant). Bounded (labelled, not counted as proved): the string codec and the same setters natively, named "
        "ports included, on the stated grids with an independent decoder.",
        trusted_base=["z3 5.1.0", "cvc5 1.0.3 (fallback)", "pyvc VC generator", "spec/portsem.py reference semantics"])


if __name__ == "__main__":
    run("C08", main)
