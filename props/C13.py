"""C13 - Address containment answers equal true set containment."""
import itertools
import os
import sys
import time

sys.path.insert(0, os.path.dirname(os.path.dirname(os.path.abspath(__file__))))
import z3
from pyvc.driver import run, pmap
from spec import sets, cisco_ref
import C03
import C05

BV = 32


def lemmas():
    out = list(C03.lemmas()[:3])                      # L13.bits.sound / L13.bits.exact / L13.sound
    out += [l for l in C05.lemmas() if l[0].startswith(("L13.closed", "L5.exact"))]
    # L13.exact: for two single wildcards W1=(b1,m1) (bottom) and W2=(b2,m2) (top) described by the C05 contracts,
    #   W1 inside W2  =>  every network of W1 lies inside one network of W2   (witness: the top network selected by the
    #   bottom network's own bits at the top's non-contiguous positions)
    b1, m1, b2, m2, s1 = z3.BitVecs("b1 m1 b2 m2 s1", BV)
    r1, r2 = z3.Ints("r1 r2")

    def low(rr):
        t = z3.BitVecVal(0, BV)
        for c in range(32, -1, -1):
            t = z3.If(rr == c, z3.BitVecVal((1 << c) - 1, BV), t)
        return t

    def trailing(m, r):
        return z3.And(0 <= r, r <= 32, (m & low(r)) == low(r), z3.Or(r == 32, (m & (low(r) + 1)) == 0))
    p1, p2 = b1 & ~m1, b2 & ~m2
    nc1, nc2 = m1 & ~low(r1), m2 & ~low(r2)
    closed = z3.And((m1 & ~m2) == 0, (p1 & ~m2) == p2)
    bottom_net = p1 | s1
    hy = [trailing(m1, r1), trailing(m2, r2), closed, (s1 & ~nc1) == 0]
    out.append(("L13.exact.length", hy, r1 <= r2, {"m1": m1, "m2": m2}))
    out.append(("L13.exact.inside", hy, (bottom_net & ~low(r2)) == (p2 | (bottom_net & nc2)), {"b1": b1, "m1": m1, "b2": b2, "m2": m2, "s1": s1}))
    return out


# ---------------------------------------------------------------------------------------------- bounded stand-in
SPELL = {
    "ios": ["any", "host 10.0.0.1", "10.0.0.1 0.0.0.0", "10.0.0.1/32", "10.0.0.0 0.0.0.255", "10.0.0.0/24", "10.0.0.77 0.0.0.255", "10.0.0.0 0.0.1.255",
            "10.0.0.0 0.0.1.3", "10.0.0.0 0.0.3.3", "10.0.1.0 0.0.0.3", "10.0.0.0 0.0.0.3", "10.0.0.0 0.255.0.0", "10.1.0.0 0.0.0.0", "0.0.0.0 255.255.255.255",
            "0.0.0.0/0", "10.0.0.0 0.0.2.3", "10.0.2.0 0.0.0.3", "10.0.0.0 0.0.1.2", "128.0.0.0 127.255.255.255", "0.0.0.0 127.255.255.255",
            "0.0.0.1 128.0.0.0", "host 128.0.0.1", "10.0.0.0 192.0.0.255", "10.0.0.0 64.0.0.255"],
    "nxos": ["any", "10.0.0.1/32", "host 10.0.0.1", "10.0.0.1 0.0.0.0", "10.0.0.0/24", "10.0.0.0 0.0.0.255", "10.0.0.77/24", "10.0.0.0/23",
             "10.0.0.0 0.0.1.3", "10.0.0.0 0.0.3.3", "10.0.1.0/30", "10.0.0.0/30", "10.0.0.0 0.255.0.0", "10.1.0.0/32", "0.0.0.0/0",
             "0.0.0.0 255.255.255.255", "10.0.0.0 0.0.2.3", "10.0.2.0/30", "10.0.0.0 0.0.1.2", "128.0.0.0/1", "0.0.0.0/1",
             "0.0.0.1 128.0.0.0", "128.0.0.1/32", "10.0.0.0 192.0.0.255", "10.0.0.0 64.0.0.255"],
}


def ref_cubes(text, platform):
    c, _, _ = cisco_ref.read_address(text.split(), 0, platform, None)
    return c


def check_pair(arg):
    import cisco_acl
    from cisco_acl import functions as f
    platform, ta, tb = arg
    fails = []
    try:
        a = cisco_acl.Address(ta, platform=platform, max_ncwb=30)
        b = cisco_acl.Address(tb, platform=platform, max_ncwb=30)
    except Exception as ex:
        return [dict(key="bounded/Address:error", what=f"{type(ex).__name__}: {ex}", inputs=dict(a=ta, b=tb, platform=platform))], 1
    want = sets.union_subset(ref_cubes(ta, platform), ref_cubes(tb, platform)) is None
    for name, got in (("Address.subnet_of", a.subnet_of(b)), ("functions.subnet_of", f.subnet_of(top=b, bottom=a))):
        if bool(got) != want:
            fails.append(dict(key=f"bounded/{name}:{'missed' if want else 'wrong-yes'}", what=f"{ta!r} subnet of {tb!r} on {platform}: {name} says {got}, set containment is {want}",
                              inputs=dict(bottom=ta, top=tb, platform=platform),
                              cmd=("import sys; sys.path.insert(0, 'props'); import C13\n"
                                   f"fails, _ = C13.check_pair({arg!r})\nprint([f['what'] for f in fails]); sys.exit(1 if fails else 0)\n")))
    return fails, 1


AG = {
    "ios": ["host 10.0.0.1", "10.0.0.0 255.255.255.0", "10.0.0.0 255.255.254.0", "10.0.1.0 255.255.255.252", "10.0.0.0 255.255.255.252", "10.0.0.0/24", "10.0.0.1/32",
            "10.0.2.0 255.255.255.0", "128.0.0.0 128.0.0.0", "0.0.0.0 128.0.0.0"],
    "nxos": ["host 10.0.0.1", "10.0.0.0/24", "10.0.0.0/23", "10.0.1.0/30", "10.0.0.0/30", "10.0.0.0 0.0.0.255", "10.0.0.1/32", "10.0.2.0/24", "128.0.0.0/1", "0.0.0.0/0"],
}


def check_member(arg):
    """`in` between address-group members and between a member and a group"""
    import cisco_acl
    platform, i, j, grp = arg
    fails = []
    texts = AG[platform]
    mk = lambda t: cisco_acl.AddressAg(t, platform=platform)
    cubes = lambda t: ref_cubes(t, platform) if platform == "nxos" else cisco_ref.read_address(t.split(), 0, platform, None, mask_is_subnet=True)[0]
    a, b = mk(texts[i]), mk(texts[j])
    want = sets.union_subset(cubes(texts[i]), cubes(texts[j])) is None
    try:
        got = a in b
    except Exception as ex:
        got = f"{type(ex).__name__}: {ex}"
    if got is not want:
        fails.append(dict(key="bounded/AddressAg.__contains__", what=f"{texts[i]!r} in {texts[j]!r} ({platform}) = {got}, containment is {want}",
                          inputs=dict(member=texts[i], other=texts[j], platform=platform)))
    # member in group  <=>  some member of the group contains it
    head = "object-group network G" if platform == "ios" else "object-group ip address G"
    members = [texts[k] for k in grp]
    g = cisco_acl.AddrGroup("\n".join([head] + members), platform=platform)
    want_g = any(sets.union_subset(cubes(texts[i]), cubes(m)) is None for m in members)
    try:
        got_g = a in g
    except Exception as ex:
        got_g = f"{type(ex).__name__}: {ex}"
    if got_g is not want_g:
        fails.append(dict(key="bounded/AddrGroup.__contains__", what=f"{texts[i]!r} in group {members} ({platform}) = {got_g}, expected {want_g}",
                          inputs=dict(member=texts[i], group=members, platform=platform)))
    for f_ in fails:
        f_["cmd"] = ("import sys; sys.path.insert(0, 'props'); import C13\n"
                     f"fails, _ = C13.check_member({arg!r})\nprint([f['what'] for f in fails]); sys.exit(1 if fails else 0)\n")
    return fails, 1


GROUP_MEMBERS = [["10.0.0.0/30"], ["10.0.0.0/30", "192.168.1.0/24"], ["10.0.0.0/24"], ["10.0.0.0/25", "10.0.0.128/25"], []]


def check_group_pair(arg):
    """grouped addresses: a positive answer implies true containment (same or different group names, any members); and
    after in-place edits of the member lists the answers are those of freshly built objects"""
    import cisco_acl
    from cisco_acl import functions as f
    platform, na, ia, nb, ib = arg
    kw = "object-group" if platform == "ios" else "addrgroup"

    def mk(name, members):
        a_ = cisco_acl.Address(f"{kw} {name}", platform=platform)
        a_.items = [cisco_acl.Address(m if platform == "nxos" else cisco_acl.Address(m, platform="nxos").wildcard, platform=platform) for m in members]
        return a_

    def cubes(members):
        return [c for m in members for c in ref_cubes(m, "nxos")]
    cmd = ("import sys; sys.path.insert(0, 'props'); import C13\n"
           f"fails, _ = C13.check_group_pair({arg!r})\nprint([f['what'] for f in fails]); sys.exit(1 if fails else 0)\n")
    fails = []
    a, b = mk(na, GROUP_MEMBERS[ia]), mk(nb, GROUP_MEMBERS[ib])
    contained = sets.union_subset(cubes(GROUP_MEMBERS[ia]), cubes(GROUP_MEMBERS[ib])) is None
    for name, got in (("Address.subnet_of", a.subnet_of(b)), ("functions.subnet_of", f.subnet_of(top=b, bottom=a))):
        if got and not contained:
            fails.append(dict(key=f"bounded/{name}:group:wrong-yes", what=f"group {na}{GROUP_MEMBERS[ia]} reported as subnet of group {nb}{GROUP_MEMBERS[ib]} ({platform}) but is not contained",
                              inputs=dict(platform=platform, bottom=[na, GROUP_MEMBERS[ia]], top=[nb, GROUP_MEMBERS[ib]]), cmd=cmd))
    for ja, jb in ((ib, ia), (ia, (ib + 1) % 5), ((ia + 2) % 5, ib)):
        a.items.clear()
        a.items.extend(mk(na, GROUP_MEMBERS[ja]).items)
        b.items.clear()
        b.items.extend(mk(nb, GROUP_MEMBERS[jb]).items)
        got2 = a.subnet_of(b)
        fresh = mk(na, GROUP_MEMBERS[ja]).subnet_of(mk(nb, GROUP_MEMBERS[jb]))
        if got2 != fresh:
            fails.append(dict(key="bounded/Address.subnet_of:group:stale-after-edit",
                              what=f"after editing the member lists in place ({GROUP_MEMBERS[ja]} in {GROUP_MEMBERS[jb]}) subnet_of says {got2}, freshly built objects say {fresh}",
                              inputs=dict(platform=platform, first=[GROUP_MEMBERS[ia], GROUP_MEMBERS[ib]], then=[GROUP_MEMBERS[ja], GROUP_MEMBERS[jb]]), cmd=cmd))
            break
    return fails, 1


IN_MEMBERS = {"ios": [["host 10.0.0.1"], ["host 10.0.0.1", "host 99.0.0.1"], ["10.0.0.0 255.255.255.0"], ["10.0.0.0 255.255.255.128", "10.0.0.128 255.255.255.128"],
                      ["10.0.0.0 255.255.254.0"], ["host 99.0.0.1", "host 10.0.0.1"]],
              "nxos": [["10.0.0.1/32"], ["10.0.0.1/32", "99.0.0.1/32"], ["10.0.0.0/24"], ["10.0.0.0/25", "10.0.0.128/25"], ["10.0.0.0/23"], ["99.0.0.1/32", "10.0.0.1/32"]]}


def check_in_groups(arg):
    """the `in` operator with grouped operands on either side: a positive answer implies that every address of the left operand belongs to the right one
    (TypeError - the documented refusal for operands without a single network - is not an answer)"""
    import cisco_acl
    platform, kind_l, il, kind_r, ir = arg
    M = IN_MEMBERS[platform]
    head = "object-group network " if platform == "ios" else "object-group ip address "
    g = "object-group" if platform == "ios" else "addrgroup"
    cubes = lambda ms: [c for m in ms for c in cisco_ref.read_address(m.split(), 0, platform, None, mask_is_subnet=(platform == "ios"))[0]]

    def mk(kind, ms, name):
        if kind == "AddrGroup":
            return cisco_acl.AddrGroup("\n".join([head + name] + ms), platform=platform)
        if kind == "AddressAg":
            return cisco_acl.AddressAg(ms[0], platform=platform)
        if kind == "Address-group":
            a = cisco_acl.Address(f"{g} {name}", platform=platform)
            a.items = [cisco_acl.Address(cisco_acl.AddressAg(m, platform=platform).prefix, platform=platform) for m in ms]
            return a
        return cisco_acl.Address(cisco_acl.AddressAg(ms[0], platform=platform).prefix, platform=platform)
    if kind_l in ("AddressAg", "Address") and len(M[il]) > 1 or kind_r in ("AddressAg", "Address") and len(M[ir]) > 1:
        return [], 0
    if ("Address" in kind_l and "Address" not in kind_r.replace("AddressAg", "")) and kind_l != "AddressAg":
        pass
    left, right = mk(kind_l, M[il], "L"), mk(kind_r, M[ir], "R")
    try:
        got = left in right
    except TypeError:
        return [], 1
    except Exception as ex:
        got = f"{type(ex).__name__}: {ex}"
    want = sets.union_subset(cubes(M[il]), cubes(M[ir])) is None
    if got is True and not want or not isinstance(got, bool):
        return [dict(key=f"bounded/{kind_r}.__contains__:grouped:{'wrong-yes' if got is True else 'error'}",
                     what=f"{platform}: {kind_l}{M[il]} in {kind_r}{M[ir]} = {got}, but not every address of the left side belongs to the right side",
                     inputs=dict(platform=platform, left=[kind_l, M[il]], right=[kind_r, M[ir]]),
                     cmd=("import sys; sys.path.insert(0, 'props'); import C13\n"
                          f"fails, _ = C13.check_in_groups({arg!r})\nprint([f['what'] for f in fails]); sys.exit(1 if fails else 0)\n"))], 1
    return [], 1


def check_group_gap(arg):
    """a group whose members sit at the two ends of a block: the block itself starts in one member and ends in the other, but is not covered"""
    import ipaddress
    import cisco_acl
    base, blen, mlen = arg
    block = ipaddress.IPv4Network((base >> (32 - blen) << (32 - blen), blen))
    subs = list(block.subnets(new_prefix=mlen))
    members = [subs[0], subs[-1]]
    top = cisco_acl.Address("addrgroup T", platform="nxos")
    top.items = [cisco_acl.Address(str(m), platform="nxos") for m in members]
    fails = []
    for b in [block, subs[0], subs[-1], subs[1], ipaddress.IPv4Network((int(block.network_address), 32)), ipaddress.IPv4Network((int(block.broadcast_address), 32))] + list(block.subnets(prefixlen_diff=1)):
        want = any(b.subnet_of(m) for m in members)
        for name, got in (("Address.subnet_of", cisco_acl.Address(str(b), platform="nxos").subnet_of(top)),
                          ("helpers.subnet_of", cisco_acl.helpers.subnet_of(tops=list(members), bottoms=[b]))):
            if bool(got) != want:
                fails.append(dict(key=f"bounded/{name}:group-with-gap:{'wrong-yes' if got else 'missed'}", what=f"{b} against the group {[str(m) for m in members]}: {name} says {got}, containment in one member is {want}",
                                  inputs=dict(bottom=str(b), group=[str(m) for m in members]),
                                  cmd=("import sys; sys.path.insert(0, 'props'); import C13\n"
                                       f"fails, _ = C13.check_group_gap({arg!r})\nprint([f['what'] for f in fails][:3]); sys.exit(1 if fails else 0)\n")))
    # bottoms that are several networks themselves (a third member / the networks of a non-contiguous wildcard between the two ends): the ends lie in
    # the group, the middle does not; a positive answer would not be containment (R13-S13)
    if len(subs) >= 3:
        itop = cisco_acl.Address("object-group T", platform="ios")
        itop.items = [cisco_acl.Address(f"{m.network_address} {m.hostmask}", platform="ios") for m in members]
        bgrp = cisco_acl.Address("object-group B", platform="ios")
        bgrp.items = [cisco_acl.Address(f"{m.network_address} {m.hostmask}", platform="ios") for m in (subs[0], subs[1], subs[-1])]
        wild = ((1 << (mlen - blen)) - 1) << (32 - mlen)
        bwild = cisco_acl.Address(f"{block.network_address} {ipaddress.IPv4Address(wild)}", platform="ios")
        for label, bottom in (("three-member group", bgrp), (f"wildcard {bwild.line}", bwild)):
            for name, got in (("Address.subnet_of", bottom.subnet_of(itop)), ("functions.subnet_of", cisco_acl.functions.subnet_of(top=itop, bottom=bottom))):
                if got:
                    fails.append(dict(key=f"bounded/{name}:group-with-gap:wrong-yes:multi-network-bottom", what=f"{label} (first and last network inside, the middle outside) against the group {[str(m) for m in members]}: {name} says True",
                                      inputs=dict(bottom=label, group=[str(m) for m in members]),
                                      cmd=("import sys; sys.path.insert(0, 'props'); import C13\n"
                                           f"fails, _ = C13.check_group_gap({arg!r})\nprint([f['what'] for f in fails][:4]); sys.exit(1 if fails else 0)\n")))
    return fails[:4], 1


def check_group_random(seed):
    """seeded groups whose members have different prefix lengths, anywhere in the address space, against single networks:
    crafted near misses (the leading bits of one member read at another member's length), true sub-networks, random ones"""
    import random
    import ipaddress
    import cisco_acl
    rnd = random.Random(seed)
    fails, done = [], 0
    for _ in range(40):
        lens = rnd.sample(range(4, 31), rnd.randint(2, 3))
        members = []
        for l in lens:
            a = rnd.getrandbits(32) & (0xFFFFFFFF << (32 - l)) & 0xFFFFFFFF
            members.append(ipaddress.IPv4Network((a, l)))
        bottoms = []
        for m in members:
            for n in members:
                if n.prefixlen != m.prefixlen:
                    bits = int(m.network_address) >> (32 - m.prefixlen)
                    l2 = n.prefixlen
                    if bits < (1 << l2):
                        bottoms.append(ipaddress.IPv4Network((bits << (32 - l2), l2)))            # m's bits read as a /l2
                    bottoms.append(ipaddress.IPv4Network(((int(m.network_address) >> (32 - min(l2, m.prefixlen))) << (32 - min(l2, m.prefixlen)), min(l2, m.prefixlen))))
            sub_l = min(32, m.prefixlen + rnd.randint(0, 3))
            bottoms.append(ipaddress.IPv4Network((int(m.network_address) | (rnd.getrandbits(32 - m.prefixlen) >> (32 - sub_l) << (32 - sub_l) if m.prefixlen < 32 else 0), sub_l)))
            bottoms.append(ipaddress.IPv4Network((int(m.network_address), 32)))
        for m in members:
            for n in members:
                if m is not n:
                    # the smallest network that starts inside one member and ends inside another (the gap between them is not covered)
                    sup = m
                    while not (n.subnet_of(sup)) and sup.prefixlen > 0:
                        sup = sup.supernet()
                    bottoms.append(sup)
                    lo, hi = sorted((m, n), key=lambda x: int(x.network_address))
                    span_l = 32 - max(1, (int(hi.broadcast_address) ^ int(lo.network_address)).bit_length())
                    cand = ipaddress.IPv4Network((int(lo.network_address) >> (32 - span_l) << (32 - span_l), span_l)) if span_l >= 0 else None
                    if cand is not None and int(cand.network_address) == int(lo.network_address) and int(cand.broadcast_address) == int(hi.broadcast_address):
                        bottoms.append(cand)              # first address in one member, last address in the other
        bottoms.append(ipaddress.IPv4Network((rnd.getrandbits(32), 32)))
        top = cisco_acl.Address("addrgroup T", platform="nxos")
        top.items = [cisco_acl.Address(str(m), platform="nxos") for m in members]
        for b in bottoms:
            done += 1
            want = any(b.subnet_of(m) for m in members)
            got = cisco_acl.Address(str(b), platform="nxos").subnet_of(top)
            if got != want:
                fails.append(dict(key=f"bounded/Address.subnet_of:group:{'wrong-yes' if got else 'missed'}:mixed-lengths",
                                  what=f"{b} in group {[str(m) for m in members]}: subnet_of says {got}, containment in one member is {want}",
                                  inputs=dict(bottom=str(b), group=[str(m) for m in members]),
                                  cmd=("import sys; sys.path.insert(0, 'props'); import C13\n"
                                       f"fails, _ = C13.check_group_random({seed!r})\nprint([f['what'] for f in fails][:3]); sys.exit(1 if fails else 0)\n")))
                if len(fails) > 3:
                    return fails, done
    return fails, done


def check_wild_random(seed):
    """seeded pairs of wildcards whose free bits are drawn from the whole 32-bit word (at most 6 each), related by construction half of the time;
    also as the only member / one of two members of a grouped address (positive answers must be true containment)"""
    import random
    import cisco_acl
    rnd = random.Random(seed)
    fails, done = [], 0
    quad = lambda v: ".".join(str((v >> s_) & 255) for s_ in (24, 16, 8, 0))
    for _ in range(60):
        mb = 0
        for c in rnd.sample(range(32), rnd.randint(0, 6)):
            mb |= 1 << c
        base_b = rnd.getrandbits(32) & ~mb & 0xFFFFFFFF
        if rnd.random() < 0.5:       # a top built around the bottom: some more free bits, maybe one fixed bit flipped
            mt = mb
            for c in rnd.sample(range(32), rnd.randint(0, 2)):
                mt |= 1 << c
            base_t = base_b & ~mt & 0xFFFFFFFF
            if rnd.random() < 0.3:
                fixed = [c for c in range(32) if not (mt >> c) & 1]
                if fixed:
                    base_t ^= 1 << rnd.choice(fixed)
            if rnd.random() < 0.3 and mt:
                mt &= ~(1 << rnd.choice([c for c in range(32) if (mt >> c) & 1]))      # drop one free bit: bottom may stick out
                base_t &= ~mt & 0xFFFFFFFF
        else:
            mt = 0
            for c in rnd.sample(range(32), rnd.randint(0, 6)):
                mt |= 1 << c
            base_t = rnd.getrandbits(32) & ~mt & 0xFFFFFFFF
        ta, tb = f"{quad(base_b)} {quad(mb)}", f"{quad(base_t)} {quad(mt)}"
        want = (mb & ~mt) == 0 and ((base_b ^ base_t) & ~mt & 0xFFFFFFFF) == 0
        platform = rnd.choice(["ios", "nxos"])
        done += 1
        try:
            a = cisco_acl.Address(ta, platform=platform, max_ncwb=30)
            b = cisco_acl.Address(tb, platform=platform, max_ncwb=30)
            got = a.subnet_of(b)
            g = "object-group" if platform == "ios" else "addrgroup"
            grp = cisco_acl.Address(f"{g} T", platform=platform, max_ncwb=30)
            grp.items = [cisco_acl.Address(tb, platform=platform, max_ncwb=30), cisco_acl.Address("host 203.0.113.7" if platform == "ios" else "203.0.113.7/32", platform=platform)]
            got_g = a.subnet_of(grp)
        except Exception as ex:
            fails.append(dict(key=f"bounded/Address.subnet_of:wildcards:error:{type(ex).__name__}", what=f"{ta!r} / {tb!r} ({platform}): {type(ex).__name__}: {ex}",
                              inputs=dict(bottom=ta, top=tb, platform=platform)))
            continue
        want_g = want or (mb == 0 and base_b == (203 << 24 | 0 << 16 | 113 << 8 | 7))
        for name, g_, w_ in (("wildcards", got, want), ("wildcards-in-group", got_g, want_g)):
            if bool(g_) != w_ and (name == "wildcards" or g_):
                fails.append(dict(key=f"bounded/Address.subnet_of:{name}:{'wrong-yes' if g_ else 'missed'}",
                                  what=f"{ta!r} subnet of {tb!r}{' (as a member of a group)' if name != 'wildcards' else ''} on {platform}: {g_}, set containment is {w_}",
                                  inputs=dict(bottom=ta, top=tb, platform=platform)))
        if len(fails) > 3:
            break
    for f_ in fails:
        f_["cmd"] = ("import sys; sys.path.insert(0, 'props'); import C13\n"
                     f"fails, _ = C13.check_wild_random({seed!r})\nprint([f['what'] for f in fails][:3]); sys.exit(1 if fails else 0)\n")
    return fails, done


def main(chk):
    chk.prove(["c_helpers", "c_shadow", "c_address"])
    chk.lemmas(lemmas())
    for name, fn, cases, bound in [
        ("Address.subnet_of / functions.subnet_of == set containment", check_pair,
         [(p, a, b) for p in ("ios", "nxos") for a in SPELL[p] for b in SPELL[p]],
         "all ordered pairs of 25 address spellings per platform (incl. wildcards with bit 31 free) (host / /32 / zero mask / prefix on ios / wildcard on nxos / base with host bits / non-contiguous)"),
        ("AddressAg in AddressAg, AddressAg in AddrGroup", check_member,
         [(p, i, j, g) for p in ("ios", "nxos") for i in range(len(AG[p])) for j in range(len(AG[p])) for g in ((j,), (j, (j + 3) % len(AG[p])), (1, 7), (9, 3))],
         "all ordered pairs of 10 member spellings per platform (incl. the whole address space on nxos, a /1 on ios) x 4 group compositions"),
        ("grouped addresses (same / different group names, any members): a positive answer implies containment", check_group_pair,
         [(p, na, ia, nb, ib) for p in ("ios", "nxos") for na in ("WEB", "DB") for nb in ("WEB", "DB") for ia in range(5) for ib in range(5)],
         "2 group names x 5 member lists on each side, both platforms"),
    ]:
        t0 = time.time()
        res = pmap(fn, cases)
        viol = 0
        for fails, _ in res:
            for f in fails:
                viol += 1
                chk.finding(f["key"], f["what"], inputs=f["inputs"], cmd=f.get("cmd"), key=f["key"])
        chk.add_bounded(name, len(cases), len(cases), bound, viol, time.time() - t0, [list(cases[5])], exhaustive=True)
    t0 = time.time()
    seeds = [chk.seed * 1000 + i for i in range(16 if chk.tier == "quick" else 160)]
    res = pmap(check_group_random, seeds)
    viol = 0
    for fails, _ in res:
        for f in fails:
            viol += 1
            chk.finding(f["key"], f["what"], inputs=f["inputs"], cmd=f.get("cmd"), key=f["key"])
    chk.add_bounded("single networks against groups whose members have different prefix lengths (crafted near misses, sub-networks, hosts)", sum(d for _, d in res),
                    sum(d for _, d in res), f"{len(seeds)} x 40 seeded groups of 2..3 members with distinct prefix lengths 4..30", viol, time.time() - t0, [seeds[0]], exhaustive=False)
    t0 = time.time()
    gcases = [(b, bl, ml) for b in (0x0A020000, 0xC0A80000, 0x00000000, 0xFFFF0000) for bl, ml in ((24, 30), (24, 26), (16, 24), (22, 23), (30, 32), (8, 16))]
    res = pmap(check_group_gap, gcases)
    viol = 0
    for fails, _ in res:
        for f in fails:
            viol += 1
            chk.finding(f["key"], f["what"], inputs=f["inputs"], cmd=f.get("cmd"), key=f["key"])
    chk.add_bounded("groups whose two members sit at the ends of a block: the block, its halves, its end addresses, and bottoms of several networks (third member, non-contiguous wildcard) whose ends lie inside and whose middle lies outside", len(gcases), len(gcases),
                    "4 bases x 6 (block, member) length pairs", viol, time.time() - t0, [list(gcases[0])], exhaustive=True)
    t0 = time.time()
    icases = [(p, kl, il, kr, ir) for p in ("ios", "nxos") for kl, kr in (("AddrGroup", "AddrGroup"), ("AddrGroup", "AddressAg"), ("AddressAg", "AddrGroup"),
                                                                           ("Address-group", "Address"), ("Address-group", "Address-group"), ("Address", "Address-group"))
              for il in range(6) for ir in range(6)]
    res = pmap(check_in_groups, icases)
    viol = 0
    for fails, _ in res:
        for f in fails:
            viol += 1
            chk.finding(f["key"], f["what"], inputs=f["inputs"], cmd=f.get("cmd"), key=f["key"])
    chk.add_bounded("`in` with grouped operands: a positive answer implies true containment", len(icases), sum(d for _, d in res),
                    "6 member lists on each side x 6 operand-kind pairs (AddrGroup, AddressAg, Address with members, plain Address) x 2 platforms", viol, time.time() - t0,
                    [list(icases[1])], exhaustive=True)
    t0 = time.time()
    wseeds = [chk.seed * 1000 + 500 + i for i in range(16 if chk.tier == "quick" else 160)]
    res = pmap(check_wild_random, wseeds)
    viol = 0
    for fails, _ in res:
        for f in fails:
            viol += 1
            chk.finding(f["key"], f["what"], inputs=f["inputs"], cmd=f.get("cmd"), key=f["key"])
    chk.add_bounded("pairs of wildcards with free bits anywhere in the 32-bit word (related by construction half of the time), alone and as group members", sum(d for _, d in res),
                    sum(d for _, d in res), f"{len(wseeds)} x 60 seeded pairs, at most 6 free bits each, both platforms", viol, time.time() - t0, [wseeds[0]], exhaustive=False)
    chk.assumptions += [
        "ipaddress.IPv4Network.subnet_of == prefix containment (L13.bits.* are stated over that definition)",
        "AddressBase.ipnets is verified structurally (single network / the wildcard's networks / union over group members); which networks a wildcard has is C05",
        "AddrGroup.__contains__ uses user-defined __eq__ on members: bounded stand-in only; spelling/classification by Address.line.fset: bounded only",
    ]
    return chk.finish(
        "other",
        "Deductive: helpers.subnet_of, functions.subnet_of, AddressBase.subnet_of exact over the networks of both sides; AddressBase.ipnets structural contract "
        "(loop invariant over group members); AddressBase.__contains__ exact for members with a network. Lemmas: L13.sound (network-wise => set-wise), L13.bits.* "
        "(prefix containment <=> address inclusion), L13.closed.*, L13.exact.* (single wildcards: set inclusion => every bottom network inside one top network), "
        "L5.exact.* (networks of a wildcard cover it exactly). Bounded (labelled): all spelling pairs on both platforms, group membership.",
        trusted_base=["z3 5.1.0", "pyvc", "spec/sets.py", "spec/cisco_ref.py"])


if __name__ == "__main__":
    run("C13", main)
