"""C05 - Wildcard -> prefixes is exact; limits reject, never truncate; no stale results."""
import ast
import itertools
import os
import sys
import time

sys.path.insert(0, os.path.dirname(os.path.dirname(os.path.abspath(__file__))))
import z3
from pyvc.driver import run, pmap
from pyvc import loader
from spec import sets

BV = 32


# ---------------------------------------------------------------------------------------------- lemmas (bit vectors, 32 bit)
def lemmas():
    """L5.*: the networks described by the contracts of _create_prefix/_create_ncwb/ipnets cover W(b, m) exactly."""
    out = []
    b, m, x, s1, s2 = z3.BitVecs("b m x s1 s2", BV)
    r = z3.Int("r")
    ones = z3.BitVecVal(0xFFFFFFFF, BV)

    def low(rr):    # 2^r - 1 as word, r Int in 0..32
        t = z3.BitVecVal(0, BV)
        for c in range(32, -1, -1):
            t = z3.If(rr == c, z3.BitVecVal((1 << c) - 1, BV), t)
        return t
    lowm = low(r)
    # r trailing ones (contract `prefixlen` of _create_ncwb): bits below r set, bit r clear
    trailing = z3.And(0 <= r, r <= 32, (m & lowm) == lowm, z3.Or(r == 32, (m & (lowm + 1)) == 0))
    nc = m & ~lowm                 # the non-contiguous wildcard bits (contract ncwb.sound/complete: exactly the set bits above r)
    p = b & ~m                     # contract `masked` of _create_prefix
    in_w = (x & ~m) == p           # x in W(b, m): agrees with the base on all non-wildcard bits
    in_net = lambda s: (x & ~lowm) == (p | s)      # x in the network (p | s)/(32-r)
    sub = lambda s: (s & ~nc) == 0
    # L5.exact: x in W(b,m)  <=>  exists S subset of nc: x in net(p|S, 32-r)      (witness S := x & nc)
    out.append(("L5.exact.cover", [trailing, in_w], z3.And(sub(x & nc), in_net(x & nc)), {"b": b, "m": m, "x": x}))
    out.append(("L5.exact.sound", [trailing, sub(s1), in_net(s1)], in_w, {"b": b, "m": m, "x": x, "s": s1}))
    # L5.disjoint: two different subsets give disjoint networks
    out.append(("L5.disjoint", [trailing, sub(s1), sub(s2), s1 != s2, in_net(s1)], z3.Not(in_net(s2)), {"m": m, "s1": s1, "s2": s2}))
    # L5.nohost: generated network addresses have no host bits (so IPv4Network accepts them)
    out.append(("L5.nohost", [trailing, sub(s1)], ((p | s1) & lowm) == 0, {}))
    # L5.single: one network  <=>  contiguous mask  (contract of _create_ipnet: None iff m & (m+1) != 0)
    out.append(("L5.single.fwd", [trailing, nc == 0], (m & (m + 1)) == 0, {"m": m}))
    out.append(("L5.single.bwd", [trailing, (m & (m + 1)) == 0], nc == 0, {"m": m}))
    # L5.count: 2^k networks for k bits - the tuple index u ranges over 0 .. 2^k - 1 and different tuples give different
    # subsets (bijection between k-tuples and subsets of the k positions): step lemma on pow2
    k = z3.Int("k")
    pow2 = z3.Function("pow2", z3.IntSort(), z3.IntSort())
    out.append(("L5.count.step", [pow2(0) == 1, k >= 0, pow2(k + 1) == 2 * pow2(k), pow2(k) >= 1], pow2(k + 1) >= 2, {}))
    # L13.closed (used by C13): net/wildcard inclusion in closed form, both directions with explicit witnesses
    b2, m2 = z3.BitVecs("b2 m2", BV)
    p2 = b2 & ~m2
    closed = z3.And((m & ~m2) == 0, (p & ~m2) == p2)
    out.append(("L13.closed.fwd", [closed, in_w], (x & ~m2) == p2, {}))
    w1 = p | (m & ~m2 & ~p2)            # a point of W(b,m) that leaves W(b2,m2) when m is not inside m2
    out.append(("L13.closed.bwd", [z3.Implies((p & ~m2) == p2, (m & ~m2) != 0)],
                z3.Or(z3.And((p & ~m) == p, (p & ~m2) != p2), z3.And((w1 & ~m) == p, (w1 & ~m2) != p2)), {}))
    return out


# ---------------------------------------------------------------------------------------------- memo coherence (frame obligation)
def memo_obligations():
    """`functools.lru_cache` is modelled as: result of the first call per key.  For a memoised *method* the key is the
    object (identity: Wildcard/Base define no __eq__/__hash__), so coherence needs: no public mutator writes a field
    the memoised body reads.  Decided syntactically on the current source; a violation is replayed natively."""
    tree = loader.module_ast("cisco_acl.wildcard")
    res = []
    cls = loader.classes("cisco_acl.wildcard")["Wildcard"]
    has_eq = any(isinstance(n, ast.FunctionDef) and n.name in ("__eq__", "__hash__") for n in cls.body)
    writes = {}
    for n in cls.body:
        if isinstance(n, ast.FunctionDef) and any(ast.unparse(d).endswith(".setter") for d in n.decorator_list):
            w = {t.attr for x in ast.walk(n) for t in ([x.targets[0]] if isinstance(x, ast.Assign) else [])
                 if isinstance(t, ast.Attribute) and isinstance(t.value, ast.Name) and t.value.id == "self"}
            writes[n.name] = w
    for n in ast.walk(tree):
        if isinstance(n, ast.FunctionDef) and any("lru_cache" in ast.unparse(d) for d in n.decorator_list):
            params = [a.arg for a in n.args.args]
            reads = {x.attr for x in ast.walk(n) if isinstance(x, ast.Attribute) and isinstance(x.value, ast.Name) and x.value.id == "self"}
            if params and params[0] == "self":
                for setter, w in writes.items():
                    clash = sorted(reads & w)
                    ok = not clash or has_eq
                    res.append((f"wildcard.Wildcard.{setter}.fset/memo.coherent[{n.name}]", ok,
                                f"memoised method {n.name} reads {sorted(reads)}; setter {setter} writes {clash}; cache key is the object identity"))
            else:
                globals_read = {x.id for x in ast.walk(n) if isinstance(x, ast.Name) and isinstance(x.ctx, ast.Load)} - set(params)
                res.append((f"wildcard.{n.name}/memo.pure", not reads, f"memoised function of values {params} (reads no object state)"))
    return res


def replay_stale():
    from cisco_acl.wildcard import Wildcard
    w = Wildcard("10.0.0.0 0.0.1.3")
    first = [str(n) for n in w.ipnets()]
    w.line = "20.0.0.0 0.0.2.3"
    after = [str(n) for n in w.ipnets()]
    fresh = [str(n) for n in Wildcard("20.0.0.0 0.0.2.3").ipnets()]
    return after == fresh, dict(first=first, after_reassignment=after, expected=fresh)


# ---------------------------------------------------------------------------------------------- bounded stand-in
def masks(tier):
    out = set()
    for l in range(33):
        out.add((1 << (32 - l)) - 1)                       # contiguous
    nc_bits = [0, 1, 2, 7, 8, 9, 15, 16, 23, 24, 30, 31]
    for k in (1, 2, 3):
        for comb in itertools.combinations(nc_bits, k):
            out.add(sum(1 << c for c in comb))
            out.add(sum(1 << c for c in comb) | 0x3)
            out.add(sum(1 << c for c in comb) | 0xFF)
    out |= {0x00FF00FF, 0x0000FFFE, 0x55, 0xAA00, 0x80000000, 0x80000001, 0x0000FF00, 0x00010103, 0x103}
    if tier == "thorough":
        import random
        rnd = random.Random(int(os.environ.get("VERIF_SEED", "0") or 0))
        for _ in range(600):
            k = rnd.randint(1, 12)
            out.add(sum(1 << c for c in rnd.sample(range(32), k)))
    return sorted(out)


def quad(v):
    return ".".join(str((v >> s) & 255) for s in (24, 16, 8, 0))


def check_mask(arg):
    from ipaddress import NetmaskValueError
    from cisco_acl.wildcard import Wildcard
    m, base, max_ncwb = arg
    line = f"{quad(base)} {quad(m)}"
    fails = []
    # reference: r trailing ones, nc bits above
    r = 0
    while r < 32 and (m >> r) & 1:
        r += 1
    ncpos = [c for c in range(r, 32) if (m >> c) & 1]
    inputs = dict(line=line, max_ncwb=max_ncwb)

    def bad(kind, what):
        fails.append(dict(key=f"bounded/Wildcard:{kind}", what=what, inputs=inputs,
                          cmd=("import sys; sys.path.insert(0, 'props'); import C05\n"
                               f"fails, _ = C05.check_mask({arg!r})\nprint([f['what'] for f in fails]); sys.exit(1 if fails else 0)\n")))
    try:
        w = Wildcard(line, max_ncwb=max_ncwb)
    except NetmaskValueError:
        if len(ncpos) <= max_ncwb:
            bad("spurious-reject", f"{line!r} needs {len(ncpos)} non-contiguous bits, limit {max_ncwb}, but was rejected")
        return fails, 1
    except Exception as ex:
        bad("error", f"{type(ex).__name__}: {ex}")
        return fails, 1
    if len(ncpos) > max_ncwb:
        bad("limit", f"{line!r} needs {len(ncpos)} non-contiguous bits, limit {max_ncwb}, but was accepted")
        return fails, 1
    nets = w.ipnets()
    cubes = [sets.cube_of_prefix(int(n.network_address), n.prefixlen) for n in nets]
    if len(nets) != 2 ** len(ncpos) or len({n.prefixlen for n in nets}) > 1 or (nets and nets[0].prefixlen != 32 - r):
        bad("count", f"{line!r}: {len(nets)} networks of lengths {sorted({n.prefixlen for n in nets})}, expected {2 ** len(ncpos)} of /{32 - r}")
    wv = sets.union_equal(cubes, [sets.cube(base, m)])
    if wv is not None:
        bad("cover", f"{line!r}: derived prefixes differ from the wildcard set at address {quad(wv)}")
    elif sets.union_count(cubes) != sum(sets.cube_size(c) for c in cubes):
        bad("overlap", f"{line!r}: derived prefixes overlap")
    if (w.ipnet is not None) != (m & (m + 1) == 0):
        bad("single", f"{line!r}: ipnet={w.ipnet} but contiguous={m & (m + 1) == 0}")
    elif w.ipnet is not None and (nets != [w.ipnet] or int(w.ipnet.network_address) != base & ~m & 0xFFFFFFFF or w.ipnet.prefixlen != 32 - r):
        bad("single", f"{line!r}: ipnet={w.ipnet}, ipnets={nets[:3]}")
    if w.line != f"{quad(base & ~m & 0xFFFFFFFF)} {quad(m)}":
        bad("line", f"{line!r} renders as {w.line!r}")
    return fails, 1


def check_history(arg):
    """sequences of line reassignments interleaved with queries: every derived value describes the current line"""
    from ipaddress import NetmaskValueError
    import cisco_acl
    lines, query_each = arg[:2]
    cls = arg[2] if len(arg) > 2 else "Wildcard"
    if cls == "Wildcard":
        from cisco_acl.wildcard import Wildcard
    else:
        # the same histories one level up: an address object owns a Wildcard and has its own limit attribute
        C_ = cisco_acl.Address if cls == "Address" else cisco_acl.AddressAg
        plat = "ios" if cls == "Address" else "nxos"

        def Wildcard(line_, max_ncwb=16):
            return C_(line_, platform=plat, max_ncwb=max_ncwb)
    fails = []
    w = None
    limit = 4
    for i, line in enumerate(lines):
        if line.startswith("limit="):
            limit = int(line[6:])
            if w is not None:
                w.max_ncwb = limit
            continue
        prev = (w.line, getattr(w, "type", None)) if w is not None else None
        try:
            if w is None:
                w = Wildcard(line, max_ncwb=limit)
            else:
                w.line = line
            accepted = True
        except (NetmaskValueError, ValueError) as ex_:
            if not isinstance(ex_, NetmaskValueError) and cls == "Wildcard":
                raise
            accepted = False
        if w is None:
            continue
        if not accepted and prev is not None:
            try:
                now = (w.line, getattr(w, "type", None))
            except Exception as ex_:
                now = (f"{type(ex_).__name__}: {ex_}", None)
            if now != prev:
                fails.append(dict(key=f"bounded/{cls}.history:rejected-line-changed-the-object",
                                  what=f"{cls}: after {lines[:i + 1]}: the last line was rejected, but the object went from line/type {prev} to {now}",
                                  inputs=dict(lines=list(lines[:i + 1])),
                                  cmd=("import sys; sys.path.insert(0, 'props'); import C05\n"
                                       f"fails, _ = C05.check_history({arg!r})\nprint([f['what'] for f in fails]); sys.exit(1 if fails else 0)\n")))
                break
        # limits reject, never approximate: an accepted line needs at most `limit` non-contiguous bits
        if accepted:
            mt = line.split()[1]
            mv = 0
            for o in mt.split("."):
                mv = mv * 256 + int(o)
            r_ = 0
            while r_ < 32 and (mv >> r_) & 1:
                r_ += 1
            k_ = bin(mv >> r_).count("1") if r_ < 32 else 0
            if k_ > limit:
                fails.append(dict(key=f"bounded/{cls}.history:limit", what=f"{cls}: after {lines[:i + 1]}: line {line!r} needs {k_} non-contiguous bits but was accepted with limit {limit}",
                                  inputs=dict(lines=list(lines[:i + 1])),
                                  cmd=("import sys; sys.path.insert(0, 'props'); import C05\n"
                                       f"fails, _ = C05.check_history({arg!r})\nprint([f['what'] for f in fails]); sys.exit(1 if fails else 0)\n")))
                break
        if accepted or True:
            cur = w.line
            try:
                fresh = Wildcard(cur, max_ncwb=30)
            except Exception:
                continue
            got = (str(w.ipnet), [str(n) for n in w.ipnets()]) if (query_each or i == len(lines) - 1) else None
            want = (str(fresh.ipnet), [str(n) for n in fresh.ipnets()])
            if got is not None and got != want:
                kind = "stale" if accepted else "rejected-line-half-applied"
                fails.append(dict(key=f"bounded/{cls}.history:{kind}",
                                  what=f"{cls}: after {lines[:i + 1]} the object shows line {cur!r} but ipnet/ipnets() = {got[0]}, {got[1][:4]} (a fresh object gives {want[0]}, {want[1][:4]})",
                                  inputs=dict(lines=list(lines[:i + 1]), query_each=query_each),
                                  cmd=("import sys; sys.path.insert(0, 'props'); import C05\n"
                                       f"fails, _ = C05.check_history({arg!r})\nprint([f['what'] for f in fails]); sys.exit(1 if fails else 0)\n")))
                break
    return fails, 1


def check_alias(arg):
    """the list handed out by ipnets() is the caller's: editing it changes nothing for this object, its copies, or equal objects built later"""
    import cisco_acl
    from cisco_acl.wildcard import Wildcard
    line, how = arg
    fails = []
    w = Wildcard(line)
    want = [str(n) for n in w.ipnets()]
    got_list = w.ipnets() if how != "address" else cisco_acl.Address(line, platform="nxos").ipnets()
    got_list.clear() if how == "clear" else got_list.append(got_list[0] if got_list else None)
    views = {"same object": w.ipnets(), "copy": w.copy().ipnets(), "new equal object": Wildcard(line).ipnets(),
             "address": cisco_acl.Address(line, platform="nxos").ipnets()}
    for name, v in views.items():
        if [str(n) for n in v] != want:
            fails.append(dict(key="bounded/Wildcard.ipnets:aliased-result", what=f"after the caller edited the list returned by ipnets() of {line!r} ({how}), ipnets() of the {name} "
                                                                                f"has {len(v)} networks instead of {len(want)}", inputs=dict(line=line, how=how),
                              cmd=("import sys; sys.path.insert(0, 'props'); import C05\n"
                                   f"fails, _ = C05.check_alias({arg!r})\nprint([f['what'] for f in fails]); sys.exit(1 if fails else 0)\n")))
            break
    return fails, 1


def check_owner_limit(arg):
    """the configured limit is the owner's: an address, a group member or an address group built from text with limit L rejects a mask that needs more
    than L non-contiguous bits (an error, or for a group the member is not taken and a record is logged) and keeps one that needs at most L"""
    import logging
    import cisco_acl
    owner, k, limit = arg
    mask = sum(1 << (2 * i + 1) for i in range(k))            # k non-contiguous bits: 0b...101010
    wild = f"192.0.0.0 {quad(mask)}"              # base bits 31, 30 only: none under the mask
    fails = []

    class H(logging.Handler):
        seen = []

        def emit(self, r):
            H.seen.append(r.getMessage())
    H.seen = []
    hd = H()
    lg = logging.getLogger()
    old = lg.level
    lg.addHandler(hd)
    lg.setLevel(logging.DEBUG)
    try:
        if owner == "Address":
            o = cisco_acl.Address(wild, platform="ios", max_ncwb=limit)
            kept = o.line == wild
        elif owner == "AddressAg":
            o = cisco_acl.AddressAg(wild, platform="nxos", max_ncwb=limit)
            kept = o.line == wild
        elif owner == "AddrGroup-text":
            o = cisco_acl.AddrGroup(f"object-group ip address A\n 10 {wild}\n 20 10.1.0.0/24", platform="nxos", max_ncwb=limit)
            kept = any(wild in m.line for m in o.items)
        elif owner == "AddrGroup-items":
            o = cisco_acl.AddrGroup(name="A", items=[f"10 {wild}", "20 10.1.0.0/24"], platform="nxos", max_ncwb=limit)
            kept = any(wild in m.line for m in o.items)
        else:
            o = cisco_acl.Ace(f"permit ip {wild} any", platform="ios", max_ncwb=limit)
            kept = wild in o.line
        raised = None
    except ValueError as ex:
        kept, raised = False, ex
    finally:
        lg.removeHandler(hd)
        lg.setLevel(old)
    what = None
    if k > limit and kept:
        what = f"{owner} with max_ncwb={limit} accepted {wild!r}, which needs {k} non-contiguous bits"
    elif k <= limit and not kept:
        what = f"{owner} with max_ncwb={limit} did not keep {wild!r}, which needs only {k} non-contiguous bits ({'raised ' + type(raised).__name__ if raised else 'silently left out'})"
    elif k > limit and raised is None and not any(quad(mask) in m for m in H.seen):
        what = f"{owner} with max_ncwb={limit} left out {wild!r} without an error and without naming it in a log record"
    if what:
        fails.append(dict(key=f"bounded/{owner}:limit:{'over' if k > limit else 'within'}", what=what, inputs=dict(owner=owner, bits=k, max_ncwb=limit, line=wild),
                          cmd=("import sys; sys.path.insert(0, 'props'); import C05\n"
                               f"fails, _ = C05.check_owner_limit({arg!r})\nprint([f['what'] for f in fails]); sys.exit(1 if fails else 0)\n")))
    return fails, 1


def replay_line_fset(model, ob):
    """native search for a reassignment history on which a derived value does not describe the current line"""
    pool = ["10.0.0.0 0.0.1.3", "10.0.0.0 0.0.0.255", "10.0.1.0 0.0.0.255", "20.0.0.0 0.0.1.3", "10.0.0.0 0.0.3.3", "limit=0", "limit=1"]
    for n in (2, 3):
        for h in itertools.product(pool, repeat=n):
            fails, _ = check_history((h, True))
            if fails:
                f = fails[0]
                return dict(violates=True, inputs=f["inputs"], what=f["what"], cmd=f["cmd"], key="wildcard.Wildcard.line.fset/post[describes the new line]")
    return dict(violates=False)


def replay_create_ncwb(model, ob):
    """run the real Wildcard._create_ncwb on the mask word of the solver's counterexample and compare with plain bit counting"""
    from ipaddress import IPv4Address, NetmaskValueError
    from cisco_acl.wildcard import Wildcard
    try:
        m = int(model.get("self._wildmask", 0)) & 0xFFFFFFFF
    except (TypeError, ValueError):
        return None
    w = Wildcard("0.0.0.0 0.0.0.0", max_ncwb=30)
    w._wildmask = IPv4Address(m)
    r = 0
    while r < 32 and (m >> r) & 1:
        r += 1
    want = ([c for c in range(31, r, -1) if (m >> c) & 1], 32 - r)
    try:
        got = w._create_ncwb()
        got = (list(got[0]), got[1])
    except NetmaskValueError:
        got = "NetmaskValueError"
        if len(want[0]) > 30:
            return dict(violates=False)
    if got == want:
        return dict(violates=False)
    cmd = ("import sys; from ipaddress import IPv4Address; from cisco_acl.wildcard import Wildcard\n"
           f"w = Wildcard('0.0.0.0 0.0.0.0', max_ncwb=30); w._wildmask = IPv4Address({m}); got = w._create_ncwb(); print(got)\n"
           f"sys.exit(0 if (list(got[0]), got[1]) == {want!r} else 1)\n")
    return dict(violates=True, inputs=dict(wildmask=quad(m)), observed=str(got), expected=str(want), cmd=cmd,
                what=f"Wildcard._create_ncwb for the mask {quad(m)} returns (non-contiguous bits, prefix length) = {got}, bit counting gives {want}", key=ob.oid.split("#")[0])


def main(chk):
    from pyvc import contract as C
    import contracts.c_wildcard  # noqa
    C.REGISTRY["cisco_acl.wildcard.Wildcard.line.fset"].replay = replay_line_fset
    C.REGISTRY["cisco_acl.wildcard.Wildcard._create_ncwb"].replay = replay_create_ncwb
    chk.prove(["c_wildcard"])
    chk.replay_refuted()
    chk.lemmas(lemmas())
    # memo coherence
    from pyvc.engine import Obligation
    for oid, ok, why in memo_obligations():
        ob = Obligation(oid=f"cisco_acl.{oid}", kind="frame", hyps=(), goal=z3.BoolVal(ok), target="cisco_acl.wildcard", note=why)
        ob.result, ob.solver = ("PROVED" if ok else "REFUTED"), "syntactic frame analysis"
        chk.obligations.append(ob)
        if not ok:
            good, detail = replay_stale()
            if not good:
                chk.finding(ob.oid, "stale derived values after the line of a Wildcard is reassigned: " + why, inputs=dict(
                    steps=["w = Wildcard('10.0.0.0 0.0.1.3')", "w.ipnets()", "w.line = '20.0.0.0 0.0.2.3'", "w.ipnets()"]), observed=detail["after_reassignment"],
                    expected=detail["expected"], key="wildcard.Wildcard.line.fset/memo.coherent",
                    cmd="import sys; sys.path.insert(0, 'props'); import C05\nok, d = C05.replay_stale(); print(d); sys.exit(0 if ok else 1)\n")
            else:
                ob.result = "UNKNOWN"
                ob.note += " | spurious: native replay shows fresh values"
    t0 = time.time()
    ms = masks(chk.tier)
    cases = []
    for m in ms:
        k = bin(m).count("1") - (len(bin((m ^ (m + 1)) >> 1)) - 2 if m & 1 else 0)
        if bin(m).count("1") > 14 and m & (m + 1):
            continue
        for base in (0x0A000000, 0x0A0A0A05, 0xFFFFFFFF):
            for lim in sorted({0, 1, 2, 3, 16, 30, max(k - 1, 0), k, min(k + 1, 30)}):
                if lim >= k and k > 12:
                    continue
                cases.append((m, base, lim))
    res = pmap(check_mask, cases)
    viol = 0
    for fails, _ in res:
        for f in fails:
            viol += 1
            chk.finding(f["key"], f["what"], inputs=f["inputs"], cmd=f["cmd"], key=f["key"])
    chk.add_bounded("Wildcard(line, max_ncwb): prefixes == W(base, mask) exactly, disjoint, 2^k of /(32-r); limit accepted iff k <= max_ncwb; ipnet iff contiguous",
                    len(cases), len(cases), f"{len(ms)} masks (all 33 contiguous, all <= 3-bit non-contiguous patterns over 12 positions, mixed) x 3 bases x limits around k",
                    viol, time.time() - t0, [cases[40], cases[400]], exhaustive=True)
    t0 = time.time()
    pool = ["10.0.0.0 0.0.1.3", "20.0.0.0 0.0.2.3", "10.0.0.0 0.0.0.255", "10.0.0.0 0.0.255.3", "1.2.3.4 0.0.0.0", "10.0.0.0 0.255.0.255", "10.0.0.0 0.0.3.3",
            "10.0.1.0 0.0.0.255", "20.0.0.0 0.0.1.3", "limit=0", "limit=1"]
    hist = [(h, q) for n in (2, 3) for h in itertools.product(pool, repeat=n) for q in (True, False)]
    if chk.tier == "quick":
        hist = hist[::2]
    hist += [(h, q, c) for (h, q) in hist[::3] for c in ("Address", "AddressAg")]
    res = pmap(check_history, hist)
    viol = 0
    for fails, _ in res:
        for f in fails:
            viol += 1
            chk.finding(f["key"], f["what"], inputs=f["inputs"], cmd=f["cmd"], key=f["key"])
    chk.add_bounded("histories of line reassignments and limit changes on one Wildcard object (and, for a third of them, on an Address / AddressAg object that owns one) interleaved with queries (limit 4; includes rejected lines)", len(hist), len(hist),
                    f"all sequences of 2..3 lines over a pool of {len(pool)} (two of them exceed the limit), queried after every step or only at the end",
                    viol, time.time() - t0, [list(hist[5][0])], exhaustive=True)
    t0 = time.time()
    acases = [(l, h) for l in ("10.0.0.0 0.0.1.3", "10.0.0.0 0.0.0.255", "10.0.0.0 0.255.0.255", "1.2.3.4 0.0.0.0") for h in ("clear", "append", "address")]
    res = pmap(check_alias, acases)
    viol = 0
    for fails, _ in res:
        for f in fails:
            viol += 1
            chk.finding(f["key"], f["what"], inputs=f["inputs"], cmd=f["cmd"], key=f["key"])
    chk.add_bounded("the list returned by ipnets() is a copy: editing it changes no later answer (same object, copy, new equal object, address)", len(acases), len(acases),
                    "4 masks x 3 ways of editing the returned list", viol, time.time() - t0, [list(acases[0])], exhaustive=True)
    t0 = time.time()
    ocases = [(o, k, l) for o in ("Address", "AddressAg", "AddrGroup-text", "AddrGroup-items", "Ace") for k, l in
              ((1, 0), (1, 1), (2, 1), (3, 2), (3, 3), (5, 16), (15, 16), (4, 3), (2, 30), (6, 5), (13, 12), (13, 14))]
    res = pmap(check_owner_limit, ocases)
    viol = 0
    for fails, _ in res:
        for f in fails:
            viol += 1
            chk.finding(f["key"], f["what"], inputs=f["inputs"], cmd=f["cmd"], key=f["key"])
    chk.add_bounded("the limit configured on the owner (Address, AddressAg, AddrGroup from text / from items, Ace) decides about its masks", len(ocases), len(ocases),
                    "5 owners x 10 (bits needed, limit) pairs on both sides of the limit", viol, time.time() - t0, [list(ocases[0])], exhaustive=True)
    chk.assumptions += [
        "assumed contracts on dependencies (audited, not proved): ipaddress.IPv4Address text codec (IP_OK/IP_PARSE), IPv4Network((addr, len)), str.split(), "
        "itertools.product((0,1), repeat=k) = all k-tuples once in lexicographic order (TBIT), functools.lru_cache = first result per key",
        "BIT(w, p) is used uninterpreted in the list-level VCs of _create_ncwb; its definition by the 32-way macro is the bridge to the word-level lemmas L5.*",
        "Wildcard._create_ipnet (f-string + IPv4Network text parsing), fprefix, fsubnet: bounded stand-in only",
        "the step from per-function contracts to L5.* identifies: prefix = b & ~m (_create_prefix.masked), r/nc from _create_ncwb (prefixlen, ncwb.sound/complete), "
        "network u = prefix | spread(u) (ipnets.nets + ghost NETADDR)",
    ]
    return chk.finish(
        "other",
        "Deductive: every obligation generated from the current source of Wildcard._prefixlen_idx, _ncw_bits, _create_ncwb (list level), _create_prefix and the "
        "network generator behind ipnets() (word level: both loops by invariant, no exception possible) is discharged; lemmas L5.exact/disjoint/nohost/single/count "
        "and L13.closed in 32-bit arithmetic; memo coherence as a frame obligation. Bounded stand-in (labelled): real Wildcard objects on a mask family and all short "
        "reassignment histories.",
        trusted_base=["z3 5.1.0", "cvc5 (fallback)", "pyvc", "CPython models listed under assumptions"])


if __name__ == "__main__":
    run("C05", main)
