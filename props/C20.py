"""C20 - Arbitrary text only ever yields an object or a documented value/type error."""
import itertools
import os
import random
import signal
import sys
import time

sys.path.insert(0, os.path.dirname(os.path.dirname(os.path.abspath(__file__))))
import z3
from pyvc.driver import run, pmap
from pyvc.engine import Obligation
import C12

VOCAB = ["permit", "deny", "remark", "ip", "tcp", "udp", "icmp", "0", "6", "256", "any", "host", "10.0.0.1", "10.0.0.0", "0.0.0.255", "255.255.255.0",
         "0.0.1.3", "10.0.0.0/24", "10.0.0.0/33", "300.0.0.1", "1.2.3", "object-group", "addrgroup", "group-object", "G1", "eq", "neq", "gt", "lt", "range",
         "80", "www", "65536", "-1", "ack", "log", "established", "10", "4294967296", "ip access-list", "extended", "standard", "A1", "description", "statistics",
         "?", "\t", "", "  ", "é", "eq eq", "1e3", "0x10", "٣"]
VALID = ["permit tcp host 10.0.0.1 eq 80 10.0.0.0 0.0.0.255 range 20 21 ack log", "10 deny ip any any", "remark hello", "permit 10.0.0.0 0.0.0.255",
         "permit ip object-group G1 any", "permit udp any eq 53 67 any", "10.0.0.0 0.0.0.255", "host 10.0.0.1", "eq www 443", "range 1 3", "ack syn log",
         "ip access-list extended A1\n permit ip any any\n remark x", "object-group network G1\n host 10.0.0.1\n 10.0.0.0 255.255.255.0",
         "object-group ip address G1\n 10 10.0.0.0/24", "interface Gi1\n ip access-group A1 in"]
CLASSES = ["Ace", "Remark", "AceGroup", "Acl", "Address", "AddressAg", "AddrGroup", "Port", "Protocol", "Option", "Wildcard"]
FUNCS = ["acls", "aces", "addrgroups"]
LIMIT_S = 30      # CPU seconds of the worker process (wall-clock limits flip when the machine is busy)


class Timeout(Exception):
    pass


def _alarm(signum, frame):
    raise Timeout()


def texts(tier, seed):
    out = []
    for n in (1, 2):
        out += [" ".join(c) for c in itertools.product(VOCAB, repeat=n)]
    rnd = random.Random(seed)
    for _ in range(4000 if tier == "quick" else 40000):
        out.append(" ".join(rnd.choice(VOCAB) for _ in range(rnd.randint(3, 7))))
    for v in VALID:
        toks = v.split(" ")
        for k in range(len(toks) + 1):
            out.append(" ".join(toks[:k]))                  # truncations
        for _ in range(6):
            t = toks[:]
            rnd.shuffle(t)
            out.append(" ".join(t))                         # permutations
        for k in range(len(toks)):
            out.append(" ".join(toks[:k] + [rnd.choice(VOCAB)] + toks[k + 1:]))   # one token replaced
    out += ["", " ", "\n", "\n\n  \n", "permit " * 2000, "1 " * 3000 + "permit ip any any", "permit ip any any " + "log " * 5000, "a" * 100000,
            "ip access-list extended A\n" + " permit ip any any\n" * 3000, "remark " + "x" * 200, "0.0.0.0 " * 50, "eq " + "1 " * 5000]
    return out


def check_text(arg):
    import cisco_acl
    chunk, platform = arg
    fails = []
    n = 0
    signal.signal(signal.SIGVTALRM, _alarm)
    for text in chunk:
        for name in CLASSES + FUNCS:
            n += 1
            fn = getattr(cisco_acl, name)
            kw = dict(platform=platform)
            if name == "Port":
                kw["protocol"] = "tcp"
            t0 = time.time()
            signal.setitimer(signal.ITIMER_VIRTUAL, LIMIT_S)
            try:
                try:
                    obj = fn(text, **kw)
                finally:
                    signal.setitimer(signal.ITIMER_VIRTUAL, 0)
            except (ValueError, TypeError):
                continue
            except Timeout:
                fails.append(dict(key=f"bounded/{name}:endless", what=f"{name}({text[:60]!r}...) did not finish within {LIMIT_S} CPU seconds", inputs=dict(cls=name, text=text[:300], platform=platform)))
                continue
            except BaseException as ex:
                fails.append(dict(key=f"bounded/{name}:{type(ex).__name__}", what=f"{name}({text[:80]!r}) raised {type(ex).__name__}: {str(ex)[:120]}",
                                  inputs=dict(cls=name, text=text[:300], platform=platform),
                                  cmd=("import sys, cisco_acl\n"
                                       f"kw = {kw!r}\ntry:\n    cisco_acl.{name}({text[:2000]!r}, **kw); sys.exit(0)\nexcept (ValueError, TypeError):\n    sys.exit(0)\n"
                                       "except BaseException as ex:\n    print(type(ex).__name__, ex); sys.exit(1)\n")))
                continue
            # anything returned renders text that the same constructor accepts again
            if name in CLASSES:
                try:
                    line = obj.line
                    obj2 = fn(line, **kw)
                except BaseException as ex:
                    shape = ""
                    if not text.strip():
                        shape = ":empty-input"
                    elif name == "Ace" and getattr(obj, "type", "") == "standard" and \
                            any(t not in ("log", "log-input") for t in str(getattr(getattr(obj, "option", None), "line", "")).split()):
                        # a standard entry that carries option tokens other than log keywords (its text then reads as an extended entry)
                        shape = ":standard-entry-with-address-like-option"
                    fails.append(dict(key=f"bounded/{name}:rejects-own-text:{type(ex).__name__}" + shape,
                                      what=f"{name}({text[:80]!r}) returned an object whose text {str(getattr(obj, 'line', '?'))[:80]!r} the constructor rejects: {type(ex).__name__}: {str(ex)[:100]}",
                                      inputs=dict(cls=name, text=text[:300], platform=platform),
                                      cmd=("import sys, cisco_acl\n"
                                           f"kw = {kw!r}\no = cisco_acl.{name}({text[:2000]!r}, **kw)\ntry:\n    cisco_acl.{name}(o.line, **kw); sys.exit(0)\n"
                                           "except BaseException as ex:\n    print(type(ex).__name__, ex); sys.exit(1)\n")))
    return fails, n


def main(chk):
    # deductive part: safety and termination obligations of the kernels that read arbitrary text
    chk.prove(["c_lines", "c_port", "c_wildcard"], serve=["C20"])
    for q, ok in C12.depth_obligations(["cisco_acl.helpers.is_line_for_acl", "cisco_acl.config_parser.ConfigParser._parse_dic"]):
        ob = Obligation(oid=f"{q}/depth", kind="depth", hyps=(), goal=z3.BoolVal(ok), target=q, note="recursion without a depth bound" if not ok else "no recursion")
        ob.result, ob.solver = ("PROVED" if ok else "REFUTED"), "syntactic recursion analysis"
        chk.obligations.append(ob)
        if not ok:
            good, obs = C12.replay_depth()
            if not good:
                chk.finding(ob.oid, "RecursionError on a long line: " + obs, observed=obs, key="helpers.is_line_for_acl/depth",
                            cmd="import sys; sys.path.insert(0, 'props'); import C12\nok, o = C12.replay_depth(); print(o); sys.exit(0 if ok else 1)\n")
    t0 = time.time()
    ts = texts(chk.tier, chk.seed)
    chunks = [ts[i::256] for i in range(256)]
    cases = [(c, p) for c in chunks for p in ("ios", "nxos")]

    def crashed(item, why):
        return ([dict(key="bounded/crash-or-hang", what=f"the interpreter died or hung ({why}) on one of {len(item[0])} texts, e.g. {item[0][0][:80]!r}",
                      inputs=dict(platform=item[1], texts=[t[:200] for t in item[0][:20]]))], 0)
    res = pmap(check_text, cases, deadline_s=240, on_crash=crashed)
    viol = 0
    seen = set()
    for fails, _ in res:
        for f in fails:
            viol += 1
            if f["key"] in seen:
                continue
            seen.add(f["key"])
            chk.finding(f["key"], f["what"], inputs=f["inputs"], cmd=f.get("cmd"), key=f["key"])
    chk.add_bounded("every constructor and config function on arbitrary text: returns or raises ValueError/TypeError within 30 CPU seconds; returned text is accepted again",
                    sum(d for _, d in res), len(ts), f"{len(ts)} texts (all token soups of <= 2 tokens over a {len(VOCAB)}-token vocabulary, seeded soups of 3..7 tokens, "
                    "truncations / permutations / one-token replacements of 15 valid texts, empty and whitespace, very long inputs) x 14 entry points x 2 platforms",
                    viol, time.time() - t0, ts[100:103], exhaustive=False)
    chk.assumptions += ["regular-expression run time is only covered by the CPU-time limit of the bounded run (30 s per call; the slowest generated input needs about 2 s)"]
    return chk.finish("other", "Deductive: safety (index / None / int()) and termination obligations of the text kernels under contract (is_line_for_acl: loop "
                      "with decreasing length, no recursion). Bounded (labelled): exception class, wall-clock limit and re-acceptance on generated texts.",
                      trusted_base=["z3 5.1.0", "pyvc"])


if __name__ == "__main__":
    run("C20", main)
