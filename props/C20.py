"""C20 - Arbitrary text only ever yields an object or a documented value/type error."""
import itertools
import os
import random
import signal
import sys
import time

sys.path.insert(0, os.path.dirname(os.path.dirname(os.path.abspath(__file__))))
import z3
from pyvc.driver import run, pmap
from pyvc.engine import Obligation
import C12

VOCAB = ["permit", "deny", "remark", "ip", "tcp", "udp", "icmp", "0", "6", "256", "any", "host", "10.0.0.1", "10.0.0.0", "0.0.0.255", "255.255.255.0",
         "0.0.1.3", "10.0.0.0/24", "10.0.0.0/33", "300.0.0.1", "1.2.3", "object-group", "addrgroup", "group-object", "G1", "eq", "neq", "gt", "lt", "range",
         "80", "www", "65536", "-1", "ack", "log", "established", "10", "4294967296", "ip access-list", "extended", "standard", "A1", "description", "statistics",
         "?", "\t", "", "  ", "é", "eq eq", "1e3", "0x10", "٣"]
VALID = ["permit tcp host 10.0.0.1 eq 80 10.0.0.0 0.0.0.255 range 20 21 ack log", "10 deny ip any any", "remark hello", "permit 10.0.0.0 0.0.0.255",
         "permit ip object-group G1 any", "permit udp any eq 53 67 any", "10.0.0.0 0.0.0.255", "host 10.0.0.1", "eq www 443", "range 1 3", "ack syn log",
         "ip access-list extended A1\n permit ip any any\n remark x", "object-group network G1\n host 10.0.0.1\n 10.0.0.0 255.255.255.0",
         "object-group ip address G1\n 10 10.0.0.0/24", "interface Gi1\n ip access-group A1 in"]
CLASSES = ["Ace", "Remark", "AceGroup", "Acl", "Address", "AddressAg", "AddrGroup", "Port", "Protocol", "Option", "Wildcard"]
FUNCS = ["acls", "aces", "addrgroups"]
LIMIT_S = 30      # CPU seconds of the worker process (wall-clock limits flip when the machine is busy)


class Timeout(Exception):
    pass


def _alarm(signum, frame):
    raise Timeout()


def texts(tier, seed):
    out = []
    for n in (1, 2):
        out += [" ".join(c) for c in itertools.product(VOCAB, repeat=n)]
    rnd = random.Random(seed)
    pool = VOCAB + source_literals(("parsers", "helpers", "option", "port", "protocol", "address_base", "address_ag", "ace", "acl", "ace_group", "addr_group", "remark"), 150)
    for _ in range(4000 if tier == "quick" else 40000):
        out.append(" ".join(rnd.choice(pool) for _ in range(rnd.randint(3, 7))))
    for t in pool[len(VOCAB):]:
        out += [t, "permit " + t, t + " any any", "permit ip any any " + t, "10 " + t]
    for v in VALID:
        toks = v.split(" ")
        for k in range(len(toks) + 1):
            out.append(" ".join(toks[:k]))                  # truncations
        for _ in range(6):
            t = toks[:]
            rnd.shuffle(t)
            out.append(" ".join(t))                         # permutations
        for k in range(len(toks)):
            out.append(" ".join(toks[:k] + [rnd.choice(VOCAB)] + toks[k + 1:]))   # one token replaced
    out += config_texts(rnd)
    out += port_texts()
    # numbers outside 0..65535 at every position of an operand list (the list is sorted before it is rendered)
    for big in ("65536", "70000", "4294967296", "99999999999"):
        out += [f"eq {big} 80", f"eq 1 {big} 2", f"eq 1 2 {big}", f"neq {big} 1", f"range {big} 5", f"range 5 {big}", f"gt {big}", f"permit tcp any eq {big} 443 any",
                f"permit udp any any range {big} 5", f"permit tcp any any eq 80 {big} 443", f"ip access-list extended A\n permit tcp any any range {big} 5\n permit ip any any"]
    out += ["", " ", "\n", "\n\n  \n", "permit " * 2000, "1 " * 3000 + "permit ip any any", "permit ip any any " + "log " * 5000, "a" * 100000,
            "ip access-list extended A\n" + " permit ip any any\n" * 3000, "remark " + "x" * 200, "0.0.0.0 " * 50, "eq " + "1 " * 5000]
    return out


def source_literals(mods=("config_parser", "functions"), cap=60):
    """the string constants of the library's own source (reserved keys, markers, keywords): a white-box dictionary for the soups"""
    import ast
    from pyvc import loader
    out = set()
    for mod in mods:
        try:
            tree = ast.parse(open(os.path.join(loader.REPO, "cisco_acl", mod + ".py")).read())
        except OSError:
            continue
        for n in ast.walk(tree):
            if isinstance(n, ast.Constant) and isinstance(n.value, str) and 0 < len(n.value) <= 24 and "\n" not in n.value and not n.value.startswith("\\"):
                out.add(n.value.strip())
    return sorted(x for x in out if x and " " not in x.strip() or x in ("ip access-list", "object-group network"))[:cap]


def port_texts():
    """every port number and port keyword of the library's own tables, on each side of an entry (numbers render as keywords, which must be accepted again)"""
    import ast
    from pyvc import loader
    words = set()
    try:
        tree = ast.parse(open(os.path.join(loader.REPO, "cisco_acl", "port_name.py")).read())
    except OSError:
        return []
    for n in ast.walk(tree):
        if isinstance(n, ast.Dict):
            for k, v in zip(n.keys, n.values):
                for c in (k, v):
                    if isinstance(c, ast.Constant) and isinstance(c.value, (int, str)) and not isinstance(c.value, bool) and str(c.value).strip():
                        words.add(str(c.value).strip())
    out = []
    for w in sorted(words):
        out += [f"permit tcp any any eq {w}", f"permit udp any any eq {w}", f"permit tcp any eq {w} any", f"permit udp any eq {w} any eq {w}",
                f"permit tcp any any eq 1 {w}", f"eq {w}", f"permit tcp any any range 1 {w}", f"permit tcp any any neq {w} log"]
    return out


def config_texts(rnd):
    """multi-line texts with section structure: arbitrary indentation (width, character, nesting depth), comment lines, lines taken from the parser's own literals"""
    out = []
    lits = source_literals()
    heads = ["ip access-list extended A", "ip access-list A", "object-group network G", "object-group ip address G", "interface Gi1", "a", "router bgp 1"]
    bodies = ["permit ip any any", "host 10.0.0.1", "ip access-group A in", "10.0.0.0/24", "x", "remark r", "!", "! note"]
    for ich in (" ", "\t", "\xa0", "\u3000", " \t"):
        for w in (1, 2, 5):
            for h_ in heads[:5]:
                out.append("\n".join([h_] + [ich * w + b for b in bodies[:4]]))
                out.append("\n".join([h_, ich * w + bodies[0], ich * (w + 1) + bodies[4], ich * w + bodies[5], bodies[6], ich * w + bodies[0]]))
    for lit in lits:
        for h_ in heads[:2] + heads[5:6]:
            out.append("\n".join([h_, " " + lit, "  x", " y"]))
            out.append("\n".join([lit, " " + bodies[0]]))
            out.append("\n".join([h_, " " + bodies[0], lit]))
    for depth in (5, 50, 400, 3000):
        out.append("\n".join(["a"] + [" " * i + "x" for i in range(1, depth)]))
        out.append("\n".join(["ip access-list extended A"] + [" " * i + "permit ip any any" for i in range(1, depth)]))
    for _ in range(300):
        n_ = rnd.randint(2, 7)
        out.append("\n".join(rnd.choice(["", " ", "  ", "\t", "   "]) + rnd.choice(heads + bodies + lits[:20]) for _ in range(n_)))
    out += ["10.0.0.1 0.0.0.0", "10.0.0.0 0.0.0.0", "0.0.0.0 255.255.255.255", "1.2.3.4 255.255.255.255", "10 10.0.0.1 0.0.0.0"]
    # an entry that references an address group defined in the same text, the group holding one member of every kind (also kinds the library cannot expand)
    members = ["host 10.0.0.1", "10.0.0.0 255.255.255.0", "10.0.0.0 0.0.0.255", "10.0.0.0/24", "group-object B", "range 10.0.0.1 10.0.0.9", "description d", "any", "x", "host x",
               "10.0.0.1", "10 host 10.0.0.1", "20 10.0.0.0/24", "network-object host 10.0.0.1", "network-object 10.0.0.0 255.255.255.0", "network-object object O"]
    for gh, ah, ref in (("object-group network A", "ip access-list extended X", "object-group A"), ("object-group ip address A", "ip access-list X", "addrgroup A"),
                        ("object-group network A", "access-list X extended", "object-group A")):
        for m in members:
            for m2 in ("", "host 10.0.0.2"):
                grp = "\n".join([gh] + [" " + x for x in (m, m2) if x])
                acl = "\n".join([ah, f" permit ip {ref} any", f" permit ip any {ref}"]) if "extended" not in ah.split()[-1:] else f"{ah} permit ip {ref} any"
                out += [grp + "\n" + acl, acl + "\n" + grp, grp + "\nobject-group network B\n host 10.0.0.3\n" + acl]
    return out


def check_text(arg):
    import cisco_acl
    chunk, platform = arg
    fails = []
    n = 0
    signal.signal(signal.SIGVTALRM, _alarm)
    try:
        import resource
        resource.setrlimit(resource.RLIMIT_AS, (6 << 30, 6 << 30))      # a runaway allocation ends as MemoryError in this worker, not as an OOM kill
    except (ImportError, ValueError, OSError):
        pass
    for text in chunk:
        for name in CLASSES + FUNCS:
            n += 1
            fn = getattr(cisco_acl, name)
            kw = dict(platform=platform)
            if name == "Port":
                kw["protocol"] = "tcp"
            t0 = time.time()
            signal.setitimer(signal.ITIMER_VIRTUAL, LIMIT_S)
            try:
                try:
                    obj = fn(text, **kw)
                finally:
                    signal.setitimer(signal.ITIMER_VIRTUAL, 0)
            except (ValueError, TypeError):
                continue
            except Timeout:
                fails.append(dict(key=f"bounded/{name}:endless", what=f"{name}({text[:60]!r}...) did not finish within {LIMIT_S} CPU seconds", inputs=dict(cls=name, text=text[:300], platform=platform)))
                continue
            except BaseException as ex:
                shape = ""
                if isinstance(ex, AttributeError) and any(l.strip() == "_config_" for l in text.splitlines()):
                    shape = ":line-equal-to-reserved-key"          # a configuration line whose text is the parser's reserved key `_config_`
                elif isinstance(ex, RecursionError) and max((len(l) - len(l.lstrip()) for l in text.splitlines()), default=0) > 300:
                    shape = ":indentation-nested-deeper-than-the-recursion-limit"
                fails.append(dict(key=f"bounded/{name}:{type(ex).__name__}" + shape, what=f"{name}({text[:80]!r}) raised {type(ex).__name__}: {str(ex)[:120]}",
                                  inputs=dict(cls=name, text=text[:300], platform=platform),
                                  cmd=("import sys, cisco_acl\n"
                                       f"kw = {kw!r}\ntry:\n    cisco_acl.{name}({text[:2000]!r}, **kw); sys.exit(0)\nexcept (ValueError, TypeError):\n    sys.exit(0)\n"
                                       "except BaseException as ex:\n    print(type(ex).__name__, ex); sys.exit(1)\n")))
                continue
            # anything returned renders text that the same constructor accepts again
            if name in FUNCS:
                try:
                    text2 = "\n".join(o.line for o in obj)
                    fn(text2, **kw)
                except BaseException as ex:
                    shape = ":group-without-members" if name == "addrgroups" and any(not getattr(o, "items", None) for o in obj) else ""
                    fails.append(dict(key=f"bounded/{name}:rejects-own-text:{type(ex).__name__}" + shape,
                                      what=f"{name}({text[:80]!r}) returned objects whose text the function rejects: {type(ex).__name__}: {str(ex)[:100]}",
                                      inputs=dict(cls=name, text=text[:300], platform=platform),
                                      cmd=("import sys, cisco_acl\n"
                                           f"kw = {kw!r}\nr = cisco_acl.{name}({text[:2000]!r}, **kw)\ntry:\n    cisco_acl.{name}('\\n'.join(o.line for o in r), **kw); sys.exit(0)\n"
                                           "except BaseException as ex:\n    print(type(ex).__name__, ex); sys.exit(1)\n")))
            if name in CLASSES:
                try:
                    line = obj.line
                    obj2 = fn(line, **kw)
                except BaseException as ex:
                    shape = ""
                    if not text.strip():
                        shape = ":empty-input"
                    elif name == "AddressAg" and platform == "ios" and str(getattr(obj, "line", "")).split()[-2:] == ["0.0.0.0", "0.0.0.0"]:
                        shape = ":ios-member-with-mask-0"               # a subnet mask 0.0.0.0 is accepted, the rendered 0.0.0.0 0.0.0.0 is refused
                    elif name == "Ace" and getattr(obj, "type", "") == "standard" and \
                            any(t not in ("log", "log-input") for t in str(getattr(getattr(obj, "option", None), "line", "")).split()):
                        # a standard entry that carries option tokens other than log keywords (its text then reads as an extended entry)
                        shape = ":standard-entry-with-address-like-option"
                    fails.append(dict(key=f"bounded/{name}:rejects-own-text:{type(ex).__name__}" + shape,
                                      what=f"{name}({text[:80]!r}) returned an object whose text {str(getattr(obj, 'line', '?'))[:80]!r} the constructor rejects: {type(ex).__name__}: {str(ex)[:100]}",
                                      inputs=dict(cls=name, text=text[:300], platform=platform),
                                      cmd=("import sys, cisco_acl\n"
                                           f"kw = {kw!r}\no = cisco_acl.{name}({text[:2000]!r}, **kw)\ntry:\n    cisco_acl.{name}(o.line, **kw); sys.exit(0)\n"
                                           "except BaseException as ex:\n    print(type(ex).__name__, ex); sys.exit(1)\n")))
    return fails, n


def check_indent_invariance(arg):
    """whole-configuration functions: the indentation (width, character) does not change what is returned"""
    import cisco_acl
    platform, ich, w = arg
    heads = {"ios": ["ip access-list extended A", "object-group network G", "interface Gi1"], "nxos": ["ip access-list A", "object-group ip address G", "interface Gi1"]}[platform]
    bodies = {"ios": [["permit ip any any", "remark r", "deny tcp any any eq 80"], ["host 10.0.0.1", "10.0.0.0 255.255.255.0"], ["ip access-group A in"]],
              "nxos": [["permit ip any any", "remark r", "deny tcp any any eq 80"], ["host 10.0.0.1", "10.0.0.0/24"], ["ip access-group A in"]]}[platform]

    def cfg(pad):
        return "\n".join(l for h_, b in zip(heads, bodies) for l in [h_] + [pad + x for x in b]) + "\n"

    def view(text):
        a = cisco_acl.acls(text, platform=platform)
        g = cisco_acl.addrgroups(text, platform=platform)
        return ([(x.name, [o.line for o in x.items], x.input, x.output) for x in a], [(x.name, [o.line for o in x.items]) for x in g])
    fails = []
    try:
        want, got = view(cfg(" ")), view(cfg(ich * w))
        if got != want:
            fails.append(dict(key="bounded/config:indentation-changes-result", what=f"indentation {ich * w!r} instead of one space changes the result: {got} vs {want}",
                              inputs=dict(platform=platform, indent=ich * w),
                              cmd=("import sys; sys.path.insert(0, 'props'); import C20\n"
                                   f"fails, _ = C20.check_indent_invariance({arg!r})\nprint([f['what'] for f in fails]); sys.exit(1 if fails else 0)\n")))
    except (ValueError, TypeError) as ex:
        fails.append(dict(key="bounded/config:indentation-changes-result", what=f"indentation {ich * w!r}: {type(ex).__name__}: {ex}", inputs=dict(platform=platform, indent=ich * w)))
    return fails, 1


def main(chk):
    # deductive part: safety and termination obligations of the kernels that read arbitrary text
    chk.prove(["c_lines", "c_port", "c_wildcard"], serve=["C20"])
    for q, ok in C12.depth_obligations(["cisco_acl.helpers.is_line_for_acl", "cisco_acl.config_parser.ConfigParser._parse_dic",
                                        "cisco_acl.config_parser.ConfigParser._parse_mdic", "cisco_acl.config_parser.ConfigParser._get_indented_dic"]):
        ob = Obligation(oid=f"{q}/depth", kind="depth", hyps=(), goal=z3.BoolVal(ok), target=q, note="recursion without a depth bound" if not ok else "no recursion")
        ob.result, ob.solver = ("PROVED" if ok else "REFUTED"), "syntactic recursion analysis"
        chk.obligations.append(ob)
        if not ok and q.endswith("._get_indented_dic"):
            cmd = ("import sys, cisco_acl\ntext = '\\n'.join(['a'] + [' ' * i + 'x' for i in range(1, 3000)])\n"
                   "try:\n    cisco_acl.acls(text); sys.exit(0)\nexcept (ValueError, TypeError):\n    sys.exit(0)\n"
                   "except RecursionError as ex:\n    print('RecursionError', ex); sys.exit(1)\n")
            chk.finding(ob.oid, "ConfigParser._get_indented_dic calls itself once per indentation level: no bound on the depth", key="config_parser.ConfigParser._get_indented_dic/depth", cmd=cmd)
        elif not ok:
            good, obs = C12.replay_depth()
            if not good:
                chk.finding(ob.oid, "RecursionError on a long line: " + obs, observed=obs, key="helpers.is_line_for_acl/depth",
                            cmd="import sys; sys.path.insert(0, 'props'); import C12\nok, o = C12.replay_depth(); print(o); sys.exit(0 if ok else 1)\n")
    t0 = time.time()
    ts = texts(chk.tier, chk.seed)
    chunks = [ts[i::256] for i in range(256)]
    cases = [(c, p) for c in chunks for p in ("ios", "nxos")] + [(c, "asa") for c in chunks[::4]]

    def crashed(item, why):
        return ([dict(key="bounded/crash-or-hang", what=f"the interpreter died or hung ({why}) on one of {len(item[0])} texts, e.g. {item[0][0][:80]!r}",
                      inputs=dict(platform=item[1], texts=[t[:200] for t in item[0][:20]]))], 0)
    res = pmap(check_text, cases, deadline_s=240, on_crash=crashed)
    viol = 0
    seen = set()
    for fails, _ in res:
        for f in fails:
            viol += 1
            if f["key"] in seen:
                continue
            seen.add(f["key"])
            chk.finding(f["key"], f["what"], inputs=f["inputs"], cmd=f.get("cmd"), key=f["key"])
    chk.add_bounded("every constructor and config function on arbitrary text: returns or raises ValueError/TypeError within 30 CPU seconds; returned text is accepted again",
                    sum(d for _, d in res), len(ts), f"{len(ts)} texts (all token soups of <= 2 tokens over a {len(VOCAB)}-token vocabulary, seeded soups of 3..7 tokens, "
                    "truncations / permutations / one-token replacements of 15 valid texts, empty and whitespace, very long inputs) x 14 entry points x 2 platforms",
                    viol, time.time() - t0, ts[100:103], exhaustive=False)
    t0 = time.time()
    icases = [(p, ich, w) for p in ("ios", "nxos") for ich in (" ", "\t", "\xa0", "\u3000", " \t", "\x1f") for w in (1, 2, 5)]
    res = pmap(check_indent_invariance, icases)
    viol = 0
    for fails, _ in res:
        for f in fails:
            viol += 1
            chk.finding(f["key"], f["what"], inputs=f["inputs"], cmd=f.get("cmd"), key=f["key"])
    chk.add_bounded("acls()/addrgroups(): the same configuration with another indentation (width, whitespace character) gives the same result", len(icases), len(icases),
                    "6 indentation strings x 3 widths x 2 platforms", viol, time.time() - t0, [list(icases[4])], exhaustive=True)
    chk.assumptions += ["regular-expression run time is only covered by the CPU-time limit of the bounded run (30 s per call; the slowest generated input needs about 2 s)"]
    return chk.finish("other", "Deductive: safety (index / None / int()) and termination obligations of the text kernels under contract (is_line_for_acl: loop "
                      "with decreasing length, no recursion). Bounded (labelled): exception class, wall-clock limit and re-acceptance on generated texts.",
                      trusted_base=["z3 5.1.0", "pyvc"])


if __name__ == "__main__":
    run("C20", main)
