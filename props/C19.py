"""C19 - Splitting multi-port entries into single-port entries keeps the meaning."""
import itertools
import os
import sys
import time

sys.path.insert(0, os.path.dirname(os.path.dirname(os.path.abspath(__file__))))
import z3
from pyvc.driver import run, pmap
import shadow_common as sc
from spec import cisco_ref, sets


def lemmas():
    """L19.replace: replacing rule j of a list by w adjacent rules with the same action whose match sets have union Match(j)
    keeps the first-match decision of every packet (stated for an arbitrary fixed packet)."""
    M = z3.Function("Match", z3.IntSort(), z3.BoolSort())       # original list, the fixed packet
    N = z3.Function("MatchNew", z3.IntSort(), z3.BoolSort())    # new list
    act = z3.Function("action", z3.IntSort(), z3.IntSort())
    actn = z3.Function("actionNew", z3.IntSort(), z3.IntSort())
    n, j, w, f, g, i, piece = z3.Ints("n j w f g i piece")
    # new list: indices < j unchanged, j..j+w-1 the pieces, >= j+w shifted by w-1
    same = z3.ForAll([i], z3.And(
        z3.Implies(z3.And(0 <= i, i < j), z3.And(N(i) == M(i), actn(i) == act(i))),
        z3.Implies(z3.And(j <= i, i < j + w), z3.And(z3.Implies(N(i), M(j)), actn(i) == act(j))),
        z3.Implies(z3.And(j + w <= i, i < n + w - 1), z3.And(N(i) == M(i - w + 1), actn(i) == act(i - w + 1)))))
    union = z3.Implies(M(j), z3.And(j <= piece, piece < j + w, N(piece)))     # witness: the piece that matches
    hy = [0 <= j, j < n, w >= 1, same, union]
    first_old = z3.And(0 <= f, f < n, M(f), z3.ForAll([i], z3.Implies(z3.And(0 <= i, i < f), z3.Not(M(i)))))
    first_new = z3.And(0 <= g, g < n + w - 1, N(g), z3.ForAll([i], z3.Implies(z3.And(0 <= i, i < g), z3.Not(N(i)))))
    def at(forall, t):
        return z3.substitute_vars(forall.body(), t)
    old_all = first_old.arg(3)
    new_all = first_new.arg(3)
    none_new = z3.ForAll([i], z3.Implies(z3.And(0 <= i, i < n + w - 1), z3.Not(N(i))))
    none_old = z3.ForAll([i], z3.Implies(z3.And(0 <= i, i < n), z3.Not(M(i))))
    # explicit instances (the witnesses of the case analysis f < j, f == j, f > j)
    inst = [at(same, t) for t in (f, g, f + w - 1, piece)] + [at(new_all, t) for t in (f, f + w - 1, piece)] + [at(old_all, t) for t in (g, g - w + 1, j)]
    return [
        ("L19.replace.action", hy + [first_old, first_new] + inst, actn(g) == act(f), {}),
        ("L19.replace.nomatch", hy + [first_old, none_new] + [at(same, t) for t in (f, f + w - 1, piece)] + [at(none_new, t) for t in (f, f + w - 1, piece)],
         z3.BoolVal(False), {}),
        ("L19.replace.nomatch2", hy + [first_new, none_old] + [at(same, g)] + [at(none_old, t) for t in (g, g - w + 1, j)], z3.BoolVal(False), {}),
    ]


PORTSETS = ["", "eq 1", "eq 1 2", "eq 1 2 3", "eq 5 3 9 65535", "neq 7", "neq 3 4", "neq 1 2 3", "gt 100", "range 5 9", "eq 1 2 3 4 5 6 7 8 9 10"]


def split_spec(line):
    """reference: the single-port entries a split must produce (as semantics) and whether the entry needs splitting"""
    ref = cisco_ref.read_ace(line, "ios")
    return ref


def check_ace(arg):
    import cisco_acl
    sp, dp, others = arg
    line = f"permit tcp host 10.0.0.1 {sp} 10.0.0.0 0.0.0.255 {dp} {others}".replace("  ", " ").strip()
    line = " ".join(line.split())
    ace = cisco_acl.Ace(line, platform="ios", note="n1")
    fails = []
    inputs = dict(line=line)

    def bad(kind, what):
        op = "neq" if ("neq" in kind_ops) else "eq"
        fails.append(dict(key=f"bounded/Ace.ungroup_ports:{kind}:{op}{'-multi' if multi_neq else ''}", what=what, inputs=inputs,
                          cmd=("import sys; sys.path.insert(0, 'props'); import C19\n"
                               f"fails, _ = C19.check_ace({arg!r})\nprint([f['what'] for f in fails]); sys.exit(1 if fails else 0)\n")))
    kind_ops = {x.split()[0] for x in (sp, dp) if x}
    multi_neq = any(x.startswith("neq") and len(x.split()) > 2 for x in (sp, dp))
    orig = cisco_ref.read_ace(line, "ios").sem
    try:
        parts = ace.ungroup_ports()
    except Exception as ex:
        bad("error", f"{type(ex).__name__}: {ex}")
        return fails, 1
    needs = any(x.split()[0] in ("eq", "neq") and len(x.split()) > 2 for x in (sp, dp) if x)
    if not needs:
        if parts != [ace] or parts[0] is not ace:
            bad("needless", f"entry needs no splitting but ungroup_ports returned {[p.line for p in parts]}")
        return fails, 1
    sems = []
    for p in parts:
        for side in ("srcport", "dstport"):
            port = getattr(p, side)
            if port.operator in ("eq", "neq") and len(port.items) != 1:
                bad("not-single", f"piece {p.line!r} lists {len(port.items)} ports on {side}")
        try:
            sems.append(cisco_ref.read_ace(p.line, "ios").sem)
        except cisco_ref.RefError as ex:
            bad("syntax", f"piece {p.line!r} is not valid: {ex}")
            return fails, 1
    # every other field kept
    for s in sems:
        if (s.action, s.proto, s.src, s.dst, s.flags, s.logs) != (orig.action, orig.proto, orig.src, orig.dst, orig.flags, orig.logs):
            bad("field-changed", f"a piece changes a field other than the ports: {[p.line for p in parts]}")
            break
    # union of the packet sets == original set: the address/protocol/flag fields are equal, so compare port rectangles
    want = {(a, b) for a in (orig.sports if orig.sports is not None else [None]) for b in (orig.dports if orig.dports is not None else [None])} \
        if (orig.sports is None or len(orig.sports) < 400) and (orig.dports is None or len(orig.dports) < 400) else None
    if want is not None:
        got = set()
        for s in sems:
            got |= {(a, b) for a in (s.sports if s.sports is not None else [None]) for b in (s.dports if s.dports is not None else [None])}
        if got != want:
            bad("union", f"union of the pieces differs from the original: {len(got)} vs {len(want)} port pairs; pieces {[p.line for p in parts][:4]}")
    else:
        # large sets (neq): union per side
        for side in ("sports", "dports"):
            o = getattr(orig, side)
            u = None
            for s in sems:
                v = getattr(s, side)
                u = v if u is None else (None if v is None else (u | v))
            if (o is None) != (u is None) or (o is not None and o != u):
                bad("union", f"{side}: union of the pieces has {None if u is None else len(u)} ports, the original {None if o is None else len(o)}; "
                             f"pieces {[p.line for p in parts][:4]}")
    return fails, 1


def check_acl(arg):
    """splitting inside AceGroup / Acl: pieces stand where the original stood, everything else untouched"""
    import cisco_acl
    pos, n_before, n_after, grouped = arg
    multi = "permit tcp any eq 1 2 any eq 3 4 log"
    others = ["remark = A", "permit ip any any", "deny udp any any eq 53", "permit tcp any any eq 80"]
    if pos:          # variant with verbatim repeated lines (they must all survive)
        others = ["remark ---- ticket", "permit ip any any", "remark ---- ticket", "permit ip any any"]
    lines = others[:n_before] + [multi] + others[n_before:n_before + n_after]
    head = "ip access-list extended X"
    acl = cisco_acl.Acl("\n".join([head] + lines), platform="ios")
    if grouped:
        acl.group("=")
    acl.ungroup_ports()
    flat = []
    for o in acl.items:
        flat.extend(o.items if isinstance(o, cisco_acl.AceGroup) else [o])
    got = [o.line for o in flat]
    norm = lambda l: l if l.startswith("remark") else cisco_acl.Ace(l, platform="ios").line
    want = [norm(l) for l in others[:n_before]] + [f"permit tcp any eq {a} any eq {b} log" for a in (1, 2) for b in (3, 4)] \
        + [norm(l) for l in others[n_before:n_before + n_after]]
    fails = []
    if got != want:
        fails.append(dict(key="bounded/Acl.ungroup_ports:position", what=f"after splitting: {got}, expected {want}", inputs=dict(lines=lines, grouped=grouped)))
    return fails, 1


def check_many(arg):
    """several multi-port entries in one container: every one is split where it stood, nothing else moves or disappears"""
    import cisco_acl
    kinds, container = arg[:2]
    numbering = arg[2] if len(arg) > 2 else "none"
    lines, want = [], []
    for i, k in enumerate(kinds):
        if k == "m":        # two source ports
            lines.append(f"permit tcp any eq {10 * i + 1} {10 * i + 2} any")
            want += [f"permit tcp any eq {10 * i + 1} any", f"permit tcp any eq {10 * i + 2} any"]
        elif k == "M":      # three destination ports
            lines.append(f"deny udp any any eq {10 * i + 1} {10 * i + 2} {10 * i + 3}")
            want += [f"deny udp any any eq {10 * i + j}" for j in (1, 2, 3)]
        elif k == "s":
            lines.append(f"permit tcp any any eq {10 * i + 5}")
            want.append(lines[-1])
        else:
            lines.append(f"remark {'= ' if i == 0 else ''}note {i}")
            want.append(lines[-1])
    if numbering != "none":
        # the position in the list is what counts, whatever the sequence numbers say: descending numbers, or numbered
        # entries followed by an entry appended without a number
        n_ = len(lines)
        seqs = [str(10 * (n_ - i)) for i in range(n_)] if numbering == "descending" else [str(10 * (i + 1)) for i in range(n_ - 1)] + [""]
        step = iter(seqs)
        cur, out_l, out_w, k = None, [], [], 0
        pieces = [2 if kd == "m" else 3 if kd == "M" else 1 for kd in kinds]
        for l_, pc in zip(lines, pieces):
            sq = next(step)
            out_l.append(f"{sq} {l_}".strip())
            for _ in range(pc):
                out_w.append(f"{sq} {want[k]}".strip())
                k += 1
        lines, want = out_l, out_w
    if container == "acegroup":
        box = cisco_acl.AceGroup("\n".join(lines), platform="ios", port_nr=True)
    else:
        box = cisco_acl.Acl("\n".join(["ip access-list extended X"] + lines), platform="ios", port_nr=True)
        if container == "acl-grouped":
            box.group("=")
    box.ungroup_ports()
    flat = []
    for o in box.items:
        flat.extend(o.items if isinstance(o, cisco_acl.AceGroup) else [o])
    got = [o.line for o in flat]
    if got != want:
        return [dict(key=f"bounded/{container}.ungroup_ports:many" + ("" if numbering == "none" else f":{numbering}"), what=f"after splitting {lines}: {got}, expected {want}", inputs=dict(lines=lines, container=container),
                     cmd=("import sys; sys.path.insert(0, 'props'); import C19\n"
                          f"fails, _ = C19.check_many({arg!r})\nprint([f['what'] for f in fails]); sys.exit(1 if fails else 0)\n"))], 1
    return [], 1


def table_ports():
    """every port number of the library's own keyword tables (read from the source), so that entries are rendered with keywords wherever a table has one"""
    import ast
    from pyvc import loader
    nums = set()
    tree = ast.parse(open(os.path.join(loader.REPO, "cisco_acl", "port_name.py")).read())
    for n in ast.walk(tree):
        if isinstance(n, ast.Dict):
            for v in n.values:
                if isinstance(v, ast.Constant) and isinstance(v.value, int) and not isinstance(v.value, bool) and 0 < v.value < 65536:
                    nums.add(v.value)
    return sorted(nums)


def check_named(arg):
    """entries whose ports have keywords in some version's table: the pieces (compared as objects, i.e. as port numbers) are exactly the single-port
    entries of the original, whatever the version spells them like"""
    import cisco_acl
    version, proto, route, port_nr, dports = arg
    line = f"permit {proto} any eq 1 2 any eq {' '.join(map(str, dports))}"
    fails = []

    def bad(kind, what):
        fails.append(dict(key=f"bounded/ungroup_ports:named:{kind}:{route}", what=what, inputs=dict(line=line, version=version, route=route, port_nr=port_nr),
                          cmd=("import sys; sys.path.insert(0, 'props'); import C19\n"
                               f"fails, _ = C19.check_named({arg!r})\nprint([f['what'] for f in fails]); sys.exit(1 if fails else 0)\n")))
    kw = dict(platform="ios", version=version, port_nr=port_nr)
    try:
        if route == "ace":
            ace = cisco_acl.Ace(line, **kw)
            opt0 = ace.option.line
            parts = ace.ungroup_ports()
        else:
            if route == "acl-text":
                box = cisco_acl.Acl("ip access-list extended X\n " + line, **kw)
            elif route == "acegroup-text":
                box = cisco_acl.AceGroup(line, **kw)
            else:       # the entry is built first (no version given) and handed to a container that has one
                box = cisco_acl.Acl(name="X", type="extended", items=[cisco_acl.Ace(line, platform="ios", port_nr=port_nr)], **kw)
            opt0 = box.items[0].option.line
            box.ungroup_ports()
            parts = list(box.items)
    except Exception as ex:
        bad("error", f"{route} {line!r} version={version!r} port_nr={port_nr}: {type(ex).__name__}: {str(ex)[:160]}")
        return fails, 1
    got = sorted((tuple(p.srcport.ports), tuple(p.dstport.ports)) for p in parts if isinstance(p, cisco_acl.Ace))
    want = sorted(((a,), (b,)) for a in (1, 2) for b in dports)
    if got != want:
        bad("pieces", f"{route} {line!r} version={version!r} port_nr={port_nr}: pieces carry the ports {got[:6]}, expected {want[:6]}; lines {[p.line for p in parts][:4]}")
    elif any(p.option.line != opt0 or p.protocol.name != proto or p.srcaddr.line != "any" or p.dstaddr.line != "any" for p in parts):
        bad("field-changed", f"{route} {line!r} version={version!r}: a piece changes a field other than the ports: {[p.line for p in parts][:4]}")
    return fails, 1


def check_group_fields(arg):
    """pieces keep what the text does not show: members of referenced address groups, notes, numeric switches, sequence"""
    import cisco_acl
    platform, sp, dp = arg
    g = "object-group" if platform == "ios" else "addrgroup"
    line = " ".join(f"10 permit tcp {g} G1 {sp} {g} G3 {dp} log".split())
    fails = []

    def bad(kind, what):
        fails.append(dict(key=f"bounded/Ace.ungroup_ports:hidden-fields:{kind}", what=what, inputs=dict(line=line, platform=platform),
                          cmd=("import sys; sys.path.insert(0, 'props'); import C19\n"
                               f"fails, _ = C19.check_group_fields({arg!r})\nprint([f['what'] for f in fails]); sys.exit(1 if fails else 0)\n")))
    try:
        ace = sc.make_ace(line, platform, note="keep me", port_nr=True)
    except ValueError:
        return [], 0        # several ports in one entry are not NX-OS syntax
    want_src = sorted(m.line for m in ace.srcaddr.items)
    want_dst = sorted(m.line for m in ace.dstaddr.items)
    parts = ace.ungroup_ports()
    for p_ in parts:
        if sorted(m.line for m in p_.srcaddr.items) != want_src or sorted(m.line for m in p_.dstaddr.items) != want_dst:
            bad("members", f"piece {p_.line!r} references its groups with members {[m.line for m in p_.srcaddr.items]} / {[m.line for m in p_.dstaddr.items]}, "
                           f"the entry had {want_src} / {want_dst}")
            break
        if p_.note != "keep me" or p_.port_nr is not True or p_.sequence != 10 or p_.platform != platform:
            bad("attributes", f"piece {p_.line!r}: note={p_.note!r} port_nr={p_.port_nr} sequence={p_.sequence} platform={p_.platform}")
            break
    # second use of the same entry: what the text does not show is changed (members of the source group replaced, other note), then it is split again
    other = [cisco_acl.Address(m, platform=platform) for m in sc.GROUPS[platform]["G2"]]
    ace.srcaddr.items = other
    ace.note = "changed"
    want_src = sorted(m.line for m in other)
    for p_ in ace.ungroup_ports():
        if sorted(m.line for m in p_.srcaddr.items) != want_src or sorted(m.line for m in p_.dstaddr.items) != want_dst:
            bad("members-after-edit", f"second split after the members of the source group were replaced: piece {p_.line!r} carries {[m.line for m in p_.srcaddr.items]} / "
                                      f"{[m.line for m in p_.dstaddr.items]}, the entry has {want_src} / {want_dst}")
            break
        if p_.note != "changed":
            bad("attributes-after-edit", f"second split after the note was changed: piece {p_.line!r} has note={p_.note!r}")
            break
    return fails, 1


def main(chk):
    chk.lemmas(lemmas())
    t0 = time.time()
    cases = [(sp, dp, o) for sp in PORTSETS for dp in PORTSETS for o in ("", "ack log")]
    res = pmap(check_ace, cases)
    viol = 0
    for fails, _ in res:
        for f in fails:
            viol += 1
            chk.finding(f["key"], f["what"], inputs=f["inputs"], cmd=f.get("cmd"), key=f["key"])
    chk.add_bounded("Ace.ungroup_ports: one port per side, other fields kept, union of packet sets == original", len(cases), len(cases),
                    f"{len(PORTSETS)} source x {len(PORTSETS)} destination port expressions (eq/neq with 1..10 operands, gt, range, none) x 2 option sets",
                    viol, time.time() - t0, [list(cases[14])], exhaustive=True)
    t0 = time.time()
    cases = [(p_, a, b, g) for p_ in (0, 1) for a in range(4) for b in range(4 - a + 1) for g in (False, True)]
    res = pmap(check_acl, cases)
    viol = 0
    for fails, _ in res:
        for f in fails:
            viol += 1
            chk.finding(f["key"], f["what"], inputs=f["inputs"], key=f["key"])
    chk.add_bounded("Acl/AceGroup.ungroup_ports: pieces stand where the original stood", len(cases), len(cases), "multi-port entry at every position among <= 4 other items, flat and grouped",
                    viol, time.time() - t0, [list(cases[3])], exhaustive=True)
    t0 = time.time()
    import itertools
    cases = [(ks, c) for n in range(1, 6) for ks in itertools.product("mMsr", repeat=n) for c in ("acl", "acl-grouped", "acegroup")]
    cases += [(ks, c, nb) for n in range(2, 5) for ks in itertools.product("mMs", repeat=n) for c in ("acl", "acegroup") for nb in ("descending", "last-unnumbered")]
    res = pmap(check_many, cases)
    viol = 0
    for fails, _ in res:
        for f in fails:
            viol += 1
            chk.finding(f["key"], f["what"], inputs=f["inputs"], cmd=f.get("cmd"), key=f["key"])
    chk.add_bounded("Acl/AceGroup.ungroup_ports with several multi-port entries: each split where it stood, nothing lost or moved", len(cases), len(cases),
                    "all lists of <= 5 items over {2-port entry, 3-port entry, single-port entry, remark} in a flat ACL, a grouped ACL and an AceGroup; "
                    "lists of 2..4 entries with descending sequence numbers or a last entry without a number",
                    viol, time.time() - t0, [list(cases[77])], exhaustive=True)
    t0 = time.time()
    cases = [(pl, sp_, dp_) for pl in ("ios", "nxos") for sp_ in ("", "eq 80", "eq 80 443", "neq 1 2 3") for dp_ in ("", "eq 22 23", "range 20 21", "eq 1")]
    res = pmap(check_group_fields, cases)
    viol = 0
    for fails, _ in res:
        for f in fails:
            viol += 1
            chk.finding(f["key"], f["what"], inputs=f["inputs"], cmd=f.get("cmd"), key=f["key"])
    chk.add_bounded("Ace.ungroup_ports: pieces keep group members, note, switches, sequence, platform", len(cases), sum(d for _, d in res),
                    "entries with address groups on both sides (members attached) x 4 source x 4 destination port expressions x 2 platforms", viol, time.time() - t0,
                    [list(cases[2])], exhaustive=True)
    t0 = time.time()
    nums = table_ports()
    chunks = [tuple(nums[i:i + 3]) for i in range(0, len(nums), 3)]
    chunks = [c if len(c) > 1 else c + (65000,) for c in chunks]
    chunks += [tuple(reversed(c)) for c in chunks[::4]]
    cases = [(v, pr, route, nr, c) for v in ("0", "12.4", "15.2(02)SY", "16.09.06") for pr in ("tcp", "udp") for route in ("ace", "acl-text", "acegroup-text", "acl-objects")
             for nr in (False, True) for c in chunks]
    if chk.tier == "quick":
        cases = [c for c in cases if c[2] in ("ace", "acl-objects") or c[3] is False]
    res = pmap(check_named, cases)
    viol = 0
    for fails, _ in res:
        for f in fails:
            viol += 1
            chk.finding(f["key"], f["what"], inputs=f["inputs"], cmd=f.get("cmd"), key=f["key"])
    chk.add_bounded("ungroup_ports on entries whose ports have keywords: pieces compared as port numbers, per software version", len(cases), len(cases),
                    f"{len(nums)} port numbers of the library's keyword tables in groups of 3 (and reversed) x 4 versions x tcp/udp x Ace / Acl from text / AceGroup from text / "
                    "Acl from objects x port_nr", viol, time.time() - t0, [list(cases[5])], exhaustive=True)
    chk.assumptions += ["Ace.ungroup_ports is object-graph code (copy(), items setter): its contract is checked natively, not proved"]
    return chk.finish("other",
                      "Deductive: lemma L19.replace (replacing a rule by adjacent same-action rules whose union is the rule keeps every first-match decision). Bounded "
                      "(labelled): the contract of Ace/AceGroup/Acl.ungroup_ports on all eq/neq operand shapes, decided with the independent reader.",
                      trusted_base=["z3 5.1.0", "spec/cisco_ref.py", "spec/sets.py"])


if __name__ == "__main__":
    run("C19", main)
