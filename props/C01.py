"""C01 - Parsing an ACE keeps its meaning (fields and re-rendered text)."""
import os
import sys
import time

sys.path.insert(0, os.path.dirname(os.path.dirname(os.path.abspath(__file__))))
from pyvc.driver import run, pmap
from bounded import gen, libsem
from spec import cisco_ref, sets


def check_line(arg):
    """contract of Ace(line): Sem(ace) == RefRead(text) field by field; RefRead(ace.line) == RefRead(text)"""
    import cisco_acl
    line, platform, version, port_nr, protocol_nr = arg
    inputs = dict(line=line, platform=platform, version=version, port_nr=port_nr, protocol_nr=protocol_nr)
    try:
        ref = cisco_ref.read_ace(line, platform)
    except cisco_ref.RefError as ex:
        return [dict(key="harness/ref", what=f"reference reader rejects generated line: {ex}", inputs=inputs)], 0
    try:
        ace = cisco_acl.Ace(line, platform=platform, version=version, port_nr=port_nr, protocol_nr=protocol_nr)
    except Exception as ex:
        return [dict(key=f"bounded/Ace(line):rejects:{type(ex).__name__}", what=f"valid line rejected: {type(ex).__name__}: {ex}", inputs=inputs)], 1
    fails = []
    sem = libsem.ace_sem(ace)

    def bad(field, what):
        tok = ref.proto_token if field == "proto" else ""
        fails.append(dict(key=f"bounded/Ace(line):{field}" + (f":{tok}" if tok in ("0", "ip") else ""), what=what, inputs=inputs))
    if sem.action != ref.sem.action:
        bad("action", f"action {sem.action!r} != {ref.sem.action!r}")
    if ace.sequence != ref.sequence:
        bad("sequence", f"sequence {ace.sequence} != {ref.sequence}")
    if sem.proto != ref.sem.proto:
        bad("proto", f"protocol set {sorted(sem.proto) if sem.proto else 'any'} != Cisco meaning {sorted(ref.sem.proto) if ref.sem.proto else 'any'} of token {ref.proto_token!r}")
    for side in ("src", "dst"):
        w = sets.union_equal(getattr(sem, side), getattr(ref.sem, side))
        if w is not None:
            bad(side + "addr", f"{side} address set differs at address {w}")
        obj = getattr(ace, side + "addr")
        w = sets.union_equal(libsem.addr_cubes_wildcard(obj), getattr(ref.sem, side))
        if w is not None:
            bad(side + "addr.wildcard", f"{side} wildcard text {obj.wildcards()} differs at address {w}")
        if getattr(sem, side + "ports" if False else side[0] + "ports") != getattr(ref.sem, side[0] + "ports"):
            a, b = getattr(sem, side[0] + "ports"), getattr(ref.sem, side[0] + "ports")
            bad(side + "port", f"{side} port set differs (sizes {None if a is None else len(a)} vs {None if b is None else len(b)})")
    if sem.flags != ref.sem.flags:
        bad("flags", f"flag tokens {sorted(sem.flags)} != {sorted(ref.sem.flags)}")
    if sem.logs != ref.sem.logs:
        bad("logs", f"log tokens {sorted(sem.logs)} != {sorted(ref.sem.logs)}")
    # rendered line, read independently on the same platform
    rt = ace.line.split()
    rp = (rt[2] if rt and rt[0].isdigit() else rt[1]) if len(rt) > 2 else ""
    if any(t in ("eq", "neq", "gt", "lt", "range") for t in rt) and rp not in ("tcp", "udp") and ref.sem.proto is not None and ref.sem.proto <= {6, 17}:
        # device syntax: a port operator is only accepted after the keyword tcp / udp (accepted as INPUT spelling `6` / `17`, never rendered that way)
        fails.append(dict(key="bounded/Ace.line:syntax:port-after-protocol-number", what=f"rendered {ace.line!r} puts a port operator after the protocol {rp!r}", inputs=inputs))
    try:
        ref2 = cisco_ref.read_ace(ace.line, platform)
        w = sets.sem_equal(ref2.sem, ref.sem)
        if w is not None:
            tok = ref.proto_token if w.get("field") == "proto" else ""
            fails.append(dict(key="bounded/Ace.line:meaning" + (f":{tok}" if tok in ("0", "ip") else ""),
                              what=f"rendered {ace.line!r} differs from input at {w}", inputs=inputs))
        elif ref2.sequence != ref.sequence or ref2.sem.flags != ref.sem.flags or ref2.sem.logs != ref.sem.logs:
            fails.append(dict(key="bounded/Ace.line:tokens", what=f"rendered {ace.line!r} changes sequence/flags/logs", inputs=inputs))
    except cisco_ref.RefError as ex:
        fails.append(dict(key="bounded/Ace.line:syntax", what=f"rendered {ace.line!r} is not valid Cisco syntax: {ex}", inputs=inputs))
    for f in fails:
        f["cmd"] = ("import sys; sys.path.insert(0, 'props'); import C01\n"
                    f"fails, _ = C01.check_line({arg!r})\nprint([f['what'] for f in fails]); sys.exit(1 if fails else 0)\n")
    return fails, 1


def cases(tier, seed):
    out = []
    for platform in ("ios", "nxos"):
        lines = list(gen.gen_ace(platform, tier, seed))
        for i, line in enumerate(lines):
            if tier == "quick":
                combos = [("0", False, False)] + ([("15", True, False), ("16", False, True), ("9", True, True)] if i % 4 == 0 else [])
            else:
                combos = [(v, a, b) for v in gen.VERSIONS for a, b in gen.SWITCHES] if i % 3 == 0 else [("0", False, False), ("15", True, True)]
            for version, port_nr, protocol_nr in combos:
                out.append((line, platform, version, port_nr, protocol_nr))
    # every port name a (platform, version) accepts, in source and destination position, alone and after another port
    from pyvc import loader
    c = loader.module_constants("cisco_acl.port_name")
    tabs = {("ios", "15"): ("TCP_NAME_PORT__IOS_15", "UDP_NAME_PORT__IOS_15"), ("ios", "16"): ("TCP_NAME_PORT__IOS_16", "UDP_NAME_PORT__IOS_16"),
            ("ios", "0"): ("TCP_NAME_PORT__IOS_16", "UDP_NAME_PORT__IOS_16"), ("nxos", "9"): ("TCP_NAME_PORT__NXOS", "UDP_NAME_PORT__NXOS")}
    for (platform, version), (tt, ut) in tabs.items():
        for proto, tab in (("tcp", tt), ("udp", ut)):
            for name in c[tab]:
                for port_nr in (False, True):
                    out.append((f"permit {proto} any any eq {name} log", platform, version, port_nr, False))
                    out.append((f"permit {proto} any eq {name} any", platform, version, port_nr, False))
                    if platform == "ios":
                        out.append((f"permit {proto} any any eq 4444 {name}", platform, version, port_nr, False))
    # the protocol token 0 (IANA HOPOPT) - the library identifies it with the keyword `ip`
    for platform in ("ios", "nxos"):
        out.append(("permit 0 any any", platform, "0", False, False))
        out.append(("permit ip any any", platform, "0", False, True))
    return out


def main(chk):
    chk.prove(["c_parsers"])          # the token splitter between destination ports and options
    t0 = time.time()
    cs = cases(chk.tier, chk.seed)
    res = pmap(check_line, cs)
    viol = 0
    for fails, _ in res:
        for f in fails:
            viol += 1
            chk.finding(f["key"], f["what"], inputs=f["inputs"], cmd=f.get("cmd"), key=f["key"])
    chk.add_bounded("Ace(line): Sem(ace) == RefRead(text) and RefRead(ace.line) == RefRead(text)", len(cs), sum(d for _, d in res),
                    "gen_ace grammar (each-choice per dimension, all address pairs, all srcport x dstport pairs for tcp/udp, whitespace and "
                    "sequence variants) x platforms x versions {0,15,16,9} x (port_nr, protocol_nr); thorough adds 20000 seeded products",
                    viol, time.time() - t0, [c[0] for c in cs[:3]], exhaustive=False)
    chk.assumptions += ["spec/cisco_ref.py + spec/ref_tables.py are the Cisco meaning (hand transcribed, independent of the library)",
                        "regular-expression front end (parsers.parse_ace_extended/standard) is outside pyvc's subset: bounded only"]
    return chk.finish("other", "Deductive: parsers._parse_dstport_option (all token lists: nothing lost or invented, order kept, the port run is maximal and made "
                      "of digits / names of the current tables only). Bounded (labelled): the regex front end and Ace.line against an independent reader of Cisco "
                      "syntax and exact set algebra.",
                      trusted_base=["spec/cisco_ref.py", "spec/sets.py", "spec/ref_tables.py"])


if __name__ == "__main__":
    run("C01", main)
