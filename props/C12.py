"""C12 - No rule line is lost without a trace when objects are built from text."""
import ast
import itertools
import logging
import os
import sys
import time

sys.path.insert(0, os.path.dirname(os.path.dirname(os.path.abspath(__file__))))
import z3
from pyvc.driver import run, pmap
from pyvc import loader
from pyvc.engine import Obligation

KINDS_ACL = {
    "ace": "permit tcp any any eq 80", "ace2": "10 deny ip host 10.0.0.1 any", "remark": "remark hello world", "seqremark": "20 remark x",
    "stat": "statistics per-entry", "desc": "description text", "ignore": "ignore this",
    "bad": "permit tcp any any eq", "garbage": "foo bar", "badace": "permit ip 10.0.0.0 any", "digits": "10 20 permit ip any any",
    "descr-x": "descriptionless deny ip any any", "ignored": "ignored-by-mistake permit tcp any any eq 22", "stat-x": "statistics-x per-entry",
    "description-only": "description", "permitx": "permitted tcp any any", "remarkx": "remarks hello",
    # lines that look like comments are body lines like any other (not entries: to be reported); long lines are valid lines
    "bang": "!", "bangtext": "! allow the monitoring hosts", "bangace": "!permit ip any any",
    "long-ace": "permit tcp host 192.168.100.100 range 10000 20000 host 192.168.200.200 range 30000 40000 ack fin psh rst syn urg log",
    "long-remark": "remark " + "change 4711 approved by the network board on 2024-01-31, see ticket NET-000123 for the complete story".ljust(100, "."),
}
KINDS_AG = {
    "ios": {"host": "host 10.0.0.1", "subnet": "10.0.0.0 255.255.255.0", "seq": "10 host 10.0.0.2", "desc": "description members", "bad": "foo bar",
            "badmask": "10.0.0.0 255.0.255.0", "group": "group-object OTHER"},
    "nxos": {"host": "host 10.0.0.1", "prefix": "10.0.0.0/24", "seq": "10 10.0.1.0/24", "desc": "description members", "bad": "foo bar",
             "wild": "20 10.0.0.0 0.0.1.3", "badprefix": "10.0.0.0/33"},
}


class Capture(logging.Handler):
    def __init__(self):
        super().__init__(level=logging.DEBUG)
        self.records = []

    def emit(self, record):
        self.records.append((record.levelname, record.getMessage()))


def depth_obligations(targets):
    """a target that calls itself needs a bound on the recursion depth; without one the depth obligation is refuted"""
    out = []
    for q in targets:
        try:
            modname, fdef, cls = loader.find_function(q)
        except loader.LoadError:
            continue
        rec = any(isinstance(n, ast.Call) and ((isinstance(n.func, ast.Name) and n.func.id == fdef.name) or
                                               (isinstance(n.func, ast.Attribute) and n.func.attr == fdef.name and
                                                isinstance(n.func.value, ast.Name) and n.func.value.id in ("self", "cls")))
                  for n in ast.walk(fdef))
        out.append((q, not rec))
    return out


def replay_depth():
    from cisco_acl import helpers as h
    line = "1 " * 3000 + "permit ip any any"
    try:
        r = h.is_line_for_acl(line)
        return True, repr(r)
    except RecursionError as ex:
        return False, f"RecursionError: {ex}"


def check_standard(arg):
    """a standard access list whose body contains an extended entry: the line is an item that means what was written, or it is reported"""
    import cisco_acl
    from spec import cisco_ref, sets
    body, = arg
    root = logging.getLogger()
    cap = Capture()
    old_level = root.level
    root.addHandler(cap)
    root.setLevel(logging.DEBUG)
    try:
        try:
            acl = cisco_acl.Acl("\n".join(["ip access-list standard S"] + [" " + l for l in body]), platform="ios")
        except (ValueError, TypeError):
            return [], 1
    finally:
        root.removeHandler(cap)
        root.setLevel(old_level)
    items = [o.line for o in acl.items]
    warns = " | ".join(m for lvl, m in cap.records)
    fails = []
    for l in body:
        toks = l.split()
        extended = len(toks) > 3 and toks[1] in ("tcp", "udp", "ip", "icmp")
        if not extended:
            continue
        if l in warns:
            continue
        want = cisco_ref.read_ace(l, "ios").sem
        ok = False
        for it in items:
            try:
                got = cisco_ref.read_ace(it, "ios").sem
            except cisco_ref.RefError:
                # a standard entry: permit/deny + source address only -> any protocol, any destination, no ports
                try:
                    t = it.split()
                    got = cisco_ref.read_ace(f"{t[0]} ip {' '.join(t[1:])} any", "ios").sem
                except cisco_ref.RefError:
                    continue
            if sets.sem_equal(got, want) is None:
                ok = True
        if not ok:
            fails.append(dict(key="bounded/Acl(text):standard-list-rewrites-extended-line", what=f"body line {l!r} of a standard access list is neither reported nor "
                              f"represented: items are {items}", inputs=dict(body=list(body)),
                              cmd=("import sys; sys.path.insert(0, 'props'); import C12\n"
                                   f"fails, _ = C12.check_standard({arg!r})\nprint([f['what'] for f in fails]); sys.exit(1 if fails else 0)\n")))
    return fails, 1


def check_acl(arg):
    """accounting identity for Acl / AceGroup built from text with a capturing log handler"""
    import cisco_acl
    kinds, platform, cls = arg
    lines = [KINDS_ACL[k] for k in kinds]
    root = logging.getLogger()
    cap = Capture()
    old_level = root.level
    root.addHandler(cap)
    root.setLevel(logging.DEBUG)
    fails = []
    inputs = dict(lines=lines, platform=platform, cls=cls)
    try:
        try:
            if cls == "Acl":
                head = "ip access-list extended A" if platform == "ios" else "ip access-list A"
                obj = cisco_acl.Acl("\n".join([head] + ["  " + l for l in lines]), platform=platform)
            elif cls == "acls":
                # the same body reached through the configuration-level function (section dictionary, then Acl)
                head = "ip access-list extended A" if platform == "ios" else "ip access-list A"
                got_ = cisco_acl.acls("\n".join(["hostname R1", head] + [" " + l for l in lines] + ["interface Gi1", " ip access-group A in"]), platform=platform)
                if len(got_) != 1:
                    return [dict(key="bounded/acls(text):acl-missing", what=f"acls() returned {len(got_)} access lists for one section with body {lines}", inputs=inputs)], 1
                obj = got_[0]
            else:
                obj = cisco_acl.AceGroup("\n".join(lines), platform=platform)
        except (ValueError, TypeError) as ex:
            return [], 1     # the whole construction fails with a documented error: accounted
        except Exception as ex:
            return [dict(key=f"bounded/{cls}(text):error", what=f"{type(ex).__name__}: {ex}", inputs=inputs)], 1
    finally:
        root.removeHandler(cap)
        root.setLevel(old_level)
    items = [o.line for o in obj.items]
    warns = [m for lvl, m in cap.records if lvl == "WARNING"]
    pos = 0
    for k, l in zip(kinds, lines):
        norm = " ".join(l.split())
        valid = k in ("ace", "ace2", "remark", "seqremark", "long-ace", "long-remark")
        ignorable = l.startswith(("statistics ", "description ", "ignore "))
        represented = pos < len(items) and _same(items[pos], norm, platform)
        if represented:
            pos += 1
            continue
        if valid:
            fails.append(dict(key=f"bounded/{cls}(text):valid-line-dropped", what=f"valid line {l!r} is not represented at position {pos}: items={items}", inputs=inputs))
            break
        if ignorable:
            continue
        if not any(norm in w for w in warns):
            fails.append(dict(key=f"bounded/{cls}(text):silent-drop", what=f"line {l!r} was dropped without an item, a documented prefix or a warning naming it (warnings: {warns})",
                              inputs=inputs))
            break
    if not fails and pos != len(items):
        fails.append(dict(key=f"bounded/{cls}(text):extra-items", what=f"items {items} do not correspond to the lines {lines}", inputs=inputs))
    for f in fails:
        f["cmd"] = ("import sys; sys.path.insert(0, 'props'); import C12\n"
                    f"fails, _ = C12.check_acl({arg!r})\nprint([f['what'] for f in fails]); sys.exit(1 if fails else 0)\n")
    return fails, 1


def _same(item_line, src, platform):
    """the item renders the source line (names may be substituted for numbers: compare through the independent reader)"""
    from spec import cisco_ref, sets
    if "remark" in src.split()[:2]:
        return item_line.split() == src.split()
    try:
        a, b = cisco_ref.read_ace(item_line, platform), cisco_ref.read_ace(src, platform)
    except cisco_ref.RefError:
        return False
    return a.sequence == b.sequence and sets.sem_equal(a.sem, b.sem) is None


def check_ag(arg):
    import cisco_acl
    kinds, platform = arg
    lines = [KINDS_AG[platform][k] for k in kinds]
    head = "object-group network G" if platform == "ios" else "object-group ip address G"
    root = logging.getLogger()
    cap = Capture()
    old_level = root.level
    root.addHandler(cap)
    root.setLevel(logging.DEBUG)
    inputs = dict(lines=lines, platform=platform)
    try:
        try:
            g = cisco_acl.AddrGroup("\n".join([head] + ["  " + l for l in lines]), platform=platform)
        except (ValueError, TypeError):
            return [], 1
        except Exception as ex:
            return [dict(key="bounded/AddrGroup(text):error", what=f"{type(ex).__name__}: {ex}", inputs=inputs)], 1
    finally:
        root.removeHandler(cap)
        root.setLevel(old_level)
    items = [o.line for o in g.items]
    msgs = [m for _, m in cap.records]
    fails = []
    pos = 0
    for k, l in zip(kinds, lines):
        body = l.split()
        core = " ".join(body[1:] if body[0].isdigit() and len(body) > 1 and k == "seq" else body)
        if pos < len(items) and _same_addr(items[pos], l, platform):
            pos += 1
            continue
        if l.startswith("description "):
            continue
        if not any(core in m or l in m for m in msgs):
            fails.append(dict(key="bounded/AddrGroup(text):silent-drop", what=f"member line {l!r} has no item at position {pos}, no log record and no error (items={items}, log={msgs})",
                              inputs=inputs, cmd=("import sys; sys.path.insert(0, 'props'); import C12\n"
                                                  f"fails, _ = C12.check_ag({arg!r})\nprint([f['what'] for f in fails]); sys.exit(1 if fails else 0)\n")))
            break
    return fails, 1


def _same_addr(item_line, src, platform):
    from spec import cisco_ref, sets
    def parse(t):
        toks = t.split()
        if toks[0].isdigit() and len(toks) > 1 and ("." in toks[1] or toks[1] in ("host", "group-object")):
            toks = toks[1:]
        if toks[0] == "group-object":
            return ("group", toks[1])
        c, _, _ = cisco_ref.read_address(toks, 0, platform, None, mask_is_subnet=(platform == "ios"))
        return c
    try:
        a, b = parse(item_line), parse(src)
    except (cisco_ref.RefError, IndexError):
        return False
    if isinstance(a, tuple) and a and a[0] == "group" or isinstance(b, tuple) and b and b[0] == "group":
        return a == b
    return sets.union_equal(a, b) is None


def replay_line_to_oace(model, ob):
    """native search: a non-empty line that yields no item, has no documented prefix and produces no warning naming it"""
    for k, l in KINDS_ACL.items():
        fails, _ = check_acl(((k,), "ios", "AceGroup"))
        if fails:
            f = fails[0]
            return dict(violates=True, inputs=f["inputs"], what=f["what"], cmd=f.get("cmd"), key="ace_group.AceGroup._line_to_oace/post[accounted]")
    return dict(violates=False)


def main(chk):
    from pyvc import contract as C
    import contracts.c_lines  # noqa
    C.REGISTRY["cisco_acl.ace_group.AceGroup._line_to_oace"].replay = replay_line_to_oace
    chk.prove(["c_lines"])
    chk.replay_refuted()
    for q, ok in depth_obligations(["cisco_acl.helpers.is_line_for_acl"]):
        ob = Obligation(oid=f"{q}/depth", kind="depth", hyps=(), goal=z3.BoolVal(ok), target=q,
                        note="the function calls itself once per leading digit token: no bound on the recursion depth" if not ok else "no recursion")
        ob.result, ob.solver = ("PROVED" if ok else "REFUTED"), "syntactic recursion analysis"
        chk.obligations.append(ob)
        if not ok:
            good, obs = replay_depth()
            if not good:
                chk.finding(ob.oid, "a body line with 3000 leading digit tokens exhausts the interpreter stack: " + obs, observed=obs,
                            inputs=dict(line="'1 ' * 3000 + 'permit ip any any'"), key="helpers.is_line_for_acl/depth",
                            cmd="import sys; sys.path.insert(0, 'props'); import C12\nok, o = C12.replay_depth(); print(o); sys.exit(0 if ok else 1)\n")
            else:
                ob.result = "UNKNOWN"
    n = 3 if chk.tier == "quick" else 4
    t0 = time.time()
    kinds = list(KINDS_ACL)
    seqs = [s for k in range(1, n + 1) for s in itertools.product(kinds, repeat=k)]
    if chk.tier == "quick":
        seqs = seqs[::2] + [tuple(kinds)]
    cases = [(s, "ios", "Acl") for s in seqs] + [(s, "nxos", "Acl") for s in seqs[::5]] + [(s, "ios", "AceGroup") for s in seqs[::3]]
    cases += [(s, "ios", "acls") for s in seqs[::2] if s] + [(s, "nxos", "acls") for s in seqs[::7] if s]
    res = pmap(check_acl, cases)
    viol = 0
    for fails, _ in res:
        for f in fails:
            viol += 1
            chk.finding(f["key"], f["what"], inputs=f["inputs"], cmd=f.get("cmd"), key=f["key"])
    chk.add_bounded("accounting identity for Acl / AceGroup text (items in line order, ignorable prefixes, warnings naming the line, or an error)", len(cases), len(cases),
                    f"all sequences of <= {n} body lines over {len(kinds)} line kinds (valid, ignorable, invalid); capturing log handler", viol, time.time() - t0,
                    [list(cases[77][0])], exhaustive=(chk.tier != "quick"))
    t0 = time.time()
    t0 = time.time()
    scases = [((("permit host 1.1.1.1", "permit tcp any any eq 80")),), ((("permit tcp any any eq 80", "permit host 1.1.1.1")),), ((("permit 10.0.0.0 0.0.0.255", "deny ip any host 2.2.2.2", "deny any")),),
              ((("permit host 1.1.1.1", "deny any")),)]
    res = pmap(check_standard, scases)
    viol = 0
    for fails, _ in res:
        for f in fails:
            viol += 1
            chk.finding(f["key"], f["what"], inputs=f["inputs"], cmd=f.get("cmd"), key=f["key"])
    chk.add_bounded("standard access list with extended entries in its body: represented with its meaning, or reported", len(scases), len(scases), "4 bodies", viol,
                    time.time() - t0, [list(scases[0][0])], exhaustive=True)
    cases = [(s, p) for p in ("ios", "nxos") for k in range(1, n + 1) for s in itertools.product(list(KINDS_AG[p]), repeat=k)]
    res = pmap(check_ag, cases)
    viol = 0
    for fails, _ in res:
        for f in fails:
            viol += 1
            chk.finding(f["key"], f["what"], inputs=f["inputs"], cmd=f.get("cmd"), key=f["key"])
    chk.add_bounded("accounting identity for AddrGroup text (item, description, log record or error)", len(cases), len(cases),
                    f"all sequences of <= {n} member lines over 7 kinds per platform", viol, time.time() - t0, [list(cases[30][0])], exhaustive=True)
    chk.assumptions += ["AceGroup._line_to_ace (regex front end) is an assumed contract: returns an Ace/Remark for the line or raises ValueError/TypeError",
                        "f-string messages: `{line=}` of a string is modelled as quote+text+quote (no escapes)",
                        "IS(line) is the documented line shape [digits SPACE]* (permit|deny|remark) SPACE ...; is_line_for_acl is proved equal to it"]
    chk.assumptions += ["Acl.line.fset is proved for an ACL that is not grouped by remarks, over assumed contracts for helpers.lines_wo_spaces (the non-empty lines, named by a ghost list), "
                        "Acl._parse_type_name (returns or raises ValueError) and Acl.items.fset (stores the given objects in order); the log is ghost heap state Log.warned "
                        "(the texts some WARNING record contains), written by logging.warning"]
    return chk.finish("other",
                      "Deductive: Acl.line.fset accounts for every body line (object, documented prefix, or warning; loop invariant over the ghost log); every path of AceGroup._line_to_oace is accounted for (item kept <=> shape ok and parser returned; dropped => documented prefix or a "
                      "warning whose text contains the line; NetmaskValueError/TypeError propagate) and helpers.is_line_for_acl decides exactly the documented shape, "
                      "terminating with bounded stack. Bounded (labelled): the accounting identity end to end with a capturing log handler.",
                      trusted_base=["z3 5.1.0", "cvc5", "pyvc", "spec/cisco_ref.py"])


if __name__ == "__main__":
    run("C12", main)
