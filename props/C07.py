"""C07 - Config-level extraction returns exactly the ACLs, bindings and group members."""
import itertools
import os
import random
import sys
import time

sys.path.insert(0, os.path.dirname(os.path.dirname(os.path.abspath(__file__))))
from pyvc.driver import run, pmap
from spec import cisco_ref, sets

ACL_BODIES = {
    "ios": {"A1": ("extended", ["10 permit tcp host 10.0.0.1 any eq 80", "remark r one", "deny ip any any log"]),
            "B2": ("extended", ["permit ip object-group G1 any", "permit udp any object-group G2 eq 53"]),
            "S1": ("standard", ["permit 10.0.0.0 0.0.0.255", "deny any"]),
            "C-3": ("extended", ["permit icmp any any"]),
            "D4": ("extended", ["permit ip object-group G1 object-group G1", "deny tcp object-group G2 object-group G1 eq 22", "permit ip object-group G1 object-group G2"]),
            "E5": ("extended", ["remark ----------", "permit ip any any", "remark ----------", "permit ip any any", "remark ----------"]),
            "Z0": ("extended", []),          # an access list that is defined but has no entries (yet)
            "A1-OLD": ("extended", ["permit udp any any eq 53", "deny ip any any"]),      # a name that begins with another list's name
            # long lines: a remark with 100 characters of text, an entry of more than 100 characters
            "L6": ("extended", ["remark " + "change 4711 approved by the network board on 2024-01-31, see ticket NET-000123 for the complete story"[:100].ljust(100, "."),
                                "permit tcp 192.168.100.0 0.0.0.255 range 10000 20000 192.168.200.0 0.0.0.255 range 30000 40000 ack fin psh rst syn urg log-input",
                                "deny ip any any"])},
    "nxos": {"A1": ("extended", ["10 permit tcp 10.0.0.1/32 any eq 80", "20 remark r one", "30 deny ip any any log"]),
             "B2": ("extended", ["permit ip addrgroup G1 any", "permit udp any addrgroup G2 eq 53"]),
             "C-3": ("extended", ["permit icmp any any"]),
             "D4": ("extended", ["permit ip addrgroup G1 addrgroup G1", "deny tcp addrgroup G2 addrgroup G1 eq 22", "permit ip addrgroup G1 addrgroup G2"]),
             "E5": ("extended", ["remark ----------", "permit ip any any", "remark ----------", "permit ip any any", "remark ----------"]),
             "Z0": ("extended", []),
             "A1-OLD": ("extended", ["10 permit udp any any eq 53", "20 deny ip any any"]),
             "L6": ("extended", ["10 remark " + "change 4711 approved by the network board on 2024-01-31, see ticket NET-000123 for the complete story"[:100].ljust(100, "."),
                                 "4294967290 permit tcp 192.168.100.0 0.0.254.255 range 10000 20000 192.168.200.0 0.0.254.255 range 30000 40000 ack fin psh rst syn urg log",
                                 "4294967295 deny ip any any"])},
}
GROUP_BODIES = {
    "ios": {"G1": ["host 10.0.0.1", "10.0.0.0 255.255.255.0"], "G2": ["10.1.0.0 255.255.0.0", "description members of G2"]},
    "nxos": {"G1": ["10 host 10.0.0.1", "20 10.0.0.0/24"], "G2": ["10.1.0.0/16"]},
}
NOISE = ["template T1\n ip access-group A1 in\n description a template, not an interface", "hostname R1", "router bgp 65000\n neighbor 10.0.0.1 remote-as 65001\n address-family ipv4\n  network 10.0.0.0", "line vty 0 4\n transport input ssh",
         "! a comment", "ip route 0.0.0.0 0.0.0.0 10.0.0.254",
         # global one-line commands that begin like an access-list header
         "ip access-list log-update threshold 10", "ip access-list logging interval 10", "ip access-list logging hash-generation"]


def make_cfg(platform, acl_names, group_names, intfs, indent, noise_seed):
    """-> (text, expected) with sections in a seeded order"""
    rnd = random.Random(noise_seed)
    secs = []
    # indentation is any leading whitespace: mostly spaces, for some seeds a tab or the whitespace characters that pasted text brings along
    ich = {5: "\t", 6: "\xa0", 9: "\u3000"}.get(noise_seed % 11, " ")
    pad = ich * indent

    def body_lines(lines):
        """indented section body; for some seeds column-0 comment lines (bare `!` and `! text`) sit between the body lines"""
        out = []
        for k, l in enumerate(lines):
            if noise_seed % 4 == 3 and k in (0, 1):
                out.append("!" if k else "! temporary rule, ticket 42")
            if noise_seed % 4 == 2 and k == 1:
                out.append(pad + "! an indented comment line inside the section")
            out.append(pad + l)
        return out
    for n in acl_names:
        typ, body = ACL_BODIES[platform][n]
        head = f"ip access-list {typ} {n}" if platform == "ios" else f"ip access-list {n}"
        if noise_seed % 5 == 1 and len(body) >= 2:
            # the same list defined in two fragments one after the other (pasted configurations): one access list with all entries in order
            bl = body_lines(body)
            cut = len(bl) // 2
            secs.append("\n".join([head] + bl[:cut] + [head] + bl[cut:]))
        else:
            secs.append("\n".join([head] + body_lines(body)))
    for g in group_names:
        head = f"object-group network {g}" if platform == "ios" else f"object-group ip address {g}"
        secs.append("\n".join([head] + body_lines(GROUP_BODIES[platform][g])))
    for name, binds in intfs:
        # the description may quote a command: only real `ip access-group` lines of the interface bind an ACL
        descr = "description uplink" if noise_seed % 3 else f"description was: ip access-group {acl_names[-1]} out (replaced)"
        blines = [pad + f"ip access-group {a} {d}" for a, d in binds]
        if noise_seed % 5 in (1, 3) and blines:
            # the interface entered twice: bindings of the first block stay valid when a second block (another binding, or only a description) follows
            secs.append("\n".join([f"interface {name}"] + blines[:1] + [f"interface {name}"] + [pad + descr] + blines[1:]))
        else:
            secs.append("\n".join([f"interface {name}"] + [pad + descr] + blines))
    for k in range(noise_seed % 3):
        secs.append(NOISE[(noise_seed + k) % len(NOISE)])
    if noise_seed % 4 == 1:
        secs.append(NOISE[6 + noise_seed % 3])
        if platform == "ios":
            secs.append("ip access-list persistent")          # IOS-XE global command (an IOS list header always carries its type)
    rnd.shuffle(secs)
    if noise_seed % 2:
        secs.insert(1, "!")
    return "\n".join(secs) + "\n"


def member_cubes(platform, g):
    out = []
    for m in GROUP_BODIES[platform][g]:
        if m.startswith("description"):
            continue
        toks = m.split()
        if toks[0].isdigit() and len(toks) > 1 and not cisco_ref.is_ip(toks[0]):
            toks = toks[1:]
        c, _, _ = cisco_ref.read_address(toks, 0, platform, None, mask_is_subnet=(platform == "ios"))
        out.extend(c)
    return out


def check_cfg(arg):
    import cisco_acl
    from bounded import libsem
    platform, acl_names, group_names, intfs, indent, seed, names_filter = arg
    cfg = make_cfg(platform, acl_names, group_names, intfs, indent, seed)
    inputs = dict(config=cfg, platform=platform, names=names_filter)
    fails = []

    def bad(kind, what):
        fails.append(dict(key=f"bounded/acls:{kind}", what=what, inputs=inputs,
                          cmd=("import sys; sys.path.insert(0, 'props'); import C07\n"
                               f"fails, _ = C07.check_cfg({arg!r})\nprint([f['what'] for f in fails]); sys.exit(1 if fails else 0)\n")))
    kw = {"names": list(names_filter)} if names_filter is not None else {}
    try:
        got = cisco_acl.acls(cfg, platform=platform, **kw)
    except Exception as ex:
        bad("error", f"{type(ex).__name__}: {ex}")
        return fails, 1
    want_names = [n for n in acl_names if names_filter is None or n in names_filter]
    if sorted(a.name for a in got) != sorted(want_names):
        bad("names", f"returned ACLs {[a.name for a in got]}, expected {want_names}")
        return fails, 1
    for a in got:
        typ, body = ACL_BODIES[platform][a.name]
        if a.type != typ:
            bad("type", f"ACL {a.name}: type {a.type}, expected {typ}")
        lines = [o.line for o in a.items]
        if len(lines) != len(body):
            bad("items", f"ACL {a.name}: items {lines}, configuration has {body}")
            continue
        for l, b in zip(lines, body):
            if "remark" in b.split()[:2]:
                if l.split() != b.split():
                    bad("items", f"ACL {a.name}: remark {l!r} vs {b!r}")
            else:
                try:
                    x, y = cisco_ref.read_ace(l, platform), cisco_ref.read_ace(b, platform)
                except cisco_ref.RefError:
                    bad("items", f"ACL {a.name}: item {l!r} stands where the configuration has {b!r}")
                    continue
                if sets.sem_equal(x.sem, y.sem) is not None or x.sequence != y.sequence:
                    bad("items", f"ACL {a.name}: entry {l!r} does not mean {b!r}")
        want_in = sorted(f"interface {i}" for i, binds in intfs for n, d in binds if n == a.name and d == "in")
        want_out = sorted(f"interface {i}" for i, binds in intfs for n, d in binds if n == a.name and d == "out")
        if sorted(a.input) != want_in or sorted(a.output) != want_out:
            bad("bindings", f"ACL {a.name}: input={a.input} output={a.output}, configuration binds in={want_in} out={want_out}")
        for o in a.items:
            if isinstance(o, cisco_acl.Ace):
                for addr in (o.srcaddr, o.dstaddr):
                    if addr.addrgroup and addr.addrgroup in group_names:
                        if sets.union_equal(libsem.addr_cubes(addr), member_cubes(platform, addr.addrgroup)) is not None or \
                                len(addr.items) != len([m for m in GROUP_BODIES[platform][addr.addrgroup] if not m.startswith("description")]):
                            bad("members", f"ACL {a.name}: members of {addr.addrgroup} are {[m.line for m in addr.items]}, configuration has {GROUP_BODIES[platform][addr.addrgroup]}")
                    elif addr.addrgroup and addr.items:
                        bad("members", f"group {addr.addrgroup} is not defined in the configuration but has members {[m.line for m in addr.items]}")
    # address groups as such
    try:
        groups = cisco_acl.addrgroups(cfg, platform=platform)
        if sorted(g.name for g in groups) != sorted(group_names):
            bad("groups", f"addrgroups() returned {[g.name for g in groups]}, expected {list(group_names)}")
    except Exception as ex:
        bad("groups-error", f"{type(ex).__name__}: {ex}")
    return fails, 1


def check_member_kinds(arg):
    """group members the IOS command reference allows besides hosts and subnets: a nested group (group-object), a range"""
    import cisco_acl
    kind = arg
    body = {"nested-group-object": ["group-object G1", "host 10.9.9.9"], "range-member": ["range 10.0.0.1 10.0.0.5", "host 10.9.9.9"]}[kind]
    cfg = "\n".join(["object-group network G1", " host 10.0.0.1", "object-group network GX"] + [" " + b for b in body] +
                    ["ip access-list extended A", " permit ip object-group GX any", " permit ip host 1.1.1.1 any"]) + "\n"
    want = {"nested-group-object": ["10.0.0.1/32", "10.9.9.9/32"], "range-member": ["10.0.0.1/32", "10.0.0.2/31", "10.0.0.4/31", "10.9.9.9/32"]}[kind]
    try:
        got = cisco_acl.acls(cfg, platform="ios")
        members = sorted(str(n) for m in got[0].items[0].srcaddr.items for n in m.ipnets())
        if members != want:
            return [dict(key=f"bounded/acls:members:{kind}", what=f"members of GX ({body}) are reported as {members}, expected {want}", inputs=dict(config=cfg))], 1
    except Exception as ex:
        return [dict(key=f"bounded/acls:error:{kind}", what=f"a configuration whose address group has a {kind.replace('-', ' ')} makes acls() fail for the whole configuration: "
                                                            f"{type(ex).__name__}: {ex}", inputs=dict(config=cfg),
                     cmd=("import sys; sys.path.insert(0, 'props'); import C07\n"
                          f"fails, _ = C07.check_member_kinds({arg!r})\nprint([f['what'] for f in fails]); sys.exit(1 if fails else 0)\n"))], 1
    return [], 1


def main(chk):
    t0 = time.time()
    for fails, _ in pmap(check_member_kinds, ["nested-group-object", "range-member"]):
        for f in fails:
            chk.finding(f["key"], f["what"], inputs=f["inputs"], cmd=f.get("cmd"), key=f["key"])
    cases = []
    for platform in ("ios", "nxos"):
        names = list(ACL_BODIES[platform])
        for k in (1, 2, 3):
            for acl_names in itertools.combinations(names, k):
                for groups in ((), ("G1",), ("G1", "G2")):
                    for ik, intfs in enumerate([(), (("Gi1", ((acl_names[0], "in"),)),), (("Gi1", ((acl_names[0], "in"), (acl_names[-1], "out"))),),
                                                (("Gi1", ((acl_names[0], "out"),)), ("Gi2", ((acl_names[0], "in"), (acl_names[-1], "out")))),
                                                (("Gi3", ((acl_names[-1], "in"),)), ("Gi1", ((acl_names[-1], "in"),)))]):
                        for indent in ((1, 2, 4) if chk.tier == "thorough" else (1 + (ik + k) % 3,)):
                            seed = (k * 7 + ik * 3 + len(groups) + chk.seed) % 11
                            cases.append((platform, acl_names, groups, intfs, indent, seed, None))
                            if ik == 2 and k > 1:
                                cases.append((platform, acl_names, groups, intfs, indent, seed, (acl_names[-1],)))
    # name filters over lists whose names are prefixes of one another (A1 / A1-OLD), each bound to its own interface
    for platform in ("ios", "nxos"):
        for order in (("A1", "A1-OLD"), ("A1-OLD", "A1"), ("A1", "A1-OLD", "B2")):
            intfs = (("Gi1", (("A1", "in"),)), ("Gi2", (("A1-OLD", "in"), ("A1", "out"))))
            for flt in (("A1",), ("A1-OLD",), ("A1", "A1-OLD"), ("A1-OLD", "A1"), None):
                for seed in (0, 2, 4):
                    cases.append((platform, order, ("G1",) if "B2" in order else (), intfs, 1 + seed % 3, seed, flt))
    res = pmap(check_cfg, cases)
    viol = 0
    for fails, _ in res:
        for f in fails:
            viol += 1
            chk.finding(f["key"], f["what"], inputs=f["inputs"], cmd=f.get("cmd"), key=f["key"])
    chk.add_bounded("acls()/addrgroups() on assembled configurations vs an independent line-oriented reading", len(cases), len(cases),
                    "<= 3 ACLs (extended/standard), <= 2 address groups, <= 2 interfaces with in/out bindings to different ACLs, noise sections, `!` comments, "
                    "indent 1..4, seeded section order, name filter; both platforms", viol, time.time() - t0, [cases[7][:3]], exhaustive=False)
    return chk.finish("other", "Bounded contract check of the config-level functions (regex-driven section parser: outside the deductive subset).",
                      trusted_base=["spec/cisco_ref.py", "spec/sets.py"])


if __name__ == "__main__":
    run("C07", main)
