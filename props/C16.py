"""C16 - copy()/data() rebuild an equal, independent object; ids and notes are stable."""
import itertools
import os
import sys
import time

sys.path.insert(0, os.path.dirname(os.path.dirname(os.path.abspath(__file__))))
from pyvc.driver import run, pmap
import shadow_common as sc
from C06 import clean


class Note:
    """a user supplied mutable note object"""

    def __init__(self, v):
        self.v = v

    def __eq__(self, o):
        return isinstance(o, Note) and o.v == self.v

    def __repr__(self):
        return f"Note({self.v})"


FALSY = (0, False, (), 0.0)      # user notes that are falsy are kept like any other note (R13-S16); None is the library's "no note" and reads back as ""


def objects(platform):
    """(label, factory) for every exported class; factories build fresh objects each time"""
    import cisco_acl
    g = "object-group" if platform == "ios" else "addrgroup"
    host = "host 10.0.0.1" if platform == "ios" else "10.0.0.1/32"
    net = "10.0.0.0 0.0.0.255" if platform == "ios" else "10.0.0.0/24"
    head = "ip access-list extended A1" if platform == "ios" else "ip access-list A1"
    ghead = "object-group network G" if platform == "ios" else "object-group ip address G"
    gm = ["host 10.0.0.1", "10.0.0.0 255.255.255.0"] if platform == "ios" else ["10 host 10.0.0.1", "20 10.0.0.0/24"]

    def ace():
        a = sc.make_ace(f"10 permit tcp {host} eq 80 {g} G1 eq 443 ack log", platform, note=Note(1))
        a.srcaddr.note = Note("src")
        a.srcport.note, a.dstport.note, a.protocol.note, a.option.note = 0, False, (), 0.0     # a note is any user object, falsy ones included
        return a

    def acl(group=False, groups=True, leading=False):
        def f():
            a = cisco_acl.Acl("\n".join([head] + (["permit ip host 9.9.9.9 any", "remark before the first heading"] if leading else []) + ["remark = H1", f"permit tcp {host} any eq 80", f"deny ip {g} G1 any log" if groups else f"deny ip {net} {host} log", "remark = H2", "permit icmp any any",
                                         f"permit tcp any range 20 21 {net} range 1024 65535", "permit udp any any gt 1023"]),
                              platform=platform, note=Note("acl"))
            for i, o in enumerate(a.items):
                o.note = Note(i)
                if isinstance(o, cisco_acl.Ace):
                    for f_ in ("protocol", "srcaddr", "srcport", "dstaddr", "dstport", "option"):
                        getattr(o, f_).note = Note((i, f_)) if i % 2 else FALSY[(i // 2 + len(f_)) % len(FALSY)]
                    for addr in (o.srcaddr, o.dstaddr):
                        if addr.addrgroup:
                            addr.items = [cisco_acl.Address(m, platform=platform) for m in sc.GROUPS[platform][addr.addrgroup]]
            if group:
                a.group("=")
            return a
        return f
    return [
        ("Port", lambda: cisco_acl.Port("eq 80 443" if platform == "ios" else "eq 80", platform=platform, protocol="tcp", note=Note(2))),
        ("Protocol", lambda: cisco_acl.Protocol("tcp", platform=platform, note=Note(3))),
        ("Option", lambda: cisco_acl.Option("ack log", platform=platform, note=Note(4))),
        ("Wildcard", lambda: cisco_acl.Wildcard("10.0.0.0 0.0.1.3", platform=platform, note=Note(5))),
        ("Address", lambda: cisco_acl.Address(net, platform=platform, note=Note(6))),
        ("Address(group)", lambda: ace().dstaddr),
        ("AddressAg", lambda: cisco_acl.AddressAg(gm[1], platform=platform, note=Note(7))),
        ("AddrGroup", lambda: cisco_acl.AddrGroup("\n".join([ghead] + gm), platform=platform, note=Note(8))),
        ("Remark", lambda: cisco_acl.Remark("10 remark text", platform=platform, note=Note(9))),
        ("Ace", ace),
        ("AceGroup", lambda: cisco_acl.AceGroup("\n".join(["remark = H1", f"permit tcp {host} any eq 80", "deny ip any any"]), platform=platform, note=Note(10))),
        ("Acl", acl(False)),
        ("Acl(grouped)", acl(True)),
        ("Acl(no address groups)", acl(False, False)),
        ("Acl(entries before the first heading)", acl(False, True, True)),
        # an entry that lives inside a group of an ACL with a software version (its rendering depends on the version's name table)
        # non-default settings: a copy is configured like its source (limit of non-contiguous bits, switches, indentation)
        ("Wildcard(max_ncwb=20)", lambda: cisco_acl.Wildcard("10.0.0.0 0.0.1.3", platform=platform, max_ncwb=20)),
        ("Address(max_ncwb=20)", lambda: cisco_acl.Address("10.0.0.0 0.0.1.3", platform=platform, max_ncwb=20)),
        ("AddressAg(max_ncwb=20)", lambda: cisco_acl.AddressAg(gm[1], platform=platform, max_ncwb=20)),
        ("AddrGroup(max_ncwb=20)", lambda: cisco_acl.AddrGroup("\n".join([ghead] + gm), platform=platform, max_ncwb=20, indent=" ")),
        ("Ace(max_ncwb=20)", lambda: cisco_acl.Ace(f"permit tcp {host} any eq 80", platform=platform, max_ncwb=20, port_nr=True, protocol_nr=True)),
        ("AceGroup(max_ncwb=20)", lambda: cisco_acl.AceGroup("\n".join(["remark = H1", f"permit tcp {host} any eq 80"]), platform=platform, max_ncwb=20, port_nr=True)),
        ("Acl(max_ncwb=20)", lambda: cisco_acl.Acl("\n".join([head, f"permit tcp {host} any eq 80"]), platform=platform, max_ncwb=20, protocol_nr=True, indent=" ")),
        # entry objects that carry other switch settings than the container they are handed to
        ("AceGroup(entry objects with other switches)", lambda: cisco_acl.AceGroup(platform=platform, items=[cisco_acl.Ace("permit tcp any any eq 80", platform=platform, port_nr=True),
                                                                                                                 cisco_acl.Ace("permit 6 any any", platform=platform, protocol_nr=True)])),
        ("Acl(entry objects with other switches)", lambda: cisco_acl.Acl(name="A1", platform=platform, items=[cisco_acl.Ace("permit tcp any any eq 80", platform=platform, port_nr=True),
                                                                                                             cisco_acl.Ace("permit 6 any any", platform=platform, protocol_nr=True)])),
        # a versioned container that is handed an entry object whose address group already has members
        ("Acl(versioned, entry object with group members)", lambda: cisco_acl.Acl(name="A1", platform=platform, version="15.2(02)SY" if platform == "ios" else "9.3",
                                                                               items=[sc.make_ace(f"permit ip {g} G1 any", platform)])),
        # a remark whose text was assigned (not parsed from a line) and holds a run of blanks
        ("Remark-with-assigned-text(runs of blanks)", lambda: [r_ := cisco_acl.Remark("10 remark x", platform=platform), setattr(r_, "text", "two  blanks   here"), r_][-1]),
        ("Ace(in a group of a versioned ACL)", lambda: cisco_acl.Acl("\n".join([head, "remark = H1", "permit tcp any any eq 135", "permit tcp any any eq 514"]),
                                                                      platform=platform, version="15.2(02)SY" if platform == "ios" else "9.3", group_by="= ").items[0].items[1]),
    ]


def reachable_mutables(obj):
    """ids of mutable containers / library objects reachable from obj (notes excluded)"""
    seen = {}
    stack = [obj]
    while stack:
        o = stack.pop()
        if id(o) in seen:
            continue
        mod = type(o).__module__ or ""
        if isinstance(o, (list, dict, set)):
            seen[id(o)] = o
            stack.extend(o.values() if isinstance(o, dict) else o)
        elif mod.startswith("cisco_acl"):
            seen[id(o)] = o
            for k, v in vars(o).items():
                if k == "note":
                    continue
                stack.append(v)
        elif isinstance(o, tuple):
            stack.extend(o)
    return seen


SETTERS = {
    "Port": [("line", "eq 1")], "Protocol": [("line", "udp")], "Option": [("line", "syn")], "Wildcard": [("line", "20.0.0.0 0.0.0.3")],
    "Address": [("line", "any")], "AddressAg": [("line", "host 10.9.9.9")], "Remark": [("text", "changed")], "Ace": [("line", "deny ip any any"), ("sequence", 77)],
}


def check_copy(arg):
    import cisco_acl
    platform, idx, how = arg
    label, factory = objects(platform)[idx]
    fails = []
    inputs = dict(cls=label, platform=platform, how=how)

    def bad(kind, what):
        fails.append(dict(key=f"bounded/{label.split('(')[0]}.{how}:{kind}", what=what, inputs=inputs,
                          cmd=("import sys; sys.path.insert(0, 'props'); import C16\n"
                               f"fails, _ = C16.check_copy({arg!r})\nprint([f['what'] for f in fails]); sys.exit(1 if fails else 0)\n")))
    src = factory()
    try:
        cp = src.copy() if how == "copy" else type(src)(**src.data())
    except Exception as ex:
        bad("error", f"{type(ex).__name__}: {ex}")
        return fails, 1
    if cp.line != src.line:
        bad("text", f"text differs: {cp.line!r} vs {src.line!r}")
    try:
        if not (cp == src) or (cp != src):
            bad("not-equal", f"the {how} does not compare equal to its source ({cp.line!r})")
    except Exception as ex:
        bad("not-equal", f"comparing the {how} with its source raised {type(ex).__name__}: {ex}")
    if clean(cp.data()) != clean(src.data()):
        d1, d2 = clean(src.data()), clean(cp.data())
        bad("data", f"data differs in {[k for k in d1 if d1[k] != d2.get(k)]}")
    settings = lambda o: {k: (str(getattr(o, k)) if k == "version" else getattr(o, k)) for k in ("platform", "version", "max_ncwb", "port_nr", "protocol_nr", "indent", "group_by", "type")
                          if hasattr(o, k)}
    if settings(cp) != settings(src):
        s1, s2 = settings(src), settings(cp)
        diff = {k: (s1[k], s2.get(k)) for k in s1 if s1[k] != s2.get(k)}
        bad("settings:" + "+".join(sorted(diff)), f"the {how} is configured differently from its source: {diff}")
    shared = set(reachable_mutables(src)) & set(reachable_mutables(cp))
    if shared:
        objs = reachable_mutables(src)
        bad("shared-state", f"copy shares mutable state with its source: {[type(objs[i]).__name__ for i in shared][:5]}")
    # mutate one, observe the other (both directions)
    base = label.split("(")[0]
    for who in ("copy", "source"):
        a, b = (factory(), None)
        b = a.copy() if how == "copy" else type(a)(**a.data())
        mut, obs = (b, a) if who == "copy" else (a, b)
        before = clean(obs.data())
        try:
            for attr, val in SETTERS.get(base, []):
                setattr(mut, attr, val)
            if hasattr(mut, "items") and isinstance(mut.items, list) and mut.items:
                first = mut.items[0]
                if hasattr(first, "sequence"):
                    first.sequence = 4242
                mut.items.reverse()
                mut.items.pop()
            if hasattr(mut, "resequence"):
                mut.resequence(100, 5)
            if isinstance(mut, cisco_acl.Acl):
                mut.platform = "nxos" if platform == "ios" else "ios"
                mut.input.append("interface X") if isinstance(mut.input, list) else None
        except Exception as ex:
            bad("mutation-error", f"{type(ex).__name__}: {ex}")
            continue
        if clean(obs.data()) != before:
            bad("not-independent", f"changing the {who} changed the other object")
    # a second copy of the same object after what its text does not show was changed (note; members of a referenced address group): it describes the object as it is now
    try:
        src2 = factory()
        _ = src2.copy() if how == "copy" else type(src2)(**src2.data())
        if hasattr(src2, "note"):
            src2.note = "changed after the first copy"
        for side in ("srcaddr", "dstaddr"):
            addr = getattr(src2, side, None)
            if addr is not None and getattr(addr, "addrgroup", "") and addr.items:
                addr.items = list(addr.items)[:-1] + [cisco_acl.Address("host 10.99.0.9" if platform == "ios" else "10.99.0.9/32", platform=platform)]
        cp2 = src2.copy() if how == "copy" else type(src2)(**src2.data())
        if clean(cp2.data()) != clean(src2.data()) or getattr(cp2, "note", None) != getattr(src2, "note", None):
            d1, d2 = clean(src2.data()), clean(cp2.data())
            bad("second-copy-stale", f"a second {how} taken after note / group members were changed differs from the object in {[k for k in d1 if d1[k] != d2.get(k)]}")
    except Exception as ex:
        bad("second-copy-error", f"{type(ex).__name__}: {ex}")
    return fails, 1


def ids(obj, out=None, path=(), nested=True):
    """[(kind path, field or None, uuid, note)] of every library object reachable through items and the ACE fields"""
    import cisco_acl
    out = [] if out is None else out
    out.append((path, None, obj.uuid, obj.note))
    if isinstance(obj, (cisco_acl.Acl, cisco_acl.AceGroup, cisco_acl.AddrGroup)):
        for o in obj.items:
            ids(o, out, path + (type(o).__name__,), nested)
    if nested and isinstance(obj, cisco_acl.Ace):
        for f in ("protocol", "srcaddr", "srcport", "dstaddr", "dstport", "option"):
            o = getattr(obj, f)
            out.append((path, f, o.uuid, o.note))
    return out


def strip(line):
    t = line.split("\n")[0].split()
    return " ".join(t[1:] if t and t[0].isdigit() else t)


TRANSFORMS = ["grouped-sort", "grouped-resequence", "grouped-port_nr", "grouped-protocol_nr", "type-standard", "type-standard-back", "platform", "platform-back", "port_nr", "protocol_nr", "resequence", "sort", "group", "ungroup", "type", "ungroup_ports", "grouped-platform", "delete_shadow"]


def check_ids(arg):
    import cisco_acl
    platform, tr = arg
    acl = objects(platform)[13 if tr.startswith("type-standard") else (14 if tr.startswith("grouped-") else 11)][1]()
    other = "nxos" if platform == "ios" else "ios"
    pre_grouped = tr in ("grouped-sort", "grouped-resequence", "grouped-port_nr", "grouped-protocol_nr")
    if pre_grouped:
        # the ACL is grouped first and the groups get notes: the transformation must keep the group objects as well
        acl.group("=")
        for i, o in enumerate(acl.items):
            if isinstance(o, cisco_acl.AceGroup):
                o.note = Note(("group", i))
    groups_before = [(o.uuid, repr(o.note)) for o in acl.items if isinstance(o, cisco_acl.AceGroup)] if pre_grouped else []
    before = ids(acl)
    fails = []
    try:
        if tr == "grouped-sort":
            acl.resequence(10, 10)
            acl.sort()
        elif tr == "grouped-resequence":
            acl.resequence(5, 5)
        elif tr == "grouped-port_nr":
            acl.port_nr = True
        elif tr == "grouped-protocol_nr":
            acl.protocol_nr = True
        elif tr == "platform":
            acl.platform = other
        elif tr == "platform-back":
            acl.platform = other
            acl.platform = platform
        elif tr == "port_nr":
            acl.port_nr = True
        elif tr == "protocol_nr":
            acl.protocol_nr = True
        elif tr == "resequence":
            acl.resequence(10, 10)
        elif tr == "sort":
            acl.resequence(10, 10)
            acl.items.reverse()
            acl.sort()
        elif tr == "group":
            acl.group("=")
        elif tr == "ungroup":
            acl.group("=")
            acl.ungroup()
        elif tr == "type":
            acl.type = "extended"
        elif tr == "type-standard":
            acl.type = "standard"
        elif tr == "type-standard-back":
            acl.type = "standard"
            acl.type = "extended"
        elif tr == "ungroup_ports":
            acl.ungroup_ports()
        elif tr == "grouped-platform":
            acl.group("=")
            acl.platform = other
        elif tr == "delete_shadow":
            acl.delete_shadow()
    except Exception as ex:
        if tr.startswith("type-standard") and platform == "nxos" and isinstance(ex, ValueError):
            return [], 1        # NX-OS has no standard ACLs: the switch is refused
        return [dict(key=f"bounded/Acl.{tr}:error", what=f"{type(ex).__name__}: {ex}", inputs=dict(platform=platform, transform=tr))], 1
    after = ids(acl)

    def key(e):
        # grouping wraps items into AceGroup objects: compare items irrespective of the group level
        return (tuple(k for k in e[0] if k != "AceGroup"), e[1])
    pool = {}
    for e in after:
        pool.setdefault(key(e), []).append((e[2], repr(e[3])))
    lost_items, lost_nested = [], []
    for e in before:
        if e[0] and e[0][-1] == "AceGroup":
            continue
        if (e[2], repr(e[3])) not in pool.get(key(e), []):
            (lost_nested if e[1] else lost_items).append((key(e), e[3]))
    if pre_grouped:
        groups_after = [(o.uuid, repr(o.note)) for o in acl.items if isinstance(o, cisco_acl.AceGroup)]
        if sorted(groups_after) != sorted(groups_before):
            fails.append(dict(key=f"bounded/Acl.{tr}:ids:groups", what=f"`{tr}` replaced ACE group objects: (uuid, note) {groups_before} -> {groups_after}",
                              inputs=dict(platform=platform, transform=tr)))
    if lost_items:
        fails.append(dict(key=f"bounded/Acl.{tr}:ids:items", what=f"`{tr}` changed the uuid/note of {len(lost_items)} item(s): {lost_items[:3]}", inputs=dict(platform=platform, transform=tr)))
    if lost_nested:
        kinds = sorted({k[1] for k, _ in lost_nested})
        fails.append(dict(key=f"bounded/Acl.{tr}:ids:nested:{'+'.join(kinds)}", what=f"`{tr}` changed the uuid/note of nested objects {kinds} ({len(lost_nested)} objects)",
                          inputs=dict(platform=platform, transform=tr)))
    for f in fails:
        f["cmd"] = ("import sys; sys.path.insert(0, 'props'); import C16\n"
                    f"fails, _ = C16.check_ids({arg!r})\nprint([f['what'] for f in fails]); sys.exit(1 if fails else 0)\n")
    return fails, 1


def main(chk):
    t0 = time.time()
    cases = [(p, i, how) for p in ("ios", "nxos") for i in range(len(objects("ios"))) for how in ("copy", "data")]
    res = pmap(check_copy, cases)
    viol = 0
    for fails, _ in res:
        for f in fails:
            viol += 1
            chk.finding(f["key"], f["what"], inputs=f["inputs"], cmd=f.get("cmd"), key=f["key"])
    chk.add_bounded("copy() / Class(**data()): equal text and data, no shared mutable state except notes, mutate-then-observe both ways", len(cases), len(cases),
                    f"{len(objects('ios'))} object kinds (all exported classes; ACL flat and grouped, ACE with group members; non-default limits, switches and indentation) x 2 platforms x {{copy, data}}", viol, time.time() - t0,
                    [list(cases[3])], exhaustive=True)
    t0 = time.time()
    cases = [(p, t) for p in ("ios", "nxos") for t in TRANSFORMS]
    res = pmap(check_ids, cases)
    viol = 0
    for fails, _ in res:
        for f in fails:
            viol += 1
            chk.finding(f["key"], f["what"], inputs=f["inputs"], cmd=f.get("cmd"), key=f["key"])
    chk.add_bounded("in-place transformations keep uuid and note of items and of nested objects", len(cases), len(cases), "18 transformations x 2 platforms on a 7-item ACL (eq, range, gt ports, address group) with notes everywhere",
                    viol, time.time() - t0, [list(cases[0])], exhaustive=True)
    chk.assumptions += ["aliasing through **data() dictionaries and __dict__.update needs an ownership logic pyvc does not have: no obligation is discharged deductively"]
    return chk.finish("other", "Bounded contract check only (object-graph identity and aliasing): equal rebuilds, disjoint reachable mutable state, mutate-then-observe, "
                      "identifier/note stability under in-place transformations.", trusted_base=["CPython id() / object graph walk"])


if __name__ == "__main__":
    run("C16", main)
