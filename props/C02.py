"""C02 - IOS <-> NX-OS conversion changes spelling only, never the ACL's meaning."""
import itertools
import os
import random
import sys
import time

sys.path.insert(0, os.path.dirname(os.path.dirname(os.path.abspath(__file__))))
from pyvc.driver import run, pmap
from pyvc import loader
from spec import cisco_ref, sets
from bounded import gen
import shadow_common as sc

POOL = {
    "ios": ["permit ip any any", "10 deny tcp host 10.0.0.1 eq 80 10.0.0.0 0.0.0.255 range 20 21 ack log", "permit tcp any eq www 443 any eq 22 23",
            "permit udp 10.0.0.0 0.0.1.3 eq syslog any", "permit tcp any any eq cmd", "deny icmp any host 1.1.1.1", "permit tcp any any neq 80",
            "20 permit ip object-group G1 object-group G2 log", "permit 47 10.1.2.3 0.255.0.255 any", "permit tcp any gt 1023 any lt 1024 syn",
            "permit tcp any any eq msrpc", "permit ip 0.0.0.0 255.255.255.255 10.0.0.0 0.0.0.3", "permit ospf any any", "remark text one", "30 remark = H1",
            "permit tcp any eq 1 2 3 any", "permit udp any any eq 67 68", "permit ahp any any", "permit tcp any any eq onep-plain",
            "permit tcp object-group G1 eq 80 443 object-group G2 eq 22 23"],
    "nxos": ["permit ip any any", "10 deny tcp 10.0.0.1/32 eq 80 10.0.0.0/24 range 20 21 ack log", "permit tcp any eq www any eq 22",
             "permit udp 10.0.0.0 0.0.1.3 eq syslog any", "permit tcp any any eq cmd", "deny icmp any 1.1.1.1/32", "permit tcp any any neq 80",
             "20 permit ip addrgroup G1 addrgroup G2 log", "permit 47 10.1.2.3 0.255.0.255 any", "permit tcp any gt 1023 any lt 1024 syn",
             "permit tcp any any eq drip", "permit ip 0.0.0.0/0 10.0.0.0/30", "permit ospf any any", "remark text one", "30 remark = H1", "permit ahp any any"],
}
# protocol keywords per platform, from Cisco's command references (`permit ?`); IOS additionally lists the spellings the library has always read on
# IOS input ('ah', 'egp', 'ipip', 'ipv6'): they are accepted as *input* there, so demanding less of IOS output than of NX-OS output cannot alarm on a
# correct tree.  A second spelling of one number ('ah' = 'ahp' = 51) or an IOS-only keyword must leave in the target's spelling (R13-S02).
PROTO_KEYWORDS = {
    "nxos": {"ahp", "eigrp", "esp", "gre", "icmp", "igmp", "ip", "nos", "ospf", "pcp", "pim", "tcp", "udp"},
    "ios": {"ahp", "eigrp", "esp", "gre", "icmp", "igmp", "ip", "ipinip", "nos", "ospf", "pcp", "pim", "tcp", "udp", "sctp", "ah", "egp", "ipip", "ipv6"},
}
POOL["ios"] += ["permit ah any any", "permit egp any any", "permit ipip any any", "permit ipv6 any any", "permit esp any any", "permit 51 any any"]
POOL["nxos"] += ["permit esp any any", "permit 51 any any", "permit 8 any any"]
OTHER = {"ios": "nxos", "nxos": "ios"}


def platform_names():
    c = loader.module_constants("cisco_acl.port_name")
    return {"ios": (set(c["TCP_NAME_PORT__IOS_16"]), set(c["UDP_NAME_PORT__IOS_16"])), "nxos": (set(c["TCP_NAME_PORT__NXOS"]), set(c["UDP_NAME_PORT__NXOS"]))}


def native_violations(line, platform):
    """syntax that the target platform does not have (from Cisco's command references)"""
    toks = line.split()
    out = []
    if platform == "ios":
        out += [t for t in toks if t == "addrgroup" or ("/" in t and cisco_ref.is_ip(t.split("/")[0]))]
    else:
        out += [t for t in toks if t == "object-group"]
        for i, t in enumerate(toks):
            if t in ("eq", "neq"):
                n = 0
                for u in toks[i + 1:]:
                    if u in ("any", "host", "log", "log-input", "addrgroup", "eq", "neq", "gt", "lt", "range") or "." in u or u in ("ack", "syn", "fin", "psh", "rst", "urg"):
                        break
                    n += 1
                if n > 1:
                    out.append(f"{t} with {n} ports")
    if "remark" not in toks[:2]:
        proto = toks[2] if toks[0].isdigit() else toks[1]
        if not proto.isdigit() and proto not in PROTO_KEYWORDS[platform]:
            out.append(f"protocol keyword {proto} unknown on {platform}")
        names = platform_names()[platform]
        tab = names[0] if proto in ("tcp", "6") else names[1] if proto in ("udp", "17") else None
        if tab is not None:
            for i, t in enumerate(toks):
                if t in ("eq", "neq", "gt", "lt", "range"):
                    for u in toks[i + 1:i + 11]:
                        if u.isdigit():
                            continue
                        if u in tab:
                            continue
                        if u in ("any", "host", "log", "log-input", "addrgroup", "object-group", "eq", "neq", "gt", "lt", "range", "ack", "syn", "fin", "psh", "rst", "urg") or "." in u:
                            break
                        out.append(f"port name {u} unknown on {platform}")
    return out


def build(lines, platform, group_by=""):
    import cisco_acl
    head = "ip access-list extended A1" if platform == "ios" else "ip access-list A1"
    acl = cisco_acl.Acl("\n".join([head] + lines), platform=platform, group_by=group_by)
    for o in acl.items:
        if isinstance(o, cisco_acl.Ace):
            for addr in (o.srcaddr, o.dstaddr):
                if addr.addrgroup:
                    addr.items = [cisco_acl.Address(m, platform=platform) for m in sc.GROUPS[platform][addr.addrgroup]]
    return acl


def rules(text, platform):
    hdr, items = cisco_ref.read_acl(text, platform, sc.group_cubes(platform))
    return hdr, items


def check_acl(arg):
    import cisco_acl
    lines, src, switches = arg[:3]
    group_by = arg[3] if len(arg) > 3 else ""
    dst = OTHER[src]
    inputs = dict(lines=list(lines), source=src, target=dst, group_by=group_by)
    fails = []

    def bad(kind, what):
        fails.append(dict(key=f"bounded/Acl.platform:{kind}", what=what, inputs=inputs,
                          cmd=("import sys; sys.path.insert(0, 'props'); import C02\n"
                               f"fails, _ = C02.check_acl({arg!r})\nprint([f['what'] for f in fails]); sys.exit(1 if fails else 0)\n")))
    acl = build(list(lines), src, group_by)
    if group_by:
        # group members are attached after grouping: walk into the groups
        for g in acl.items:
            for o in getattr(g, "items", []):
                if isinstance(o, cisco_acl.Ace):
                    for addr in (o.srcaddr, o.dstaddr):
                        if addr.addrgroup and not addr.items:
                            addr.items = [cisco_acl.Address(m, platform=src) for m in sc.GROUPS[src][addr.addrgroup]]
    if switches[0]:
        acl.port_nr = True
    if switches[1]:
        acl.protocol_nr = True
    before_text = acl.line
    def all_aces(acl_):
        for o in acl_.items:
            if isinstance(o, cisco_acl.Ace):
                yield o
            for x in getattr(o, "items", []) if isinstance(o, cisco_acl.AceGroup) else []:
                if isinstance(x, cisco_acl.Ace):
                    yield x
    members_before = [[(m.prefix) for m in a.items] for o in all_aces(acl) for a in (o.srcaddr, o.dstaddr) if a.addrgroup]
    by_name = {a.addrgroup: sorted(m.prefix for m in a.items) for o in all_aces(acl) for a in (o.srcaddr, o.dstaddr) if a.addrgroup}
    try:
        h0, r0 = rules(before_text, src)
    except cisco_ref.RefError as ex:
        return [dict(key="harness/ref", what=f"source text not readable: {ex}", inputs=inputs)], 0
    try:
        acl.platform = dst
    except Exception as ex:
        bad("error", f"{type(ex).__name__}: {ex}")
        return fails, 1
    after_text = acl.line
    for l in after_text.split("\n")[1:]:
        v = native_violations(l.strip(), dst)
        if v:
            bad("foreign-syntax", f"line {l.strip()!r} is not {dst} syntax: {v}")
    try:
        h1, r1 = rules(after_text, dst)
    except cisco_ref.RefError as ex:
        bad("syntax", f"converted text not readable on {dst}: {ex}")
        return fails, 1
    if h1[-1] != h0[-1]:
        bad("name", f"ACL name changed: {h0} -> {h1}")
    # walk both rule lists: an eq-multi rule may become adjacent single-port rules whose union is the original
    j = 0
    for it in r0:
        if it[0] == "remark":
            if j >= len(r1) or r1[j] != it:
                bad("remark", f"remark {it} not kept at its place: {r1[j] if j < len(r1) else None}")
                break
            j += 1
            continue
        a = it[1]
        if j >= len(r1) or r1[j][0] != "ace":
            bad("missing", f"rule {a.sem} has no counterpart")
            break
        b = r1[j][1]
        if sets.sem_equal(a.sem, b.sem) is None:
            if a.sequence != b.sequence or a.sem.logs != b.sem.logs or a.sem.flags != b.sem.flags:
                bad("tokens", f"sequence/flags/logs changed for rule {j}")
            j += 1
            continue
        # split: consume adjacent rules with the same non-port fields until the union equals
        pieces = []
        while j < len(r1) and r1[j][0] == "ace":
            c = r1[j][1]
            if (c.sem.action, c.sem.proto, c.sem.src, c.sem.dst, c.sem.flags, c.sem.logs) != (a.sem.action, a.sem.proto, a.sem.src, a.sem.dst, a.sem.flags, a.sem.logs):
                break
            pieces.append(c)
            j += 1
            us = set().union(*[(p.sem.sports if p.sem.sports is not None else {None}) for p in pieces])
            ud = set().union(*[(p.sem.dports if p.sem.dports is not None else {None}) for p in pieces])
            pairs = {(x, y) for p in pieces for x in (p.sem.sports if p.sem.sports is not None else {None}) for y in (p.sem.dports if p.sem.dports is not None else {None})}
            want = {(x, y) for x in (a.sem.sports if a.sem.sports is not None else {None}) for y in (a.sem.dports if a.sem.dports is not None else {None})}
            if len(want) < 5000 and pairs == want:
                break
        else_ok = pieces and len({(x, y) for x in (a.sem.sports or {None}) for y in (a.sem.dports or {None})}) < 5000 and \
            {(x, y) for p in pieces for x in (p.sem.sports if p.sem.sports is not None else {None}) for y in (p.sem.dports if p.sem.dports is not None else {None})} == \
            {(x, y) for x in (a.sem.sports if a.sem.sports is not None else {None}) for y in (a.sem.dports if a.sem.dports is not None else {None})}
        if not else_ok:
            bad("meaning", f"rule {it[1].sem.action} #{r0.index(it)} of {list(lines)} changed meaning: after conversion {after_text.splitlines()[1:]}")
            break
    else:
        if j != len(r1):
            bad("extra", f"extra rules after conversion: {after_text.splitlines()[1:]}")
    members_after = [[(m.prefix) for m in a.items] for o in all_aces(acl) for a in (o.srcaddr, o.dstaddr) if a.addrgroup]
    if members_after != members_before and not any("eq" in l and len(l.split()) > 8 for l in lines):
        bad("members", f"address-group members changed: {members_before} -> {members_after}")
    # per reference (also through port splitting): every address that names a group carries that group's members
    for o in all_aces(acl):
        for a in (o.srcaddr, o.dstaddr):
            if a.addrgroup and a.addrgroup in by_name and sorted(m.prefix for m in a.items) != by_name[a.addrgroup]:
                bad("members", f"after conversion an entry references {a.addrgroup} with members {[m.prefix for m in a.items]}, the group has {by_name[a.addrgroup]}")
    # an AceGroup with the same entries converted on its own gives the same rules as the ACL body
    if not fails and not group_by:
        try:
            grp = cisco_acl.AceGroup("\n".join(lines), platform=src)
            for o in grp.items:
                if isinstance(o, cisco_acl.Ace):
                    for addr in (o.srcaddr, o.dstaddr):
                        if addr.addrgroup:
                            addr.items = [cisco_acl.Address(m, platform=src) for m in sc.GROUPS[src][addr.addrgroup]]
            if switches[0]:
                grp.port_nr = True
            if switches[1]:
                grp.protocol_nr = True
            grp.platform = dst
            got_g = [l.strip() for l in grp.line.splitlines()]
            want_g = [l.strip() for l in after_text.splitlines()[1:]]
            if got_g != want_g:
                bad("acegroup-differs", f"AceGroup of the same entries converted on its own: {got_g}, the ACL body: {want_g}")
        except ValueError as ex:
            # refusing to convert an AceGroup that holds a multi-port entry is pinned by tests/test__ace_group.py::test_invalid__platform (as for a single ACE)
            if not any(len(p_.items) > 1 and p_.operator in ("eq", "neq") for o in build(list(lines), src).items if isinstance(o, cisco_acl.Ace) for p_ in (o.srcport, o.dstport)):
                bad("acegroup-error", f"AceGroup of the same entries converted on its own: {type(ex).__name__}: {str(ex)[:150]}")
        except Exception as ex:
            bad("acegroup-error", f"AceGroup of the same entries converted on its own: {type(ex).__name__}: {str(ex)[:150]}")
    # there . back . there == there
    if not fails:
        try:
            acl.platform = src
            acl.platform = dst
            if acl.line != after_text:
                bad("not-idempotent", f"there-back-there differs: {acl.line.splitlines()[1:]} vs {after_text.splitlines()[1:]}")
        except Exception as ex:
            bad("error-back", f"{type(ex).__name__}: {ex}")
    return fails, 1


def check_single(arg):
    """a single ACE / address / address group converted on its own"""
    import cisco_acl
    kind, text, src = arg
    dst = OTHER[src]
    fails = []
    inputs = dict(kind=kind, text=text, source=src)
    try:
        if kind == "ace":
            o = sc.make_ace(text, src)
            a = cisco_ref.read_ace(o.line, src, sc.group_cubes(src)).sem
            o.platform = dst
            b = cisco_ref.read_ace(o.line, dst, sc.group_cubes(dst)).sem
            same = sets.sem_equal(a, b) is None
            v = native_violations(o.line, dst)
            t1 = o.line
            o.platform = src
            o.platform = dst
            stable = o.line == t1
        elif kind == "addr":
            o = cisco_acl.Address(text, platform=src)
            a = cisco_ref.read_address(o.line.split(), 0, src, None)[0]
            o.platform = dst
            b = cisco_ref.read_address(o.line.split(), 0, dst, None)[0]
            same = sets.union_equal(a, b) is None
            v = native_violations("permit ip " + o.line + " any", dst)
            t1 = o.line
            o.platform = src
            o.platform = dst
            stable = o.line == t1
        else:
            head = "object-group network G" if src == "ios" else "object-group ip address G"
            o = cisco_acl.AddrGroup("\n".join([head] + text), platform=src)
            a = [c for m in o.items for c in cisco_ref.read_address(sc_strip(m.line).split(), 0, src, None, mask_is_subnet=(src == "ios"))[0]]
            try:
                o.platform = dst
            except ValueError:
                # an IOS object-group cannot spell a non-contiguous wildcard or 0.0.0.0/0: refusing the whole conversion is right, losing the member is not
                if dst == "ios" and any(sc_strip(t) in ("0.0.0.0/0", "any") or (len(sc_strip(t).split()) == 2 and cisco_ref.is_ip(sc_strip(t).split()[1])
                                                                             and cisco_ref.parse_ip(sc_strip(t).split()[1]) & (cisco_ref.parse_ip(sc_strip(t).split()[1]) + 1)) for t in text):
                    return [], 1
                raise
            b = [c for m in o.items for c in cisco_ref.read_address(sc_strip(m.line).split(), 0, dst, None, mask_is_subnet=(dst == "ios"))[0]]
            same = sets.union_equal(a, b) is None and len(a) == len(b)
            # members of an IOS object-group carry no sequence numbers
            v = [f"member {m.line!r} starts with a sequence number" for m in o.items
                 if dst == "ios" and m.line.split()[0].isdigit() and not cisco_ref.is_ip(m.line.split()[0])]
            t1 = o.line
            o.platform = src
            o.platform = dst
            stable = o.line == t1
    except Exception as ex:
        return [dict(key=f"bounded/{kind}.platform:error", what=f"{type(ex).__name__}: {ex}", inputs=inputs)], 1
    if not same:
        fails.append(dict(key=f"bounded/{kind}.platform:meaning", what=f"{text!r} ({src}) changed meaning when converted to {dst}: {o.line!r}", inputs=inputs))
    if v:
        fails.append(dict(key=f"bounded/{kind}.platform:foreign-syntax", what=f"{o.line!r} is not {dst} syntax: {v}", inputs=inputs))
    if not stable:
        fails.append(dict(key=f"bounded/{kind}.platform:not-idempotent", what=f"{text!r}: there-back-there differs from there", inputs=inputs))
    for f in fails:
        f["cmd"] = ("import sys; sys.path.insert(0, 'props'); import C02\n"
                    f"fails, _ = C02.check_single({arg!r})\nprint([f['what'] for f in fails]); sys.exit(1 if fails else 0)\n")
    return fails, 1


def sc_strip(line):
    t = line.split()
    return " ".join(t[1:] if t and t[0].isdigit() and len(t) > 1 else t)


def main(chk):
    t0 = time.time()
    cases = []
    for src in ("ios", "nxos"):
        pool = POOL[src]
        n = 2 if chk.tier == "quick" else 3
        for k in range(1, n + 1):
            for c in itertools.product(pool, repeat=k):
                cases.append((c, src, (False, False)))
        rnd = random.Random(chk.seed)
        for _ in range(300 if chk.tier == "quick" else 3000):
            c = tuple(rnd.choice(pool) for _ in range(rnd.randint(2, 4)))
            cases.append((c, src, (rnd.random() < 0.5, rnd.random() < 0.5)))
    # ACLs grouped by remark prefix (AceGroup objects inside the ACL)
    for src in ("ios", "nxos"):
        pool = [l for l in POOL[src] if "remark" not in l]
        for a, b in itertools.product(pool, pool[::3]):
            cases.append((("remark = H1", a, "remark = H2", b), src, (False, False), "="))
            cases.append((("remark = H1", a, b, "remark = H2", b, a), src, (False, False), "="))
    res = pmap(check_acl, cases)
    viol = 0
    for fails, _ in res:
        for f in fails:
            viol += 1
            chk.finding(f["key"], f["what"], inputs=f["inputs"], cmd=f.get("cmd"), key=f["key"])
    chk.add_bounded("Acl.platform.fset: per-rule packet sets equal (eq-multi -> adjacent singles), remarks/name/numbers/members kept, target syntax, there-back-there",
                    len(cases), len(cases), f"all ACLs of <= {2 if chk.tier == 'quick' else 3} items over {len(POOL['ios'])}/{len(POOL['nxos'])} lines per direction + seeded ACLs of 2..4 items with switch settings",
                    viol, time.time() - t0, [list(cases[25][0])], exhaustive=False)
    t0 = time.time()
    singles = []
    for src in ("ios", "nxos"):
        for l in list(gen.gen_ace(src, "quick"))[::(3 if chk.tier == "quick" else 1)]:
            multi = any(t in ("eq", "neq") and sum(1 for u in l.split()[i + 1:i + 3] if u.isdigit() or u.isalpha() and u not in ("any", "host", "log")) > 1
                        for i, t in enumerate(l.split()))
            if src == "ios" and multi:
                continue        # one ACE cannot become several: conversion of a multi-port entry on its own is refused (ValueError)
            singles.append(("ace", l, src))
        for a in gen.ADDRS[src]:
            singles.append(("addr", a, src))
    singles += [("group", ["host 10.0.0.1", "10.0.0.0 255.255.255.0", "10.0.2.0 255.255.254.0"], "ios"),
                ("group", ["host 10.0.0.1", "10.0.0.0/24", "10 10.0.2.0/23"], "nxos"), ("group", ["10.0.0.0/24", "20 10.0.1.0/24"], "nxos"),
                ("group", ["10 10.0.0.0/24", "20 host 1.1.1.1", "30 10.0.1.0/24", "40 10.0.0.9/32"], "nxos"),
                # members an IOS object-group cannot spell: the conversion is refused as a whole (or keeps the meaning), a member never just disappears
                ("group", ["10.0.0.0/24", "10.1.0.0 0.0.3.3", "host 1.1.1.1"], "nxos"), ("group", ["10 10.0.0.0/24", "20 0.0.0.0/0"], "nxos"),
                ("group", ["10.0.0.1 0.0.255.0", "10.0.0.0/24"], "nxos"), ("group", ["10.0.0.0/24", "10.1.0.0 0.0.0.255", "host 1.1.1.1"], "nxos")]
    res = pmap(check_single, singles)
    viol = 0
    for fails, _ in res:
        for f in fails:
            viol += 1
            chk.finding(f["key"], f["what"], inputs=f["inputs"], cmd=f.get("cmd"), key=f["key"])
    chk.add_bounded("single Ace / Address / AddrGroup converted on their own", len(singles), len(singles), "gen_ace lines, all address spellings, three address groups; both directions",
                    viol, time.time() - t0, [list(singles[10])], exhaustive=False)
    chk.assumptions += ["which port names a platform accepts is taken from the library's own tables (only for the `foreign syntax` clause); protocol keywords per platform are a table in props/C02.py written from the command references",
                        "multi-port neq entries are excluded here (C19)"]
    return chk.finish("other", "Bounded contract check of the platform setters with the independent reader on both sides and exact set algebra; the setters are "
                      "object-graph code (data()/__init__ round trips) outside the deductive subset.", trusted_base=["spec/cisco_ref.py", "spec/sets.py"])


if __name__ == "__main__":
    run("C02", main)
