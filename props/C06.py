"""C06 - Rendered text is a fixed point of the parser at every object level."""
import itertools
import os
import sys
import time

sys.path.insert(0, os.path.dirname(os.path.dirname(os.path.abspath(__file__))))
from pyvc.driver import run, pmap
from bounded import gen

REMARKS = ["remark text", "10 remark text", "remark 10 permit ip any any", "remark remark remark", "remark = H1, name", "remark  two   spaces", "remark deny",
           "4294967295 remark x", "remark ~!@#$%^&*()_+{}|:<>?",
           # texts around and beyond 100 characters, with blanks at every position class (a blank at index 99, 100, 101 of the text)
           "remark " + "a" * 99 + " tail", "remark " + "a" * 100 + " tail", "remark " + "a" * 98 + " b tail", "remark " + "word " * 30 + "end", "20 remark " + "xy " * 40 + "z",
           "remark " + "a" * 100, "remark " + "a" * 150,
           # white space other than single blanks between the words (tab next to a blank, two tabs, tab alone)
           "remark web \tservers", "remark a\t\tb", "remark x\t y", "remark p\tq", "30\t remark  t \t u"]
STANDARD = ["permit host 10.0.0.1", "permit 10.0.0.0 0.0.0.255", "deny any", "10 permit 10.0.0.1", "permit any log", "permit 10.0.0.0 0.0.0.255 log"]


def clean(d, drop=("uuid",)):
    """exported data without identifiers (uuids differ by construction)"""
    if isinstance(d, dict):
        return {k: clean(v, drop) for k, v in d.items() if k not in drop}
    if isinstance(d, list):
        return [clean(x, drop) for x in d]
    return d


def meaning(cls, text, platform):
    """meaning of an address / extended entry text by the independent reader; None when it cannot read the text"""
    from spec import cisco_ref
    try:
        if cls == "Address":
            toks = text.split()
            cubes, i, _ = cisco_ref.read_address(toks, 0, platform, {})
            return ("addr", cubes) if i == len(toks) else None
        if cls == "Ace":
            return ("ace", cisco_ref.read_ace(text, platform, {}).sem)
    except Exception:
        return None
    return None


def same_meaning(m1, m2):
    from spec import sets
    if m1 is None or m2 is None:
        return True
    if m1[0] == "addr":
        return sets.union_equal(m1[1], m2[1]) is None
    a, b = m1[1], m2[1]
    if a.proto is None or b.proto is None or a.proto == frozenset([0]) or b.proto == frozenset([0]):
        # whether `0` means "any protocol" is C01's question (known finding there): compare everything but the protocol
        import dataclasses
        a, b = dataclasses.replace(a, proto=None), dataclasses.replace(b, proto=None)
    return sets.sem_equal(a, b) is None


def roundtrip(cls, line, kwargs, strict=True):
    """-> None or (kind, what)"""
    r = roundtrip_(cls, line, kwargs, strict)
    if r is None and not strict and cls in ("Address", "Ace"):
        # accepted spellings: the re-parsed object keeps the meaning of the text that was written
        import cisco_acl
        C = getattr(cisco_acl, cls)
        try:
            o1 = C(line, **kwargs)
        except (ValueError, TypeError):
            return None
        o2 = C(o1.line, **kwargs)
        platform = dict(kwargs).get("platform", "ios")
        if not same_meaning(meaning(cls, line, platform), meaning(cls, o2.line, platform)):
            return ("meaning", f"{cls}({line!r}, {kwargs}) re-parses from its own text {o1.line!r} to {o2.line!r}, which does not mean what was written")
    return r


PRIOR = {"Ace": "77 permit icmp host 9.9.9.9 any log", "Remark": "77 remark something else", "Port": "range 7 9", "Protocol": "gre", "Option": "syn fin",
         "Address": "host 9.9.9.9", "Wildcard": "9.9.9.0 0.0.0.255", "AddressAg": "host 9.9.9.9"}


def reuse(cls, line, kwargs):
    """-> None or (kind, what): the rendered text assigned to an object that held something else gives what a fresh parse gives"""
    import cisco_acl
    C = getattr(cisco_acl, cls)
    if cls not in PRIOR:
        return None
    try:
        o1 = C(line, **kwargs)
        t1 = o1.line
        fresh = C(t1, **kwargs)
        old = C(PRIOR[cls], **kwargs)
    except (ValueError, TypeError):
        return None
    try:
        old.line = t1
    except Exception as ex:
        return ("reuse-rejects", f"{cls}: assigning its own rendering {t1!r} to an object that held {PRIOR[cls]!r} raises {type(ex).__name__}: {ex}")
    # (compared: the text and what the text spells out; attributes a text cannot carry, e.g. the protocol of an emptied Port, are the object's own)
    d1, d2 = old.data(), fresh.data()
    keys = [k for k in ("sequence", "action", "items", "ports", "operator", "number", "flags", "logs", "text", "prefix", "wildcard", "ipnet", "type") if k in d1 and k in d2]
    diff = [k for k in keys if d1.get(k) != d2.get(k)]
    if old.line != fresh.line or diff:
        return ("reuse", f"{cls}({PRIOR[cls]!r}).line = {t1!r} gives text {old.line!r} / data differing in {diff}; a fresh parse gives {fresh.line!r}")
    return None


def roundtrip_(cls, line, kwargs, strict=True):
    import cisco_acl
    C = getattr(cisco_acl, cls)
    try:
        o1 = C(line, **kwargs)
    except (ValueError, TypeError):
        return None          # not in the grammar for this configuration
    t1 = o1.line
    try:
        o2 = C(t1, **kwargs)
    except Exception as ex:
        return ("rejects-own-text", f"{cls}({line!r}, {kwargs}) renders {t1!r} which the same constructor rejects: {type(ex).__name__}: {ex}")
    if o2.line != t1:
        if strict:
            return ("text", f"{cls}({line!r}, {kwargs}): text {t1!r} re-parses to {o2.line!r}")
        # foreign spelling: the text must be stable from the first re-parse on
        try:
            o3 = C(o2.line, **kwargs)
        except Exception as ex:
            return ("rejects-own-text", f"{cls}({line!r}): second rendering {o2.line!r} is rejected: {type(ex).__name__}: {ex}")
        if o3.line != o2.line or clean(o3.data()) != clean(o2.data()):
            return ("text-unstable", f"{cls}({line!r}, {kwargs}): {t1!r} -> {o2.line!r} -> {o3.line!r} does not settle after the first re-parse")
        return None
    if clean(o2.data()) != clean(o1.data()):
        if strict:
            d1, d2 = clean(o1.data()), clean(o2.data())
            diff = [k for k in d1 if d1.get(k) != d2.get(k)]
            return ("data", f"{cls}({line!r}, {kwargs}): data differs after re-parse in {diff}")
        o3 = C(o2.line, **kwargs)
        if clean(o3.data()) != clean(o2.data()):
            return ("data-unstable", f"{cls}({line!r}, {kwargs}): data not stable from the first re-parse on")
    return None


def check(arg):
    cls, line, kwargs, strict = arg
    r = roundtrip(cls, line, dict(kwargs), strict)
    if r is None:
        r = reuse(cls, line, dict(kwargs))
    if r is None:
        return [], 1
    kind, what = r
    return [dict(key=f"bounded/{cls}:{kind}", what=what, inputs=dict(cls=cls, line=line, kwargs=dict(kwargs)),
                 cmd=("import sys; sys.path.insert(0, 'props'); import C06\n"
                      f"r = C06.roundtrip({cls!r}, {line!r}, dict({kwargs!r}), {strict}); print(r); sys.exit(1 if r else 0)\n"))], 1


def check_config(arg):
    """config-level functions: acls(text) -> lines -> acls(lines) is a fixed point"""
    import cisco_acl
    cfg, platform, kw = arg
    kw = dict(kw)
    fails = []
    try:
        a1 = cisco_acl.acls(cfg, platform=platform, **kw)
        g0 = cisco_acl.addrgroups(cfg, platform=platform)
        text = "\n".join([a.line for a in a1] + [g.line for g in g0])      # ACLs and the address groups they reference
        a2 = cisco_acl.acls(text, platform=platform, **kw)
        if [a.line for a in a2] != [a.line for a in a1] or [clean(a.data(), ("uuid", "input", "output")) for a in a2] != [clean(a.data(), ("uuid", "input", "output")) for a in a1]:
            fails.append(dict(key="bounded/acls:fixpoint", what=f"acls() of its own rendering differs: {[a.line for a in a2]} vs {[a.line for a in a1]}", inputs=dict(cfg=cfg, platform=platform, kw=kw)))
        ikw = {k: v for k, v in kw.items() if k == "indent"}
        g1 = cisco_acl.addrgroups(cfg, platform=platform, **ikw)
        g2 = cisco_acl.addrgroups("\n".join(g.line for g in g1), platform=platform, **ikw)
        if ikw and (not a1 or not g1 or any(not l.startswith(ikw["indent"]) for a in a1 for l in a.line.split("\n")[1:] if l)):
            fails.append(dict(key="bounded/config:indent-setting", what=f"indent={ikw['indent']!r}: acls()/addrgroups() return {len(a1)}/{len(g1)} objects, rendered {[a.line for a in a1][:1]}",
                              inputs=dict(cfg=cfg, platform=platform, kw=kw)))
        if [g.line for g in g1] != [g.line for g in g2]:
            fails.append(dict(key="bounded/addrgroups:fixpoint", what="addrgroups() of its own rendering differs", inputs=dict(cfg=cfg, platform=platform)))
        e1 = cisco_acl.aces(cfg, platform=platform)
        e2 = cisco_acl.aces("\n".join(o.line for o in e1), platform=platform)
        if [o.line for o in e1] != [o.line for o in e2]:
            fails.append(dict(key="bounded/aces:fixpoint", what="aces() of its own rendering differs", inputs=dict(cfg=cfg, platform=platform)))
    except Exception as ex:
        fails.append(dict(key="bounded/config:error", what=f"{type(ex).__name__}: {ex}", inputs=dict(cfg=cfg, platform=platform)))
    return fails, 1


CFG = {
    "ios": ["ip access-list extended A1\n 10 permit tcp host 10.0.0.1 any eq 80\n 20 remark r\n 30 deny ip any any log\nip access-list standard S1\n permit 10.0.0.0 0.0.0.255\n"
            "object-group network G1\n host 10.0.0.1\n 10.0.0.0 255.255.255.0\ninterface Gi1\n ip access-group A1 in\n",
            "ip access-list extended B\n permit ip object-group G1 any\n permit udp any any eq 53 67\nobject-group network G1\n 10.1.0.0 255.255.0.0\n"],
    "nxos": ["ip access-list A1\n  10 permit tcp 10.0.0.1/32 any eq 80\n  20 remark r\n  30 deny ip any any log\nobject-group ip address G1\n  10 10.0.0.0/24\n  20 host 10.0.0.1\n"
             "interface Eth1/1\n  ip access-group A1 in\n"],
}


def main(chk):
    t0 = time.time()
    cases = []
    for platform in ("ios", "nxos"):
        lines = list(gen.gen_ace(platform, chk.tier, chk.seed))
        for i, l in enumerate(lines):
            combos = [("0", False, False)] if chk.tier == "quick" and i % 5 else [(v, a, b) for v in ("0", "15") for a, b in gen.SWITCHES]
            for v, a, b in combos:
                cases.append(("Ace", l, (("platform", platform), ("version", v), ("port_nr", a), ("protocol_nr", b)), False))
        # every named port number, written as a number: the renderer picks the name, the parser must accept it back
        from pyvc import loader
        c = loader.module_constants("cisco_acl.port_name")
        for version, (tt, ut) in ({"15": ("TCP_NAME_PORT__IOS_15", "UDP_NAME_PORT__IOS_15"), "16": ("TCP_NAME_PORT__IOS_16", "UDP_NAME_PORT__IOS_16"),
                                   "0": ("TCP_NAME_PORT__IOS_16", "UDP_NAME_PORT__IOS_16")} if platform == "ios" else {"9": ("TCP_NAME_PORT__NXOS", "UDP_NAME_PORT__NXOS")}).items():
            for proto, tab in (("tcp", tt), ("udp", ut)):
                for nr in sorted(set(c[tab].values())):
                    cases.append(("Ace", f"permit {proto} any any eq {nr}", (("platform", platform), ("version", version)), True))
                    cases.append(("Ace", f"permit {proto} any eq {nr} any eq 80 {nr}" if platform == "ios" else f"permit {proto} any eq {nr} any", (("platform", platform), ("version", version)), True))
        for a in gen.ADDRS[platform]:
            cases.append(("Address", a, (("platform", platform),), False))
        for proto, ports in (("tcp", gen.PORTS_TCP[platform]), ("udp", gen.PORTS_UDP[platform])):
            for p in ports:
                for nr in (False, True):
                    cases.append(("Port", p, (("platform", platform), ("protocol", proto), ("port_nr", nr)), True))
        for p in gen.PROTOS[platform] + ["0", "ip"]:
            for nr in (False, True):
                cases.append(("Protocol", p, (("platform", platform), ("protocol_nr", nr)), True))
        for o in gen.OPTIONS_TCP + ["dscp ef log", "established", "ttl eq 5", "ack\t\tlog", "ack \tlog", "ack\t log", "syn\tack"]:
            cases.append(("Option", o, (("platform", platform),), True))
        for r in REMARKS:
            cases.append(("Remark", r, (("platform", platform),), True))
        for w in ["10.0.0.0 0.0.0.255", "10.0.0.5 0.0.1.3", "0.0.0.0 255.255.255.255", "1.2.3.4 0.0.0.0"]:
            cases.append(("Wildcard", w, (("platform", platform),), True))
        ag = ["host 10.0.0.1", "10.0.0.0 255.255.255.0", "10.0.0.0/24", "group-object G2"] if platform == "ios" else ["host 10.0.0.1", "10.0.0.0/24", "10 10.0.0.0/24", "10.0.0.0 0.0.1.3"]
        for a in ag:
            cases.append(("AddressAg", a, (("platform", platform),), False))
        head = "object-group network G" if platform == "ios" else "object-group ip address G"
        for members in itertools.combinations(ag[:3], 2):
            for indent in ("  ", " ", "    "):
                cases.append(("AddrGroup", "\n".join([head] + list(members)), (("platform", platform), ("indent", indent)), False))
        acl_head = ["ip access-list extended A1", "ip access-list standard S1"] if platform == "ios" else ["ip access-list A1"]
        native = lines[5:60:6]
        for h in acl_head:
            body_pool = STANDARD if "standard" in h else native + REMARKS[:3]
            for k in (1, 2, 3):
                for body in list(itertools.combinations(body_pool, k))[:40]:
                    for indent in ("  ", " "):
                        cases.append(("Acl", "\n".join([h] + list(body)), (("platform", platform), ("indent", indent)), False))
                        if "standard" not in h:
                            cases.append(("AceGroup", "\n".join(body), (("platform", platform),), False))
    # the third platform: the same object levels on "asa" (IOS-style text)
    for l in ["permit tcp host 10.0.0.1 any eq 80", "10 deny ip any any log", "permit udp any eq 53 10.0.0.0 0.0.0.255", "permit tcp any any eq 22"]:
        cases.append(("Ace", l, (("platform", "asa"),), False))
    for body in (["permit tcp any any eq 80", "deny ip any any"], ["remark r", "permit udp any any eq 53"]):
        cases.append(("Acl", "\n".join(["ip access-list extended A1"] + body), (("platform", "asa"),), False))
        cases.append(("AceGroup", "\n".join(body), (("platform", "asa"),), False))
    cases.append(("Acl", "\n".join(["ip access-list standard S1"] + STANDARD[:2]), (("platform", "asa"),), False))
    res = pmap(check, cases)
    viol = 0
    for fails, _ in res:
        for f in fails:
            viol += 1
            chk.finding(f["key"], f["what"], inputs=f["inputs"], cmd=f.get("cmd"), key=f["key"])
    chk.add_bounded("X(obj.line, same configuration).line == obj.line and equal data (strict for native input, stable from the first re-parse for foreign spellings)",
                    len(cases), len(cases), "12 object levels: gen_ace lines x versions x switches, address spellings, port/protocol/option/remark/wildcard tokens, "
                    "address groups x indent, extended/standard ACLs and ACE groups of <= 3 lines x indent", viol, time.time() - t0, [list(cases[10][:2])], exhaustive=False)
    t0 = time.time()
    ccases = [(c, p, kw) for p in CFG for c in CFG[p] for kw in ((), (("port_nr", True),), (("group_by", "="),), (("indent", "\t"),), (("indent", "\t\t"),), (("indent", " \t"),),
                                                                  (("indent", "    "),), (("indent", "\t "), ("group_by", "=")))]
    res = pmap(check_config, ccases)
    viol = 0
    for fails, _ in res:
        for f in fails:
            viol += 1
            chk.finding(f["key"], f["what"], inputs=f["inputs"], key=f["key"])
    chk.add_bounded("acls / aces / addrgroups are fixed points on their own rendering", len(ccases), len(ccases), "3 configurations x 8 settings (switches, grouping, five indentation settings incl. tabs)", viol, time.time() - t0,
                    [ccases[0][1]], exhaustive=False)
    # deductive part: the text normaliser every `line` setter starts with keeps exactly the words of its argument, in their order (so a rendered text,
    # whose words are single-blank separated, comes back with the same words); everything behind it is bounded
    import contracts.c_wildcard  # noqa
    chk.prove(["c_wildcard"])
    chk.replay_refuted()
    chk.assumptions += ["engine law for the idiom `\" \".join(text.split())`: the whitespace split of the joined text gives the same words back (str semantics, audited; "
                        "a rewrite of the normaliser with other primitives is reported unsupported and decided by the bounded part)"]
    return chk.finish("other", "Deductive: helpers.replace_spaces and helpers.init_line (the normaliser of every `line` setter) return a text with exactly the words of the argument, in order, "
                      "and accept every str. Bounded (labelled): the fixed-point statement itself - the constructors are regex/`**data()` glue outside the deductive subset; the "
                      "per-class meaning is covered by C01/C05/C08/C09.", trusted_base=["z3 5.1.0", "cvc5", "pyvc", "the library's own constructors (self-consistency check of the bounded part)"])


if __name__ == "__main__":
    run("C06", main)
