"""C04 - Deleting shadowed entries never changes any packet's permit/deny decision."""
import itertools
import os
import sys
import time

sys.path.insert(0, os.path.dirname(os.path.dirname(os.path.abspath(__file__))))
import z3
from pyvc.driver import run, pmap
from spec import sets
import shadow_common as sc
import C11


def lemmas():
    """L4.firstmatch: if every removed rule j has a rule top(j) < j (removed or not) that matches every packet j matches,
    then the first matching rule of any packet is never a removed one, hence first-match decisions are unchanged."""
    Match = z3.Function("Match", z3.IntSort(), z3.IntSort(), z3.BoolSort())
    removed = z3.Function("removed", z3.IntSort(), z3.BoolSort())
    top = z3.Function("top", z3.IntSort(), z3.IntSort())
    n, f, g, j, p, q, i = z3.Ints("n f g j p q i")
    cover = z3.ForAll([j], z3.Implies(z3.And(0 <= j, j < n, removed(j)),
                                      z3.And(0 <= top(j), top(j) < j, z3.ForAll([q], z3.Implies(Match(j, q), Match(top(j), q))))))
    first_full = z3.And(0 <= f, f < n, Match(f, p), z3.ForAll([i], z3.Implies(z3.And(0 <= i, i < f), z3.Not(Match(i, p)))))
    first_red = z3.And(0 <= g, g < n, z3.Not(removed(g)), Match(g, p),
                       z3.ForAll([i], z3.Implies(z3.And(0 <= i, i < g), z3.Or(removed(i), z3.Not(Match(i, p))))))
    return [
        ("L4.firstmatch.kept", [cover, first_full], z3.Not(removed(f)), {}),
        ("L4.firstmatch.same", [cover, first_full, first_red], f == g, {}),
        ("L4.firstmatch.nomatch", [cover, first_full, z3.ForAll([i], z3.Implies(z3.And(0 <= i, i < n, z3.Not(removed(i))), z3.Not(Match(i, p))))],
         z3.BoolVal(False), {}),
    ]


def flat(acl):
    import cisco_acl
    out = []
    for o in acl.items:
        if isinstance(o, cisco_acl.AceGroup):
            out.extend(o.items)
        else:
            out.append(o)
    return out


def check_delete(arg):
    import cisco_acl
    lines, skip, group_by, numbered = arg
    lines = list(lines)
    if group_by:
        # heading remarks make blocks; plain remark stays inside
        lines = ["remark = H0"] + lines[:2] + ["remark = H1"] + lines[2:]
    acl = C11.build_acl(lines)
    if numbered:
        acl.resequence(10, 10)
    if group_by:
        acl.group(group_by)
        if numbered:
            # blocks numbered and annotated after grouping: a block that remains keeps its own number (and note and identifier)
            acl.resequence(10, 10)
            for k_, g_ in enumerate(acl.items):
                g_.note = f"block {k_}"
    inputs = dict(lines=lines, skip=list(skip), group_by=group_by, numbered=numbered)
    before_blocks = {o.name: (o.sequence, o.note, o.uuid) for o in acl.items if isinstance(o, cisco_acl.AceGroup)}
    before = flat(acl)
    before_lines = [o.line for o in before]
    before_group = [(type(o).__name__, len(o.items) if isinstance(o, cisco_acl.AceGroup) else 0) for o in acl.items]
    want_report = acl.shading(skip=list(skip))
    fails = []

    def bad(kind, what):
        fails.append(dict(key=f"bounded/Acl.delete_shadow:{kind}", what=what, inputs=inputs,
                          cmd=("import sys; sys.path.insert(0, 'props'); import C04\n"
                               f"fails, _ = C04.check_delete({arg!r})\nprint([f['what'] for f in fails]); sys.exit(1 if fails else 0)\n")))
    try:
        got = acl.delete_shadow(skip=list(skip))
    except Exception as ex:
        bad("error", f"delete_shadow raised {type(ex).__name__}: {ex}")
        return fails, 1
    if {k: sorted(v) for k, v in got.items()} != {k: sorted(v) for k, v in want_report.items()}:
        bad("report", f"returned {got}, shading() just before returned {want_report}")
    after = flat(acl)
    after_lines = [o.line for o in after]
    # subsequence with only ACEs removed
    it = iter(enumerate(before_lines))
    kept_idx = []
    ok = True
    for l in after_lines:
        for k, b in it:
            if b == l:
                kept_idx.append(k)
                break
        else:
            ok = False
            break
    if not ok:
        bad("order", f"result {after_lines} is not a subsequence of {before_lines}")
        return fails, 1
    # choose the subsequence embedding that keeps earliest occurrences; removed = the rest
    removed = [k for k in range(len(before)) if k not in kept_idx]
    for k in removed:
        o = before[k]
        if not isinstance(o, cisco_acl.Ace):
            bad("remark", f"a remark was removed: {o.line!r}")
            continue
        sem_k = sc.ref_sem(sc_strip(o.line), "ios")
        covered = False
        for i in range(k):
            t = before[i]
            if isinstance(t, cisco_acl.Ace):
                sem_i = sc.ref_sem(sc_strip(t.line), "ios")
                if sem_i.action == sem_k.action and sets.sem_subset(sem_k, sem_i) is None:
                    covered = True
                    break
        if not covered:
            bad("uncovered", f"removed entry {o.line!r} is not covered by any same-action entry above it in {before_lines}")
    if bool(acl.group_by) != bool(group_by):
        bad("grouping", "group_by changed")
    for o in acl.items:
        if isinstance(o, cisco_acl.AceGroup) and o.name in before_blocks and (o.sequence, o.note, o.uuid) != before_blocks[o.name]:
            bad("block-number", f"block {o.name!r} had (sequence, note, uuid) = {before_blocks[o.name]} before and {(o.sequence, o.note, o.uuid)} after the removal")
            break
    if not removed and [(type(o).__name__, len(o.items) if isinstance(o, cisco_acl.AceGroup) else 0) for o in acl.items] != before_group:
        bad("grouping", "grouping changed although nothing was removed")
    try:
        again = acl.delete_shadow(skip=list(skip))
    except Exception as ex:
        again = f"{type(ex).__name__}: {ex}"
    if again != {}:
        bad("idempotent", f"a second delete_shadow still reports {again}")
    return fails, 1 if removed else 0


def check_members_change(arg):
    """the same entry text with other group members (another ACL in the same process, or the members edited in place):
    the decision follows the members, not the text"""
    import cisco_acl
    variant = arg
    lines = ["permit ip object-group G1 any", "permit ip host 10.0.0.5 any", "deny ip any any"]
    cover, other = ["10.0.0.0 0.0.0.255"], ["10.9.0.0 0.0.0.255"]
    fails = []

    def build(members):
        acl = cisco_acl.Acl("\n".join(["ip access-list extended A"] + lines), platform="ios")
        for o in acl.items:
            if isinstance(o, cisco_acl.Ace) and o.srcaddr.addrgroup:
                o.srcaddr.items = [cisco_acl.Address(m, platform="ios") for m in members]
        return acl

    def kept(acl):
        return "permit ip host 10.0.0.5 any" in [o.line for o in acl.items]

    def bad(what):
        fails.append(dict(key=f"bounded/Acl.delete_shadow:members-change:{variant}", what=what, inputs=dict(lines=lines, variant=variant),
                          cmd=("import sys; sys.path.insert(0, 'props'); import C04\n"
                               f"fails, _ = C04.check_members_change({arg!r})\nprint([f['what'] for f in fails]); sys.exit(1 if fails else 0)\n")))
    if variant in ("cover-then-other", "other-then-cover"):
        seq = [(cover, False), (other, True)] if variant == "cover-then-other" else [(other, True), (cover, False)]
        for members, want_kept in seq:
            acl = build(members)
            acl.shading()
            acl.delete_shadow()
            if kept(acl) != want_kept:
                bad(f"G1 = {members}: `permit ip host 10.0.0.5 any` was {'kept' if kept(acl) else 'removed'}, but G1 {'does not cover' if want_kept else 'covers'} 10.0.0.5")
    else:
        acl = build(cover)
        acl.shading()
        for o in acl.items:
            if isinstance(o, cisco_acl.Ace) and o.srcaddr.addrgroup:
                o.srcaddr.items = [cisco_acl.Address(m, platform="ios") for m in other]
        acl.delete_shadow()
        if not kept(acl):
            bad("after the members of G1 were changed in place to a group that does not cover 10.0.0.5, delete_shadow still removed `permit ip host 10.0.0.5 any`")
    return fails, 1


def sc_strip(line):
    toks = line.split()
    return " ".join(toks[1:] if toks and toks[0].isdigit() else toks)


def main(chk):
    chk.lemmas(lemmas())
    # hypotheses of the lemma: C03's proved postcondition (True => same action and packet inclusion)
    chk.prove(["c_helpers", "c_shadow"], serve=["C03"])
    import C03
    C03.attach_replays()
    chk.replay_refuted()
    t0 = time.time()
    acls = C11.acl_cases(chk.tier)
    cases = [(l, (), "", False) for l in acls] + [(l, ("nc_wildcard",), "", True) for l in acls[::3]]
    cases += [(l, (), "=", k % 2 == 0) for k, l in enumerate(acls) if len(l) >= 3][::2]
    # entries with different address groups on both sides (group members attached), next to entries inside one group only
    GALPHA = ["permit ip object-group G1 object-group GD", "permit tcp host 10.0.0.1 host 10.0.0.2 eq 80", "permit tcp host 10.0.0.1 host 10.1.0.2 eq 80",
              "permit ip object-group GD object-group G1", "permit tcp host 10.1.0.9 host 10.0.1.9", "deny ip any any", "permit ip object-group G3 any",
              "permit ip object-group GEDGE any", "permit ip object-group GALL3 any"]
    gcases = [(l, (), "", False) for n in (2, 3) for l in itertools.product(GALPHA, repeat=n)]
    cases += gcases
    # entries whose port expression denotes no port at all standing ABOVE ordinary entries (they cover nothing)
    EALPHA = ["permit tcp any any lt 0", "permit tcp any lt 0 any", "permit tcp any any gt 65535", "permit tcp any any lt 1", "permit tcp any any eq 80",
              "permit tcp any any range 1 65534", "permit tcp any eq 1024 any", "deny ip any any"]
    ecases = [(l, (), "", False) for n in (2, 3) for l in itertools.product(EALPHA, repeat=n)]
    cases += ecases
    # wildcards with many non-contiguous bits whose lowest mask bit is 0, below entries that cover only part of them
    NALPHA = ["permit ip host 10.0.0.1 any", "permit ip 10.0.0.1 0.0.255.0 any", "permit ip 10.0.0.0 0.0.4.0 any", "deny ip 10.0.0.0 0.0.255.255 any", "permit ip host 10.0.5.1 any",
              "permit ip 10.0.0.0 0.0.255.255 any", "permit ip 10.0.0.0 0.0.0.255 any"]
    ncases = [(l, (), "", False) for n in (2, 3) for l in itertools.product(NALPHA, repeat=n)]
    cases += ncases
    # TCP flags written after a log keyword above narrower entries without them; neq with three operands above / below the ports in its gaps
    FALPHA = ["permit tcp any 10.0.0.0 0.0.0.255 log syn", "permit tcp any host 10.0.0.10 eq 443", "permit tcp any 10.0.0.0 0.0.0.255 syn log", "permit tcp any any log-input ack",
              "permit tcp any host 10.0.0.10 ack", "permit tcp any host 10.0.0.10 syn", "deny tcp any 10.0.0.0 0.0.0.255 log-input syn", "deny ip any any"]
    fcases = [(l, (), "", False) for n in (2, 3) for l in itertools.product(FALPHA, repeat=n)]
    PALPHA = ["permit tcp any any neq 1 3 5", "permit tcp any any eq 2", "permit tcp any any neq 2", "permit tcp any any eq 4", "permit tcp any any neq 1 3 4",
              "permit tcp any any range 2 4", "deny tcp any any"]
    pcases = [(l, (), "", False) for n in (2, 3) for l in itertools.product(PALPHA, repeat=n)]
    cases += fcases + pcases
    res = pmap(check_delete, cases)
    viol = 0
    for fails, _ in res:
        for f in fails:
            viol += 1
            chk.finding(f["key"], f["what"], inputs=f["inputs"], cmd=f["cmd"], key=f["key"])
    chk.add_bounded("contract of Acl.delete_shadow (report, subsequence, only covered ACEs removed, remarks/order/numbers/grouping kept, idempotent)",
                    len(cases), sum(d for _, d in res),
                    f"all ACLs of <= {3 if chk.tier == 'quick' else 4} items over the {len(C11.ALPHABET)}-kind alphabet (+ slice of length 4), flat / numbered / grouped by remark prefix; "
                    f"{len(gcases)} ACLs of 2..3 items over {len(GALPHA)} entries with address groups on both sides; {len(ecases)} ACLs of 2..3 items over {len(EALPHA)} entries "
                    "with empty port sets (lt 0, lt 1, gt 65535) above ordinary ones; "
                    f"{len(ncases)} ACLs of 2..3 items over {len(NALPHA)} entries with 256-network wildcards (lowest mask bit 0); {len(fcases)} over {len(FALPHA)} entries with TCP flags after "
                    f"a log keyword; {len(pcases)} over {len(PALPHA)} entries with three-operand neq and the ports in its gaps",
                    viol, time.time() - t0, [list(acls[80])], exhaustive=True)
    t0 = time.time()
    mcases = ["cover-then-other", "other-then-cover", "edited-in-place"]
    res = pmap(check_members_change, mcases)
    viol = 0
    for fails, _ in res:
        for f in fails:
            viol += 1
            chk.finding(f["key"], f["what"], inputs=f["inputs"], cmd=f["cmd"], key=f["key"])
    chk.add_bounded("delete_shadow follows the members of a referenced group, not the entry text (two ACLs in one process; members edited in place)",
                    len(mcases), len(mcases), "3 histories", viol, time.time() - t0, mcases[:1], exhaustive=True)
    chk.assumptions += ["coverage of a removed entry is decided with the independent reader + set algebra on the rendered lines",
                        "L4.firstmatch is stated for an arbitrary matching relation; its hypothesis is the bounded `uncovered` clause plus C03's proved soundness"]
    return chk.finish("other",
                      "Deductive: lemma L4.firstmatch (first matching rule is never a removed one) and C03's soundness obligations of shadow_of. Bounded (labelled): the "
                      "contract of Acl.delete_shadow on all short ACLs, which supplies the lemma's hypothesis for the real text-index algorithm.",
                      trusted_base=["z3 5.1.0", "pyvc", "spec/sets.py", "spec/cisco_ref.py"])


if __name__ == "__main__":
    run("C04", main)
