"""C14 - Collapsing addresses preserves the covered address set exactly."""
import itertools
import os
import sys
import time

sys.path.insert(0, os.path.dirname(os.path.dirname(os.path.abspath(__file__))))
from pyvc.driver import run, pmap
from spec import sets, cisco_ref

BASE = 0x0A000000


def quad(v):
    return ".".join(str((v >> s) & 255) for s in (24, 16, 8, 0))


def prefixes():
    """the 31 prefixes inside 10.0.0.0/28 plus the top of the tree"""
    out = []
    for l in range(28, 33):
        for k in range(1 << (l - 28)):
            out.append((BASE + (k << (32 - l)), l))
    out += [(0, 0), (0, 1), (0x80000000, 1)]
    return out


def spell(addr, l, cls, platform):
    if cls == "Address":
        if platform == "nxos":
            return f"{quad(addr)}/{l}"
        return f"{quad(addr)} {quad((1 << (32 - l)) - 1)}"
    if platform == "nxos":
        return f"{quad(addr)}/{l}"
    if l == 0:
        return None                       # 0.0.0.0 0.0.0.0 is refused for IOS group members
    return f"{quad(addr)} {quad(0xFFFFFFFF ^ ((1 << (32 - l)) - 1))}"


def check(arg):
    import cisco_acl
    nets, cls, platform = arg[:3]
    history = arg[3] if len(arg) > 3 else "fresh"
    C = getattr(cisco_acl, cls)
    mod = cisco_acl.address if cls == "Address" else cisco_acl.address_ag
    texts = [spell(a, l, cls, platform) for a, l in nets]
    if any(t is None for t in texts):
        return [], 0
    fails = []
    inputs = dict(nets=[f"{quad(a)}/{l}" for a, l in nets], cls=cls, platform=platform, history=history)

    def bad(kind, what):
        fails.append(dict(key=f"bounded/{cls}.collapse:{kind}" + ("" if history == "fresh" else f":{history}"), what=what, inputs=inputs,
                          cmd=("import sys; sys.path.insert(0, 'props'); import C14\n"
                               f"fails, _ = C14.check({arg!r})\nprint([f['what'] for f in fails]); sys.exit(1 if fails else 0)\n")))
    if history == "fresh":
        objs = [C(t, platform=platform, note="keep") for t in texts]
    else:
        # the objects had another address before, were queried and collapsed, then re-addressed through a setter
        prev = spell(BASE + 0x100, 30, cls, platform)
        objs = [C(prev, platform=platform, note="keep") for _ in texts]
        for o in objs:
            o.ipnets()
            o.subnet_of(objs[0])
        try:
            first = mod.collapse(objs)
            if [o.line for o in first] != [prev]:
                bad("history", f"collapsing {len(objs)} copies of {prev!r} gives {[o.line for o in first]}")
        except Exception as ex:
            bad("history", f"collapsing {len(objs)} copies of {prev!r} raised {type(ex).__name__}: {ex}")
            return fails, 1
        for o, t, (a, l) in zip(objs, texts, nets):
            if history == "line":
                o.line = t
            elif history == "prefix":
                o.prefix = f"{quad(a)}/{l}"
            elif history == "prefix-queried":
                o.prefix = f"{quad(a)}/{l}"
                o.ipnets()
    try:
        # the argument may be any iterable of addresses (one-shot iterators included): every third case passes one
        kind_ = (len(nets) + (nets[0][0] >> 4) + nets[0][1]) % 3 if history == "fresh" else 0
        arg_ = objs if kind_ == 0 else (iter(objs) if kind_ == 1 else (o for o in objs))
        inputs["argument"] = ["list", "iterator", "generator"][kind_]
        res = mod.collapse(arg_)
        if history != "fresh":
            res2 = mod.collapse(objs)
            if [o.line for o in res2] != [o.line for o in res]:
                bad("repeat", f"collapsing the same list twice gives {[o.line for o in res]} then {[o.line for o in res2]}")
    except Exception as ex:
        whole = sets.union_equal([sets.cube_of_prefix(a, l) for a, l in nets], [sets.cube(0, sets.M32)]) is None
        if isinstance(ex, ValueError) and cls == "AddressAg" and platform == "ios" and whole:
            return fails, 1     # the collapsed result 0.0.0.0/0 has no spelling as an IOS group member (library policy): refused, not approximated
        bad("error", f"{type(ex).__name__}: {ex}")
        return fails, 1
    inc = [sets.cube_of_prefix(a, l) for a, l in nets]
    outc = []
    for o in res:
        if o.ipnet is None:
            bad("kind", f"result {o.line!r} has no single network")
            return fails, 1
        outc.append(sets.cube_of_prefix(int(o.ipnet.network_address), o.ipnet.prefixlen))
        # what the result *says* (its text, read independently) is what it is
        try:
            toks = o.line.split()
            toks = toks[1:] if len(toks) > 1 and toks[0].isdigit() and not cisco_ref.is_ip(toks[0]) else toks
            said = cisco_ref.read_address(toks, 0, platform, None, mask_is_subnet=(cls == "AddressAg" and platform == "ios"))[0]
            if sets.union_equal(said, [outc[-1]]) is not None:
                bad("text", f"result renders as {o.line!r}, which does not denote its network {o.ipnet}")
        except cisco_ref.RefError as ex:
            bad("text", f"result renders as {o.line!r}, not an address of {platform}: {ex}")
    w = sets.union_equal(inc, outc)
    if w is not None:
        bad("cover", f"covered set changed at address {quad(w)}: result {[o.line for o in res]}")
    if len(res) > len(objs):
        bad("longer", f"{len(res)} results for {len(objs)} inputs")
    if [o.ipnet for o in res] != sorted(o.ipnet for o in res):
        bad("order", f"result not sorted: {[o.line for o in res]}")
    if any(o.note not in ("", None) for o in res):
        bad("note", f"notes not empty: {[o.note for o in res]}")
    if any(not isinstance(o, C) or o.platform != platform for o in res):
        bad("class", "result objects have a different class or platform")
    return fails, 1


def check_refusal(arg):
    import cisco_acl
    kind = arg
    try:
        if kind == "nc":
            cisco_acl.address.collapse([cisco_acl.Address("10.0.0.0 0.0.1.3"), cisco_acl.Address("10.0.0.0 0.0.0.255")])
        elif kind == "foreign":
            cisco_acl.address.collapse([cisco_acl.Address("10.0.0.0 0.0.0.255"), cisco_acl.AddressAg("10.0.0.0 255.255.255.0")])
        elif kind == "foreign2":
            cisco_acl.address_ag.collapse([cisco_acl.Address("10.0.0.0 0.0.0.255")])
        elif kind == "str":
            cisco_acl.address.collapse(["10.0.0.0/24"])
        elif kind == "nc-ag":
            cisco_acl.address_ag.collapse([cisco_acl.AddressAg("10.0.0.0 0.0.1.3", platform="nxos")])
        elif kind.startswith("nc-after-rejected:"):
            # a non-contiguous address whose line was reassigned to something the library rejected (the object keeps the wildcard): still refused,
            # wherever it stands in the list
            _, bad_line, pos, platform = kind.split(":")
            nc = cisco_acl.Address("10.0.0.0 0.0.3.3", platform=platform)
            try:
                nc.line = bad_line
            except ValueError:
                pass
            others = [cisco_acl.Address("host 192.168.1.1" if platform == "ios" else "192.168.1.1/32", platform=platform)]
            cisco_acl.address.collapse(others + [nc] if pos == "last" else [nc] + others)
    except TypeError:
        return [], 1
    except Exception as ex:
        return [dict(key=f"bounded/collapse:refusal:{kind}", what=f"{kind}: {type(ex).__name__} instead of TypeError: {ex}", inputs=dict(kind=kind))], 1
    return [dict(key=f"bounded/collapse:refusal:{kind}", what=f"{kind}: accepted instead of refused with TypeError", inputs=dict(kind=kind))], 1


def random_lists(seed, count):
    """lists of related networks anywhere in the address space: a seeded base network plus relatives
    (sibling, parent, child, neighbour block, duplicate, unrelated)"""
    import random
    rnd = random.Random(seed)
    out = []
    for _ in range(count):
        l = rnd.randint(1, 32)
        a = rnd.getrandbits(32) & (0xFFFFFFFF << (32 - l)) & 0xFFFFFFFF
        if rnd.random() < 0.15:
            a = 0 if rnd.random() < 0.5 else (0xFFFFFFFF << (32 - l)) & 0xFFFFFFFF      # the two ends of the address space
        nets = [(a, l)]
        for _ in range(rnd.randint(0, 5)):
            b, m = rnd.choice(nets)
            kind = rnd.choice("spcnnduS")
            if kind == "s" and m >= 1:
                nets.append((b ^ (1 << (32 - m)), m))
            elif kind == "S" and m >= 2:                       # sibling of the parent
                pm = m - 1
                pb = b & (0xFFFFFFFF << (32 - pm)) & 0xFFFFFFFF
                nets.append((pb ^ (1 << (32 - pm)), pm))
            elif kind == "p" and m >= 2:
                nets.append((b & (0xFFFFFFFF << (33 - m)) & 0xFFFFFFFF, m - 1))
            elif kind == "c" and m <= 31:
                nets.append((b | (rnd.randint(0, 1) << (31 - m)), m + 1))
            elif kind == "n":
                nb = (b + (1 << (32 - m))) & 0xFFFFFFFF
                if nb > b:
                    nets.append((nb, m))
            elif kind == "d":
                nets.append((b, m))
            else:
                m2 = rnd.randint(1, 32)
                nets.append((rnd.getrandbits(32) & (0xFFFFFFFF << (32 - m2)) & 0xFFFFFFFF, m2))
        rnd.shuffle(nets)
        out.append(tuple(nets))
    return out


def check_netdefs(seed):
    """the bit-level definitions behind the engine's network facts (pyvc.lemmas.NetDefs) against CPython's ipaddress"""
    import ipaddress
    import random
    import z3
    from pyvc.lemmas import NetDefs as D
    from pyvc.values import Net, BVW
    rnd = random.Random(seed)

    def mk(n):
        return Net.mk_net(z3.BitVecVal(int(n.network_address), BVW), z3.IntVal(n.prefixlen))

    def rd(t):
        t = z3.simplify(t)
        return ipaddress.IPv4Network((z3.simplify(Net.addr(t)).as_long(), z3.simplify(Net.plen(t)).as_long()))
    fails, done = [], 0
    nets = [ipaddress.IPv4Network("0.0.0.0/0"), ipaddress.IPv4Network("255.255.255.255/32"), ipaddress.IPv4Network("128.0.0.0/1")]
    for _ in range(60):
        l = rnd.randint(0, 32)
        a = rnd.getrandbits(32) & (0xFFFFFFFF << (32 - l)) & 0xFFFFFFFF
        nets.append(ipaddress.IPv4Network((a, l)))
    for n in nets:
        done += 1
        if rd(D.supernet(mk(n))) != n.supernet():
            fails.append(f"supernet({n})")
        if [rd(x) for x in D.subnets(mk(n))] != (list(n.subnets()) * 2)[:2]:
            fails.append(f"subnets({n})")
        if not z3.is_true(z3.simplify(D.wf(mk(n)))):
            fails.append(f"wf({n})")
        for m in (n.supernet(), rnd.choice(nets), next(iter(n.subnets()))):
            if z3.is_true(z3.simplify(D.subnet_of(mk(n), mk(m)))) != n.subnet_of(m):
                fails.append(f"subnet_of({n}, {m})")
        for a in (int(n.network_address), int(n.broadcast_address), (int(n.broadcast_address) + 1) & 0xFFFFFFFF, rnd.getrandbits(32)):
            if z3.is_true(z3.simplify(D.has(z3.BitVecVal(a, BVW), mk(n)))) != (ipaddress.IPv4Address(a) in n):
                fails.append(f"{a} in {n}")
    return fails, done


def main(chk):
    t0 = time.time()
    # deductive part: the work-list loop of collapse_ keeps the covered set (contracts/c_collapse.py)
    chk.prove(["c_collapse"])
    chk.replay_refuted()
    fails, done = check_netdefs(chk.seed)
    for f in fails:
        chk.finding("bounded/netdefs", f"the engine's definition disagrees with CPython ipaddress on {f}", inputs=dict(case=f), key="bounded/netdefs")
    chk.add_bounded("bit-level definitions of supernet/subnets/subnet_of/membership used by the engine lemmas == CPython ipaddress", done, done,
                    "63 networks (all prefix lengths, seeded) x 4 addresses / 3 partners", len(fails), time.time() - t0, ["10.0.0.0/8"], exhaustive=False)
    t0 = time.time()
    P = prefixes()
    n = 3 if chk.tier == "quick" else 4
    lists = [c for k in range(1, n + 1) for c in itertools.product(P, repeat=k)]
    if chk.tier == "quick":
        lists = [c for i, c in enumerate(lists) if len(c) < 3 or i % 3 == 0]
    else:
        lists = [c for i, c in enumerate(lists) if len(c) < 4 or i % 6 == 0]
    cases = []
    for i, c in enumerate(lists):
        cls, platform = [("Address", "ios"), ("Address", "nxos"), ("AddressAg", "ios"), ("AddressAg", "nxos")][i % 4]
        cases.append((c, cls, platform))
        if len(c) <= 2:
            for cp in [("Address", "ios"), ("Address", "nxos"), ("AddressAg", "ios"), ("AddressAg", "nxos")]:
                if cp != (cls, platform):
                    cases.append((c,) + cp)
    n_enum = len(cases)
    rl = random_lists(chk.seed, 3000 if chk.tier == "quick" else 40000)
    for i, c in enumerate(rl):
        cases.append((c,) + [("Address", "ios"), ("Address", "nxos"), ("AddressAg", "ios"), ("AddressAg", "nxos")][i % 4])
    hist = [c + (h,) for i, c in enumerate(cases[:n_enum]) if len(c[0]) <= 2 and (chk.tier != "quick" or i % 5 == 0)
            for h in ("line", "prefix", "prefix-queried")]
    cases += hist
    res = pmap(check, cases)
    viol = 0
    for fails, _ in res:
        for f in fails:
            viol += 1
            chk.finding(f["key"], f["what"], inputs=f["inputs"], cmd=f.get("cmd"), key=f["key"])
    chk.add_bounded("collapse: covered set equal (exact trie algebra), never longer, sorted, notes empty, class/platform kept", len(cases), sum(d for _, d in res),
                    f"lists of <= {n} networks (any order, duplicates, nesting, adjacency) from the 31 prefixes of 10.0.0.0/28 plus /0 and both /1; both classes, both platforms "
                    "(lists of maximal length are sampled 1 in 3/6); "
                    f"{len(rl)} seeded lists of 1..6 related networks (siblings, parents, children, neighbours, duplicates) anywhere in the address space; lists of <= 2 also on objects that held another address, were queried and collapsed, "
                    f"then re-addressed through the line / prefix setters ({len(hist)} histories)", viol, time.time() - t0, [[f"{quad(a)}/{l}" for a, l in cases[500][0]]], exhaustive=False)
    res = pmap(check_refusal, ["nc", "foreign", "foreign2", "str", "nc-ag"] + [f"nc-after-rejected:{bl}:{pos}:{pl}" for bl in ("10.0.0.0/33", "10.0.0.256/24", "host 10.0.0.256", "10.0.0.0 0.0.0.256")
                                                                                        for pos in ("last", "first") for pl in ("ios", "nxos")])
    for fails, _ in res:
        for f in fails:
            chk.finding(f["key"], f["what"], inputs=f["inputs"], key=f["key"])
    chk.add_bounded("refusals (non-contiguous wildcard, foreign object types)", 5, 5, "5 fixed cases", sum(len(f) for f, _ in res), 0.1, ["nc"], exhaustive=True)
    chk.assumptions += ["termination of the work-list loop of collapse_ is observed (bounded), not proved: no measure is stated",
                        "IPv4Network values are well-formed (ipaddress strict=True invariant); networks are abstract values in the list-level VCs, tied to bits by the "
                        "engine lemmas engine.net.* (proved each run) and the CPython cross-check of their definitions",
                        "ghost list IPN(o) of an address object: value of o.ipnets() at entry for the inputs, at return for the results; sound because copy() returns "
                        "new objects (assumed)"]
    return chk.finish("other", "Deductive: address_base.collapse_ under contract - refusal scan, work-list loop (invariant: networks in the work list and the finished list "
                      "cover exactly the input addresses; skip / merge / merge-without-insert / finish paths), result objects, permutation by sorted(); assumed contracts "
                      "for ipnets(), copy(), prefix setter. Bounded (labelled): the public collapse functions with exact set algebra (also order, length, notes, class, "
                      "refusals, re-addressing histories), which also exercises the assumed contracts natively.", trusted_base=["z3 5.1.0", "pyvc", "spec/sets.py"])


if __name__ == "__main__":
    run("C14", main)
