"""C11 - Shadow answers are exact on group-free entries; the ACL report follows its spec."""
import itertools
import os
import sys
import time

sys.path.insert(0, os.path.dirname(os.path.dirname(os.path.abspath(__file__))))
from pyvc.driver import run, pmap
from spec import sets
import shadow_common as sc
import C03

ALPHABET = [
    "permit ip any any", "permit tcp any any eq 80", "permit tcp any any", "deny tcp any any eq 80", "deny ip any any",
    "permit tcp host 10.0.0.1 any eq 80", "permit ip object-group EMPTY any", "permit tcp any any lt 1", "remark r1",
    "permit ip 10.0.0.0 0.0.1.3 any", "permit ip 10.0.0.0 0.0.0.3 any", "permit tcp any any syn fin", "permit tcp host 10.0.0.1 any ack syn",
    "permit 200 any any", "permit 201 any any", "permit ip 10.0.0.0 128.0.0.255 any", "permit ip 138.0.0.0 0.0.0.255 any",
]


def check_exact(arg):
    """group-free pair with non-empty bottom port sets: answer == (same action and set inclusion and no skipped kind involved)"""
    platform, i, j = arg
    top_l, bot_l = sc.ACES[platform][i], sc.ACES[platform][j]
    if not (sc.group_free(top_l) and sc.group_free(bot_l)):
        return [], 0
    st, sb = sc.ref_sem(top_l, platform), sc.ref_sem(bot_l, platform)
    if not sc.bottom_ports_nonempty(sb):
        return [], 0
    top, bot = sc.make_ace(top_l, platform), sc.make_ace(bot_l, platform)
    fails = []
    for skip in sc.SKIPS:
        want = st.action == sb.action and sets.sem_subset(sb, st) is None
        if any(sc.involves(l, k, platform) for k in skip for l in (top_l, bot_l)):
            want = False
        got = bot.shadow_of(top, skip=list(skip))
        if bool(got) != want:
            fails.append(dict(key=f"bounded/shadow_of:inexact:{'missed' if want else 'extra'}",
                              what=f"{bot_l!r}.shadow_of({top_l!r}, skip={list(skip)}) = {got}, exact answer {want}",
                              inputs=dict(top=top_l, bottom=bot_l, skip=list(skip), platform=platform),
                              cmd=("import sys; sys.path.insert(0, 'props'); import C11\n"
                                   f"fails, _ = C11.check_exact({arg!r})\nprint([f['what'] for f in fails]); sys.exit(1 if fails else 0)\n")))
    return fails, 1


ADDRS = {"ios": ["any", "host 10.0.0.1", "10.0.0.0 0.0.0.255", "10.0.0.0 0.0.1.3", "10.9.0.0 0.0.0.255", "10.0.0.0 0.0.3.3"],
         "nxos": ["any", "10.0.0.1/32", "10.0.0.0/24", "10.0.0.0 0.0.1.3", "10.9.0.0/24", "10.0.0.0 0.0.3.3"]}


def check_edit_history(arg):
    """ask, reassign one address of one entry in place (line or prefix), ask again: the second answer is the exact one for the new text
    (also inside an Acl, and also when the first question was asked through another entry point)"""
    import cisco_acl
    platform, side, who, a_top, a_bot, a_new, first, setter = arg
    mk = (lambda a: f"permit ip {a} any") if side == "src" else (lambda a: f"permit ip any {a}")
    top, bot = sc.make_ace(mk(a_top), platform), sc.make_ace(mk(a_bot), platform)
    fails = []
    tgt = top if who == "top" else bot
    addr = getattr(tgt, side + "addr")
    if setter == "prefix" and (" " in a_new.replace("host ", "") and not a_new.startswith("host")):
        return [], 0                                   # a wildcard has no prefix spelling
    try:
        if first == "shadow_of":
            bot.shadow_of(top)
        elif first == "ipnets":
            addr.ipnets()
        elif first == "subnet_of":
            getattr(bot, side + "addr").subnet_of(getattr(top, side + "addr"))
        if setter == "line":
            addr.line = a_new
        else:
            new_o = cisco_acl.Address(a_new, platform=platform)
            addr.prefix = new_o.prefix
        top_l, bot_l = top.line, bot.line
        got = bot.shadow_of(top)
    except Exception as ex:
        return [dict(key=f"bounded/shadow_of:edit-history:error:{type(ex).__name__}", what=f"{arg}: {type(ex).__name__}: {ex}", inputs=dict(case=list(arg)),
                     cmd=("import sys; sys.path.insert(0, 'props'); import C11\n"
                          f"fails, _ = C11.check_edit_history({arg!r})\nprint([f['what'] for f in fails]); sys.exit(1 if fails else 0)\n"))], 1
    want_top, want_bot = (mk(a_new), mk(a_bot)) if who == "top" else (mk(a_top), mk(a_new))
    st, sb = sc.ref_sem(want_top, platform), sc.ref_sem(want_bot, platform)
    want = sets.sem_subset(sb, st) is None
    if bool(got) != want:
        fails.append(dict(key=f"bounded/shadow_of:stale-after-address-edit:{'extra' if got else 'missed'}",
                          what=f"{platform}: after `{first}` and then `{who}.{side}addr.{setter} = {a_new!r}` the entries read {bot_l!r} / {top_l!r}; shadow_of = {got}, exact answer {want}",
                          inputs=dict(platform=platform, side=side, edited=who, top=mk(a_top), bottom=mk(a_bot), new=a_new, first_question=first, setter=setter),
                          cmd=("import sys; sys.path.insert(0, 'props'); import C11\n"
                               f"fails, _ = C11.check_edit_history({arg!r})\nprint([f['what'] for f in fails]); sys.exit(1 if fails else 0)\n")))
    return fails, 1


def edit_cases(tier):
    out = []
    for p in ("ios", "nxos"):
        A = ADDRS[p]
        for side, who, first, setter in itertools.product(("src", "dst"), ("top", "bot"), ("shadow_of", "ipnets", "subnet_of", "none"), ("line", "prefix")):
            for a_top, a_bot, a_new in itertools.product(A, A, A):
                out.append((p, side, who, a_top, a_bot, a_new, first, setter))
    return out if tier == "thorough" else out[::5]


def build_acl(lines, platform="ios", group_by=""):
    import cisco_acl
    acl = cisco_acl.Acl("ip access-list extended A" if platform == "ios" else "ip access-list A", platform=platform)
    items = []
    for l in lines:
        if " remark " in " " + l or l.startswith("remark"):
            items.append(cisco_acl.Remark(l, platform=platform))
        else:
            items.append(sc.make_ace(l, platform))
    acl.items = items
    if group_by:
        acl.group(group_by)
    return acl


def shading_spec(aces, skip):
    """report computed from the real pairwise answers: each shadowed line once, under the first earlier ACE that shadows it"""
    spec = {}
    listed = set()
    for i, top in enumerate(aces):
        for bot in aces[i + 1:]:
            if bot.shadow_of(other=top, skip=skip) and bot.line not in listed:
                spec.setdefault(top.line, []).append(bot.line)
                listed.add(bot.line)
    return spec


def check_report(arg):
    lines, skip = arg
    import cisco_acl
    acl = build_acl(lines)
    aces = [o for o in acl.items if isinstance(o, cisco_acl.Ace)]
    fails = []
    got = acl.shading(skip=list(skip))
    spec = shading_spec(aces, list(skip))
    norm = lambda d: {k: sorted(v) for k, v in d.items()}
    flat = [s for v in got.values() for s in v]
    what = None
    if norm(got) != norm(spec):
        what = f"shading() = {got} differs from the specification {spec}"
    elif len(flat) != len(set(flat)):
        what = f"a shadowed line is listed twice: {got}"
    elif sorted(acl.shadow_of(skip=list(skip))) != sorted(flat):
        what = "Acl.shadow_of() differs from the values of shading()"
    if what:
        fails.append(dict(key="bounded/Acl.shading", what=what, inputs=dict(lines=list(lines), skip=list(skip)),
                          cmd=("import sys; sys.path.insert(0, 'props'); import C11\n"
                               f"fails, _ = C11.check_report({arg!r})\nprint([f['what'] for f in fails]); sys.exit(1 if fails else 0)\n")))
    return fails, 1 if spec else 0


def acl_cases(tier, maxlen=None):
    maxlen = maxlen or (3 if tier == "quick" else 4)
    out = []
    for n in range(1, maxlen + 1):
        out += list(itertools.product(ALPHABET, repeat=n))
    if tier == "quick":
        # a slice of the length-4 lists as well
        out += list(itertools.product(ALPHABET[:6], repeat=4))[::3]
    return out


def main(chk):
    chk.prove(["c_helpers", "c_shadow", "c_option"])
    C03.attach_replays()
    chk.replay_refuted()
    chk.lemmas(C03.lemmas())
    t0 = time.time()
    cases = [(p, i, j) for p in ("ios", "nxos") for i in range(len(sc.ACES[p])) for j in range(len(sc.ACES[p]))]
    res = pmap(check_exact, cases)
    viol = 0
    for fails, _ in res:
        for f in fails:
            viol += 1
            chk.finding(f["key"], f["what"], inputs=f["inputs"], cmd=f["cmd"], key=f["key"])
    chk.add_bounded("exactness of Ace.shadow_of on group-free pairs x 5 skip lists", len(cases) * len(sc.SKIPS), sum(d for _, d in res),
                    "all ordered pairs of the group-free ACE classes with non-empty bottom port sets, both platforms", viol, time.time() - t0,
                    [dict(top=sc.ACES["ios"][1], bottom=sc.ACES["ios"][2])], exhaustive=True)
    t0 = time.time()
    acls = acl_cases(chk.tier)
    rc = [(l, s) for l in acls for s in ((), ("nc_wildcard",))]
    res = pmap(check_report, rc)
    viol = 0
    for fails, _ in res:
        for f in fails:
            viol += 1
            chk.finding(f["key"], f["what"], inputs=f["inputs"], cmd=f["cmd"], key=f["key"])
    chk.add_bounded("Acl.shading report == specification from real pairwise answers", len(rc), sum(d for _, d in res),
                    f"all ACLs of <= {3 if chk.tier == 'quick' else 4} items over an {len(ALPHABET)}-kind alphabet (duplicates, deny interleaving, empty group, "
                    "empty port set, remark, nc wildcards) x skip in {[], [nc_wildcard]}", viol, time.time() - t0, [list(acls[50])], exhaustive=True)
    t0 = time.time()
    ec = edit_cases(chk.tier)
    res = pmap(check_edit_history, ec)
    viol = 0
    for fails, _ in res:
        for f in fails:
            viol += 1
            chk.finding(f["key"], f["what"], inputs=f["inputs"], cmd=f["cmd"], key=f["key"])
    chk.add_bounded("shadow_of after one address of one entry was reassigned in place (line / prefix) following an earlier question", len(ec), sum(d for _, d in res),
                    "6 addresses^3 x side x edited entry x first question (shadow_of, ipnets, subnet_of, none) x setter x 2 platforms" + ("" if chk.tier == "thorough" else ", every 5th"),
                    viol, time.time() - t0, [list(ec[3])], exhaustive=chk.tier == "thorough")
    chk.assumptions += [
        "exact clauses are proved over object views (Inv(Port), Inv(Address)); the step from `every bottom network inside some top network` to set inclusion "
        "of two single wildcards (L13.exact) relies on Wildcard.ipnets' structure and is covered by the bounded pairs only",
        "Acl.shading is specified on line text (the report is keyed by text)",
    ]
    return chk.finish(
        "other",
        "Deductive: the `exact` and `skip` clauses of Ace.shadow_of and of the six field tests (group-free, non-empty bottom ports) and helpers.subnet_of exact. "
        "Bounded (labelled): real pairs decided by exact set algebra for every skip list; Acl.shading against its specification on all short ACLs.",
        trusted_base=["z3 5.1.0", "pyvc", "spec/sets.py", "spec/cisco_ref.py"])


if __name__ == "__main__":
    run("C11", main)
