"""C11 - Shadow answers are exact on group-free entries; the ACL report follows its spec."""
import itertools
import os
import sys
import time

sys.path.insert(0, os.path.dirname(os.path.dirname(os.path.abspath(__file__))))
from pyvc.driver import run, pmap
from spec import sets
import shadow_common as sc
import C03

ALPHABET = [
    "permit ip any any", "permit tcp any any eq 80", "permit tcp any any", "deny tcp any any eq 80", "deny ip any any",
    "permit tcp host 10.0.0.1 any eq 80", "permit ip object-group EMPTY any", "permit tcp any any lt 1", "remark r1",
    "permit ip 10.0.0.0 0.0.1.3 any", "permit ip 10.0.0.0 0.0.0.3 any", "permit tcp any any syn fin", "permit tcp host 10.0.0.1 any ack syn",
    "permit 200 any any", "permit 201 any any", "permit ip 10.0.0.0 128.0.0.255 any", "permit ip 138.0.0.0 0.0.0.255 any",
]


def check_exact(arg):
    """group-free pair with non-empty bottom port sets: answer == (same action and set inclusion and no skipped kind involved)"""
    platform, i, j = arg
    top_l, bot_l = sc.ACES[platform][i], sc.ACES[platform][j]
    if not (sc.group_free(top_l) and sc.group_free(bot_l)):
        return [], 0
    st, sb = sc.ref_sem(top_l, platform), sc.ref_sem(bot_l, platform)
    if not sc.bottom_ports_nonempty(sb):
        return [], 0
    top, bot = sc.make_ace(top_l, platform), sc.make_ace(bot_l, platform)
    fails = []
    for skip in sc.SKIPS:
        want = st.action == sb.action and sets.sem_subset(sb, st) is None
        if any(sc.involves(l, k, platform) for k in skip for l in (top_l, bot_l)):
            want = False
        got = bot.shadow_of(top, skip=list(skip))
        if bool(got) != want:
            fails.append(dict(key=f"bounded/shadow_of:inexact:{'missed' if want else 'extra'}",
                              what=f"{bot_l!r}.shadow_of({top_l!r}, skip={list(skip)}) = {got}, exact answer {want}",
                              inputs=dict(top=top_l, bottom=bot_l, skip=list(skip), platform=platform),
                              cmd=("import sys; sys.path.insert(0, 'props'); import C11\n"
                                   f"fails, _ = C11.check_exact({arg!r})\nprint([f['what'] for f in fails]); sys.exit(1 if fails else 0)\n")))
    return fails, 1


def build_acl(lines, platform="ios", group_by=""):
    import cisco_acl
    acl = cisco_acl.Acl("ip access-list extended A" if platform == "ios" else "ip access-list A", platform=platform)
    items = []
    for l in lines:
        if " remark " in " " + l or l.startswith("remark"):
            items.append(cisco_acl.Remark(l, platform=platform))
        else:
            items.append(sc.make_ace(l, platform))
    acl.items = items
    if group_by:
        acl.group(group_by)
    return acl


def shading_spec(aces, skip):
    """report computed from the real pairwise answers: each shadowed line once, under the first earlier ACE that shadows it"""
    spec = {}
    listed = set()
    for i, top in enumerate(aces):
        for bot in aces[i + 1:]:
            if bot.shadow_of(other=top, skip=skip) and bot.line not in listed:
                spec.setdefault(top.line, []).append(bot.line)
                listed.add(bot.line)
    return spec


def check_report(arg):
    lines, skip = arg
    import cisco_acl
    acl = build_acl(lines)
    aces = [o for o in acl.items if isinstance(o, cisco_acl.Ace)]
    fails = []
    got = acl.shading(skip=list(skip))
    spec = shading_spec(aces, list(skip))
    norm = lambda d: {k: sorted(v) for k, v in d.items()}
    flat = [s for v in got.values() for s in v]
    what = None
    if norm(got) != norm(spec):
        what = f"shading() = {got} differs from the specification {spec}"
    elif len(flat) != len(set(flat)):
        what = f"a shadowed line is listed twice: {got}"
    elif sorted(acl.shadow_of(skip=list(skip))) != sorted(flat):
        what = "Acl.shadow_of() differs from the values of shading()"
    if what:
        fails.append(dict(key="bounded/Acl.shading", what=what, inputs=dict(lines=list(lines), skip=list(skip)),
                          cmd=("import sys; sys.path.insert(0, 'props'); import C11\n"
                               f"fails, _ = C11.check_report({arg!r})\nprint([f['what'] for f in fails]); sys.exit(1 if fails else 0)\n")))
    return fails, 1 if spec else 0


def acl_cases(tier, maxlen=None):
    maxlen = maxlen or (3 if tier == "quick" else 4)
    out = []
    for n in range(1, maxlen + 1):
        out += list(itertools.product(ALPHABET, repeat=n))
    if tier == "quick":
        # a slice of the length-4 lists as well
        out += list(itertools.product(ALPHABET[:6], repeat=4))[::3]
    return out


def main(chk):
    chk.prove(["c_helpers", "c_shadow"])
    C03.attach_replays()
    chk.replay_refuted()
    chk.lemmas(C03.lemmas())
    t0 = time.time()
    cases = [(p, i, j) for p in ("ios", "nxos") for i in range(len(sc.ACES[p])) for j in range(len(sc.ACES[p]))]
    res = pmap(check_exact, cases)
    viol = 0
    for fails, _ in res:
        for f in fails:
            viol += 1
            chk.finding(f["key"], f["what"], inputs=f["inputs"], cmd=f["cmd"], key=f["key"])
    chk.add_bounded("exactness of Ace.shadow_of on group-free pairs x 5 skip lists", len(cases) * len(sc.SKIPS), sum(d for _, d in res),
                    "all ordered pairs of the group-free ACE classes with non-empty bottom port sets, both platforms", viol, time.time() - t0,
                    [dict(top=sc.ACES["ios"][1], bottom=sc.ACES["ios"][2])], exhaustive=True)
    t0 = time.time()
    acls = acl_cases(chk.tier)
    rc = [(l, s) for l in acls for s in ((), ("nc_wildcard",))]
    res = pmap(check_report, rc)
    viol = 0
    for fails, _ in res:
        for f in fails:
            viol += 1
            chk.finding(f["key"], f["what"], inputs=f["inputs"], cmd=f["cmd"], key=f["key"])
    chk.add_bounded("Acl.shading report == specification from real pairwise answers", len(rc), sum(d for _, d in res),
                    f"all ACLs of <= {3 if chk.tier == 'quick' else 4} items over an {len(ALPHABET)}-kind alphabet (duplicates, deny interleaving, empty group, "
                    "empty port set, remark, nc wildcards) x skip in {[], [nc_wildcard]}", viol, time.time() - t0, [list(acls[50])], exhaustive=True)
    chk.assumptions += [
        "exact clauses are proved over object views (Inv(Port), Inv(Address)); the step from `every bottom network inside some top network` to set inclusion "
        "of two single wildcards (L13.exact) relies on Wildcard.ipnets' structure and is covered by the bounded pairs only",
        "Acl.shading is specified on line text (the report is keyed by text)",
    ]
    return chk.finish(
        "other",
        "Deductive: the `exact` and `skip` clauses of Ace.shadow_of and of the six field tests (group-free, non-empty bottom ports) and helpers.subnet_of exact. "
        "Bounded (labelled): real pairs decided by exact set algebra for every skip list; Acl.shading against its specification on all short ACLs.",
        trusted_base=["z3 5.1.0", "pyvc", "spec/sets.py", "spec/cisco_ref.py"])


if __name__ == "__main__":
    run("C11", main)
