"""C17 - Any sequence of public operations keeps an ACL consistent with a reference model."""
import itertools
import os
import random
import sys
import time

sys.path.insert(0, os.path.dirname(os.path.dirname(os.path.abspath(__file__))))
from pyvc.driver import run, pmap
from spec import cisco_ref, sets

SEEDS = {
    "ios": [["remark = H1", "permit tcp host 10.0.0.1 any eq 80 443", "permit tcp any any eq 80", "remark = H2", "deny ip any any log"],
            ["10 permit ip any any", "20 permit tcp any any eq 80", "30 deny udp any any eq 53"],
            ["permit tcp any eq 1 2 any eq 3", "remark plain", "permit icmp any any", "permit icmp any any"],
            ["permit icmp any any", "permit ip host 1.1.1.1 any", "remark = H1", "permit tcp any any eq 22", "remark = H2", "deny udp any any", "permit ip any host 2.2.2.2"],
            # protocols without a keyword (on one platform or on both): different numbers never shadow each other
            ["permit 200 any any", "permit 201 any any", "permit 4 10.0.0.0 0.255.255.255 any", "permit 8 10.1.0.0 0.0.255.255 any", "permit 41 10.1.1.0 0.0.0.255 any"]],
    "nxos": [["remark = H1", "permit tcp 10.0.0.1/32 any eq 80", "permit tcp any any eq 80", "remark = H2", "deny ip any any log"],
             ["10 permit ip any any", "20 permit tcp any any eq 80", "30 deny udp any any eq 53"],
             ["permit icmp any any", "permit ip 1.1.1.1/32 any", "remark = H1", "permit tcp any any eq 22", "remark = H2", "deny udp any any", "permit ip any 2.2.2.2/32"],
             ["permit 200 any any", "permit 201 any any", "permit 4 10.0.0.0/8 any", "permit 8 10.1.0.0/16 any", "permit 41 10.1.1.0/24 any"]],
}
OPS = ["platform:ios", "platform:nxos", "port_nr:1", "port_nr:0", "protocol_nr:1", "protocol_nr:0", "resequence:10:10", "resequence:5:1", "resequence:0",
       "group", "ungroup", "sort", "reverse", "insert", "pop", "copy", "data", "reparse", "delete_shadow", "ungroup_ports"]


# ---------------------------------------------------------------------------------------------- reference model
class Rule:
    __slots__ = ("kind", "sem", "text", "seq")

    def __init__(self, kind, sem, text, seq):
        self.kind, self.sem, self.text, self.seq = kind, sem, text, seq

    def key(self):
        if self.kind == "remark":
            return ("remark", self.text, self.seq)
        s = self.sem
        return ("ace", s.action, s.proto, s.src, s.dst, s.sports, s.dports, s.flags, s.logs, self.seq)


def view_of_text(text, platform):
    # the library writes the keyword `ip` as protocol number 0 under protocol_nr (known finding of C01): read it back as `ip`
    text = "\n".join(" ".join("ip" if (t == "0" and i in (1, 2) and ("permit" in l.split()[:2] or "deny" in l.split()[:2])) else t
                               for i, t in enumerate(l.split())) if k else l for k, l in enumerate(text.split("\n")))
    _, items = cisco_ref.read_acl(text, platform)
    out = []
    for it in items:
        if it[0] == "remark":
            out.append(Rule("remark", None, it[2], it[1]))
        else:
            out.append(Rule("ace", it[1].sem, None, it[1].sequence))
    return out


def split_rule(r):
    """eq with several ports on a side -> the adjacent single-port rules"""
    s = r.sem
    def parts(ps, multi):
        return [frozenset([p]) for p in sorted(ps)] if multi else [ps]
    return s


class Model:
    """state: top-level blocks (a block is a list of rules: one rule, or the members of an ACE group), group_by flag,
    platform; `multi` marks rules that list several eq ports on a side (a fact of the source text)"""

    def __init__(self, lines, platform):
        self.platform = platform
        self.group_by = False
        rules = []
        self.multi = {}
        for l in lines:
            toks = l.split()
            k = 1 if toks[0].isdigit() else 0
            if toks[k] == "remark":
                r = Rule("remark", None, " ".join(toks[k + 1:]), int(toks[0]) if k else 0)
            else:
                x = cisco_ref.read_ace(l, platform)
                r = Rule("ace", x.sem, None, x.sequence)
                self.multi[id(r)] = self._multi(l)
            rules.append(r)
        self.blocks = [[r] for r in rules]
        self.isgroup = [False] * len(rules)       # parallel to blocks: is the block an ACE group object?

    @property
    def rules(self):
        return [r for b in self.blocks for r in b]

    def set_blocks(self, blocks, isgroup):
        keep = [i for i, b in enumerate(blocks) if b]
        self.blocks = [blocks[i] for i in keep]
        self.isgroup = [isgroup[i] for i in keep]

    @staticmethod
    def _multi(line):
        toks = line.split()
        for i, t in enumerate(toks):
            if t == "eq":
                n = 0
                for u in toks[i + 1:]:
                    if u.isdigit() or (u.replace("-", "").isalpha() and u not in ("any", "host", "log", "ack", "syn", "eq", "neq", "gt", "lt", "range", "established")):
                        n += 1
                    else:
                        break
                if n > 1:
                    return True
        return False

    def regroup(self):
        """Acl.group('='): flatten, then a block starts at each heading remark; items before the first heading form one block"""
        out = [[]]
        for r in self.rules:
            if r.kind == "remark" and r.text.startswith("="):
                out.append([r])
            else:
                out[-1].append(r)
        self.set_blocks(out, [True] * len(out))

    def flat(self):
        rules = self.rules
        self.set_blocks([[r] for r in rules], [False] * len(rules))

    def map_rules(self, fn):
        """replace every rule by a list of rules: inside its group, or as separate top-level items"""
        nb, ng = [], []
        for b, g in zip(self.blocks, self.isgroup):
            if g:
                nb.append([x for r in b for x in fn(r)])
                ng.append(True)
            else:
                for x in fn(b[0]):
                    nb.append([x])
                    ng.append(False)
        self.set_blocks(nb, ng)

    def split(self, r):
        if r.kind == "ace" and self.multi.get(id(r)):
            s = r.sem
            sp = [frozenset([p]) for p in sorted(s.sports)] if s.sports is not None and 1 < len(s.sports) < 20 else [s.sports]
            dp = [frozenset([p]) for p in sorted(s.dports)] if s.dports is not None and 1 < len(s.dports) < 20 else [s.dports]
            return [Rule("ace", sets.AceSem(s.action, s.proto, s.src, s.dst, a, b, s.flags, s.logs), None, r.seq) for a in sp for b in dp]
        return [r]

    def apply(self, op, rnd):
        a = op.split(":")
        if a[0] == "platform":
            if a[1] == "nxos":
                self.map_rules(self.split)
                if self.group_by:
                    self.regroup()          # Acl.ungroup_ports goes through the items setter, which regroups
            self.platform = a[1]
        elif a[0] in ("port_nr", "protocol_nr"):
            # the switches rebuild the ACL from its exported data: with group_by set the items are regrouped
            if self.group_by:
                self.regroup()
        elif a[0] in ("copy", "data", "reparse"):
            if self.group_by:
                self.regroup()
            elif a[0] == "reparse":
                self.flat()
        elif a[0] == "resequence":
            start = int(a[1])
            step = int(a[2]) if len(a) > 2 else 10
            for i, r in enumerate(self.rules):
                r.seq = 0 if start == 0 else start + i * step
        elif a[0] == "group":
            self.group_by = True
            self.regroup()
        elif a[0] == "ungroup":
            self.group_by = False
            self.flat()
        elif a[0] == "reverse":
            self.blocks.reverse()
            self.isgroup.reverse()
        elif a[0] == "insert":
            new = Rule("ace", cisco_ref.read_ace("permit udp any any eq 123", self.platform).sem, None, 0)
            k = min(1, len(self.blocks))
            self.blocks.insert(k, [new])
            self.isgroup.insert(k, False)
        elif a[0] == "pop":
            if self.blocks:
                self.blocks.pop()
                self.isgroup.pop()
        elif a[0] == "ungroup_ports":
            self.map_rules(self.split)
            if self.group_by:
                self.regroup()
        elif a[0] == "delete_shadow":
            flat = self.rules
            drop = set()
            for j, r in enumerate(flat):
                if r.kind == "ace":
                    for t in flat[:j]:
                        if t.kind == "ace" and t.sem.action == r.sem.action and not r.sem.is_empty() and sets.sem_subset(r.sem, t.sem) is None:
                            drop.add(id(r))
                            break
            if drop:
                kept = [r for r in flat if id(r) not in drop]
                self.set_blocks([[r] for r in kept], [False] * len(kept))
                if self.group_by:
                    self.regroup()
        return None


def apply_real(acl, op, platform0):
    import cisco_acl
    a = op.split(":")
    if a[0] == "platform":
        acl.platform = a[1]
    elif a[0] == "port_nr":
        acl.port_nr = a[1] == "1"
    elif a[0] == "protocol_nr":
        acl.protocol_nr = a[1] == "1"
    elif a[0] == "resequence":
        acl.resequence(int(a[1]), int(a[2]) if len(a) > 2 else 10)
    elif a[0] == "group":
        acl.group("=")
    elif a[0] == "ungroup":
        acl.ungroup()
    elif a[0] == "reverse":
        acl.reverse()
    elif a[0] == "insert":
        acl.insert(min(1, len(acl.items)), cisco_acl.Ace("permit udp any any eq 123", platform=acl.platform, port_nr=acl.port_nr, protocol_nr=acl.protocol_nr))
    elif a[0] == "pop":
        if acl.items:
            acl.pop()
    elif a[0] == "copy":
        return acl.copy()
    elif a[0] == "data":
        return cisco_acl.Acl(**acl.data())
    elif a[0] == "reparse":
        return cisco_acl.Acl(acl.line, platform=acl.platform, port_nr=acl.port_nr, protocol_nr=acl.protocol_nr, group_by=acl.group_by)
    elif a[0] == "ungroup_ports":
        acl.ungroup_ports()
    elif a[0] == "delete_shadow":
        acl.delete_shadow()
    return acl


def check_seq(arg):
    import cisco_acl
    platform, seed_idx, ops = arg
    lines = SEEDS[platform][seed_idx]
    head = "ip access-list extended A1" if platform == "ios" else "ip access-list A1"
    acl = cisco_acl.Acl("\n".join([head] + lines), platform=platform)
    model = Model(lines, platform)
    rnd = random.Random(0)
    fails = []
    inputs = dict(platform=platform, seed_acl=lines, ops=list(ops))

    def bad(kind, what, k):
        shape = ":on-groups-built-from-text" if ops[k] == "sortnum" and ("reparse" in ops[:k] or "group" not in ops[:k]) else ""
        fails.append(dict(key=f"bounded/ops:{kind}:{ops[k].split(':')[0]}" + shape, what=what, inputs=dict(inputs, failing_step=k),
                          cmd=("import sys; sys.path.insert(0, 'props'); import C17\n"
                               f"fails, _ = C17.check_seq({arg!r})\nprint([f['what'] for f in fails]); sys.exit(1 if fails else 0)\n")))
    for k, op in enumerate(ops):
        if op == "sortnum":
            # sorting by the numbers the entries carry now (no renumbering first): only meaningful when all rules are numbered, distinct and in order
            seqs = [r.seq for r in model.rules]
            if not seqs or min(seqs) <= 0 or seqs != sorted(set(seqs)):
                continue
            its = list(acl.items)
            rnd.shuffle(its)
            acl.items.clear()
            acl.items.extend(its)
            acl.sort()
        elif op == "sort":
            # sort is modelled right after a renumbering: shuffle the top-level items first, sort must restore the numbered order
            st_, sp_ = [(10, 10), (5, 5), (95, 10)][(k + len(ops)) % 3]
            acl.resequence(st_, sp_)
            model.apply(f"resequence:{st_}:{sp_}", rnd)
            its = list(acl.items)
            rnd.shuffle(its)
            acl.items.clear()
            acl.items.extend(its)
            acl.sort()
        else:
            if op.startswith("platform:") and op.endswith("ios") and model.platform == "nxos":
                pass
            try:
                acl = apply_real(acl, op, platform)
            except Exception as ex:
                bad("error", f"step {k} `{op}` raised {type(ex).__name__}: {ex}", k)
                return fails, 1
            model.apply(op, rnd)
        # 1. the rendered text parses back to itself
        text = acl.line
        try:
            again = cisco_acl.Acl(text, platform=acl.platform, port_nr=acl.port_nr, protocol_nr=acl.protocol_nr)
            if again.line != text:
                bad("not-fixpoint", f"after {list(ops[:k + 1])} the rendered text does not parse back to itself", k)
                return fails, 1
        except Exception as ex:
            bad("rejects-own-text", f"after {list(ops[:k + 1])}: {type(ex).__name__}: {ex}", k)
            return fails, 1
        # 2. it denotes exactly the rule list the model predicts
        try:
            got = view_of_text(text, acl.platform)
        except cisco_ref.RefError as ex:
            bad("syntax", f"after {list(ops[:k + 1])} the text is not valid {acl.platform} syntax: {ex}", k)
            return fails, 1
        want = model.rules
        if acl.platform != model.platform:
            bad("platform", f"platform {acl.platform} vs model {model.platform}", k)
            return fails, 1
        if [r.key() for r in got] != [r.key() for r in want]:
            bad("model", f"after {list(ops[:k + 1])} the ACL is {text.splitlines()[1:]}; the reference model predicts {len(want)} rules "
                         f"(first difference at rule {next((i for i, (x, y) in enumerate(zip(got, want)) if x.key() != y.key()), min(len(got), len(want)))})", k)
            return fails, 1
    return fails, 1


def check_switch_history(arg):
    """assigning a switch the value it already has is an operation like any other: after it the ACL is what the same assignment gives on an ACL that
    reached the same rules another way (an entry object with its own switch settings was inserted in between)"""
    import cisco_acl
    platform, switch, value, pre = arg
    head = "ip access-list extended A1" if platform == "ios" else "ip access-list A1"
    body = ["permit tcp any any eq 80", "permit udp any any eq 53", "deny 47 any any", "permit 6 host 10.0.0.1 any eq 22"]
    raw = "permit tcp any any eq 23" if switch == "port_nr" else "permit 17 any any"          # telnet / udp: rendered differently under the two settings

    def build(order):
        acl = cisco_acl.Acl("\n".join([head] + body), platform=platform)
        for op in order:
            if op == "switch":
                setattr(acl, switch, value)
            elif op == "other":
                setattr(acl, switch, not value)
            elif op == "insert":
                acl.insert(1, cisco_acl.Ace(raw, platform=platform))           # the entry carries the default settings
            elif op == "pop-insert":
                it = acl.pop(0)
                setattr(acl, switch, value)
                acl.insert(0, it)
        return acl
    a = build(pre + ("switch",))
    b = build(("insert",) * pre.count("insert") + ("switch",)) if "pop-insert" not in pre else build(("switch",))
    fails = []
    what = None
    if a.line != b.line:
        what = f"{platform}: after {list(pre)} and then `{switch} = {value}` the ACL reads {a.line.splitlines()[1:]}; the same rules with the same assignment applied once read {b.line.splitlines()[1:]}"
    else:
        again = cisco_acl.Acl(a.line, platform=platform, **{switch: value})
        if again.line != a.line:
            what = f"{platform}: after {list(pre)} and `{switch} = {value}` the text does not parse back to itself"
    if what:
        fails.append(dict(key=f"bounded/ops:history:{switch}", what=what, inputs=dict(platform=platform, switch=switch, value=value, before=list(pre)),
                          cmd=("import sys; sys.path.insert(0, 'props'); import C17\n"
                               f"fails, _ = C17.check_switch_history({arg!r})\nprint([f['what'] for f in fails]); sys.exit(1 if fails else 0)\n")))
    return fails, 1


def main(chk):
    chk.prove(["c_listops"])
    t0 = time.time()
    hcases = [(p, sw, v, pre) for p in ("ios", "nxos") for sw in ("port_nr", "protocol_nr") for v in (True, False)
              for pre in (("switch", "insert"), ("insert",), ("other", "switch", "insert"), ("switch", "pop-insert"), ("switch", "insert", "insert"), ("other", "insert"))]
    hres = pmap(check_switch_history, hcases)
    hviol = 0
    for fails, _ in hres:
        for f in fails:
            hviol += 1
            chk.finding(f["key"], f["what"], inputs=f["inputs"], cmd=f.get("cmd"), key=f["key"])
    chk.add_bounded("a switch assigned the value it already has, after entry objects with other settings were inserted: same result as on any other path to the same rules",
                    len(hcases), len(hcases), "2 platforms x 2 switches x 2 values x 6 prefixes", hviol, time.time() - t0, [list(hcases[0][:3])], exhaustive=True)
    t0 = time.time()
    n = 2 if chk.tier == "quick" else 3
    cases = []
    for platform in ("ios", "nxos"):
        for si in range(len(SEEDS[platform])):
            for k in range(1, n + 1):
                for ops in itertools.product(OPS, repeat=k):
                    cases.append((platform, si, ops))
    # order/structure operations: exhaustive to one step deeper (an effect that shows only two steps later, e.g. reverse twice)
    STRUCT = ["group", "ungroup", "reverse", "insert", "pop", "sort", "copy"]
    for platform in ("ios", "nxos"):
        for si in (0, {'ios': 3, 'nxos': 2}[platform]):        # the ACLs with headings (with and without entries before the first heading)
            for ops in itertools.product(STRUCT, repeat=n + 1):
                cases.append((platform, si, ops))
    # sorting by the present numbers after operations that rebuild the ACL (the effect of sort must not depend on them)
    for platform in ("ios", "nxos"):
        for si in (0, {'ios': 3, 'nxos': 2}[platform], 1):
            for mid in ((), ("copy",), ("data",), ("port_nr:1",), ("protocol_nr:1",), ("platform:" + platform,), ("reparse",), ("copy", "copy")):
                for pre in (("group",), ()):
                    cases.append((platform, si, pre + ("resequence:5:5",) + mid + ("sortnum",)))
    rnd = random.Random(chk.seed)
    for _ in range(1500 if chk.tier == "quick" else 20000):
        platform = rnd.choice(["ios", "nxos"])
        cases.append((platform, rnd.randrange(len(SEEDS[platform])), tuple(rnd.choice(OPS) for _ in range(rnd.randint(3, 8)))))
    res = pmap(check_seq, cases)
    viol = 0
    seen = set()
    for fails, _ in res:
        for f in fails:
            viol += 1
            if f["key"] in seen:
                continue
            seen.add(f["key"])
            chk.finding(f["key"], f["what"], inputs=f["inputs"], cmd=f.get("cmd"), key=f["key"])
    chk.add_bounded("sequences of public operations: after every step the text re-parses to itself and denotes the rule list of the reference model", len(cases), len(cases),
                    f"all sequences of <= {n} operations over an alphabet of {len(OPS)} (with arguments) from {sum(len(v) for v in SEEDS.values())} seed ACLs, all sequences of {n + 1} order/structure operations "
                    "(group, ungroup, reverse, insert, pop, sort, copy) from the ACLs with headings, plus seeded random "
                    "sequences of 3..8 operations", viol, time.time() - t0, [list(cases[321][2])], exhaustive=False)
    chk.assumptions += ["the inductive argument (every operation satisfies its model from every consistent state => every history does) is checked only on the enumerated "
                        "states; whole-history properties are outside contract-based deduction", "the memo part of the consistency invariant is proved in C05"]
    return chk.finish("other", "Deductive (list layer only): Group.append / reverse / clear / __len__ act on the item list exactly as the model's list operations (item last, positions mirrored, nothing left; every other position kept). "
                      "Bounded (labelled): per-operation contracts View' == Model_op(View) from all states reached by short sequences, with an independent reader.",
                      trusted_base=["spec/cisco_ref.py", "spec/sets.py", "the reference model in props/C17.py"])


if __name__ == "__main__":
    run("C17", main)
