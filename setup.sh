#!/bin/sh
# Offline build of the overlay venv /verif/.venv:
#   python 3.12 (the repo's interpreter) + z3-solver, cvc5, crosshair-tool, deal, icontract, jsonschema
#   from the local wheelhouse; a .pth makes the repo's own dependencies (/venv site-packages, which
#   also contains cisco_acl.pth -> /repo working tree) importable.
set -e
cd "$(dirname "$0")"
V=.venv
if [ -x "$V/bin/python" ] && "$V/bin/python" -c "import z3, cvc5, jsonschema, cisco_acl" 2>/dev/null; then
  echo "setup: $V already usable"; exit 0
fi
rm -rf "$V"
/venv/bin/python -m venv --without-pip "$V"
PIP_NO_INDEX=1 /venv/bin/python -m pip install --quiet --no-index --find-links /opt/veriftools/wheels \
   --prefix "$V" z3-solver cvc5 crosshair-tool deal icontract jsonschema hypothesis 2>&1 | grep -v "WARNING" || true
SP="$V/lib/python3.12/site-packages"
echo "import site; site.addsitedir('/venv/lib/python3.12/site-packages')" > "$SP/_base.pth"
"$V/bin/python" -c "import z3, cvc5, jsonschema, cisco_acl; print('setup: ok', z3.get_version_string(), cisco_acl.__file__)"
